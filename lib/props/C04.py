"""C04 — every displayed location is valid and points at the construct it talks about.

PROVED (coq/props/C04.v): offsets in the pre-processed text are offsets of the
file (C05 lemmas restated), label construction from node metas
(Model.Labels over the constructor table REGENERATED from the Rust sources by
`gen` below -> coq/gen/LabelSites.v), no label for file-less (phi) metas, and
the line/column computation of codespan on the ORIGINAL text.

OBSERVED (engine `locations`, this file): generated projects (token trees
rendered with comments of every shape, multi-byte characters, CRLF, tabs,
desugared constructs, SSA phis, includes, lexical errors) go through
  * the harness binary `locations` (parse_files + AnalysisRunner exactly as
    cli/src/main.rs drives them, every report kept), and
  * the CLI binary (`--verbose -l info --sarif-file`).
Every label is checked: file known to the file library and read from disk with
the original bytes; 0 <= start <= end <= len; UTF-8 boundaries; token
boundaries of the original text (independent Python lexer); codespan's
line/column == recomputed from the original bytes; rendered header == locus;
the text under the primary label is the construct the message is about (table
code -> predicate over the generator's recorded byte ranges); every finding
the CLI displays / writes to SARIF carries exactly the recomputed line:column
and region.  Provenance clause (harness mode `provenance`): every node of the
CFG built by into_cfg has the (start, end, file id) of an AST node of the
corresponding kind of the definition body; every node after into_ssa is such a
node or an inserted phi with Meta::default() (the SSA half is PROVED for the
mirror: C04_ssa_blocks_from_input).  The extracted Model.Labels.location /
sarif_region (coq/extract/locations.*) is run against FileLibrary /
sarif_conversion.rs / the renderer on bare texts (harness mode `codespan`)."""
import collections
import concurrent.futures
import glob
import json
import os
import re
import shutil

import common
import e2e
from props import c04gen

# ----------------------------------------------------------------------------
# gen: coq/gen/LabelSites.v from the Rust sources
# ----------------------------------------------------------------------------

SITE_FILES = [
    "program_analysis/src/signal_assignments.rs",
    "program_analysis/src/side_effect_analysis.rs",
    "program_analysis/src/constant_conditional.rs",
    "program_analysis/src/nonstrict_binary_conversion.rs",
    "program_analysis/src/bn254_specific_circuit.rs",
    "program_analysis/src/unconstrained_less_than.rs",
    "program_analysis/src/unconstrained_division.rs",
    "program_analysis/src/under_constrained_signals.rs",
    "program_analysis/src/unused_output_signal.rs",
    "program_analysis/src/field_arithmetic.rs",
    "program_analysis/src/field_comparisons.rs",
    "program_analysis/src/bitwise_complement.rs",
    "program_analysis/src/definition_complexity.rs",
    "program_structure/src/control_flow_graph/errors.rs",
    "program_structure/src/intermediate_representation/errors.rs",
    "program_structure/src/static_single_assignment/errors.rs",
    "program_structure/src/program_library/program_merger.rs",
    "parser/src/errors.rs",
]


SCAN_ROOTS = ["cli/src", "parser/src", "program_analysis/src", "program_structure/src", "circom_algebra/src"]


def site_files():
    """SITE_FILES in their fixed order (the order of Model.Labels.modelled_shapes), followed by EVERY other .rs
    file of the crates (cli, parser, program_analysis, program_structure, circom_algebra), sorted: a label built in
    a file the list does not name adds rows to the regenerated table (and breaks label_sites_match_model) instead of
    going unseen."""
    out = [f for f in SITE_FILES if os.path.exists(os.path.join(common.REPO, f))]
    seen = set(out)
    extra = []
    for root in SCAN_ROOTS:
        top = os.path.join(common.REPO, root)
        for d, dirs, files in os.walk(top):
            dirs.sort()
            for f in sorted(files):
                if f.endswith(".rs"):
                    rel = os.path.relpath(os.path.join(d, f), common.REPO)
                    if rel not in seen:
                        seen.add(rel)
                        extra.append(rel)
    return out, sorted(extra)


def strip_rust_comments(src):
    out = []
    i = 0
    n = len(src)
    while i < n:
        if src.startswith("//", i):
            j = src.find("\n", i)
            i = n if j < 0 else j
        elif src.startswith("/*", i):
            j = src.find("*/", i + 2)
            i = n if j < 0 else j + 2
        elif src[i] == '"':
            j = i + 1
            while j < n and src[j] != '"':
                j += 2 if src[j] == "\\" else 1
            out.append('"' + "s" * 0 + '"')       # string contents are irrelevant to the scan
            i = j + 1
        else:
            out.append(src[i])
            i += 1
    return "".join(out)


def cut_test_modules(src):
    """removes every `#[cfg(test)] mod <name> { .. }` block (only the block: code after it is still scanned)"""
    while True:
        m = re.search(r"#\[cfg\(test\)\]\s*(?:pub\s+)?mod\s+[a-z_0-9]+\s*\{", src)
        if not m:
            return src
        src = src[:m.start()] + src[matching(src, m.end() - 1, "{", "}"):]


def matching(src, i, open_c, close_c):
    """index just after the bracket matching src[i] == open_c"""
    depth = 0
    while i < len(src):
        if src[i] == open_c:
            depth += 1
        elif src[i] == close_c:
            depth -= 1
            if depth == 0:
                return i + 1
        i += 1
    return len(src)


def split_args(s):
    out, depth, cur = [], 0, ""
    for ch in s:
        if ch in "([{":
            depth += 1
        elif ch in ")]}":
            depth -= 1
        if ch == "," and depth == 0:
            out.append(cur.strip())
            cur = ""
        else:
            cur += ch
    if cur.strip():
        out.append(cur.strip())
    return out


def norm(e):
    return re.sub(r"\s+", "", e)


def classify_location(expr, stored=()):
    """How the range of a label is obtained.  Anything that is not a field
    holding a range / a meta's range is `LMadeUp` (arithmetic, literals,
    ranges built in place, ...).  `stored`: names bound by an enclosing
    `if let Some((id, location)) = self.f(..)` whose `f` returns only
    `(<d>.get_file_id(), <d>.get_param_location())` pairs of one stored definition record."""
    e = norm(expr)
    e = re.sub(r"\.clone\(\)$", "", e)
    if any(e == loc for _, loc in stored):
        return "LStoredParams"
    if re.fullmatch(r"(self\.)?(file_location|location|primary_location|secondary_location|file_loc)", e):
        return "LRangeField"
    if re.fullmatch(r"(self\.)?[a-z_]+(\.meta\(\))?\.(file_location\(\)|location)", e) or \
            re.fullmatch(r"(self\.)?[a-z_]+\.meta\(\)\.file_location\(\)", e):
        return "LMetaRange"
    if re.fullmatch(r"(self\.)?(file_location|location|primary_location|secondary_location|file_loc)", e):
        return "LRangeField"
    if re.fullmatch(r"(self\.)?primary_meta\(\)\.file_location\(\)", e):
        return "LMetaRange"
    return "LMadeUp"


def classify_file(expr, guards, stored=(), loc_expr=""):
    """How the file id of a label is obtained: `LFileStored` = the plain FileID stored in the same definition
    record as the parameter-list range of the label (see classify_location; only together with that range);
    otherwise from an enclosing
    `if let Some(<id>) = <source>` guard (possibly file-less meta: guarded), a
    plain FileID field of an error that is only built for a parsed file
    (`LFileKnown`), or an unguarded unwrap of an optional id (`LFileUnwrapped`)."""
    e = norm(expr).lstrip("*")
    le = re.sub(r"\.clone\(\)$", "", norm(loc_expr))
    if any(e == fid and le == loc for fid, loc in stored):
        return "LFileStored"
    for var, source in reversed(guards):
        if e == var:
            return "LFileGuarded"
    if e in ("self.file_id", "file_id"):
        return "LFileKnown"        # a plain FileID (an Option would not type-check as the argument)
    return "LFileUnwrapped"         # get_file_id(), unwrap(), unwrap_or(..), anything computed


def scan_file(rel):
    """-> list of (owner, style, range_class, file_class, raw_location, raw_file)"""
    src = strip_rust_comments(open(os.path.join(common.REPO, rel)).read())
    src = cut_test_modules(src)
    sites = []
    owners = [(m.start(), m.group(1)) for m in re.finditer(r"\bimpl(?:<[^>]*>)?\s+(?:[A-Za-z:<>, ]+\s+for\s+)?([A-Za-z0-9_]+)", src)]
    owners += [(m.start(), "fn " + m.group(1)) for m in re.finditer(r"^(?:pub\s+)?fn\s+([a-z_0-9]+)", src, re.M)]
    owners.sort()
    variants = [(m.start(), m.group(1)) for m in re.finditer(r"\b([A-Z][A-Za-z0-9]+(?:::[A-Z][A-Za-z0-9]+)?)\s*\{[^{}]*\}\s*=>\s*\{", src)]
    for m in re.finditer(r"\.add_(primary|secondary)\s*\(", src):
        style = m.group(1)
        end = matching(src, m.end() - 1, "(", ")")
        args = split_args(src[m.end():end - 1])
        owner = "?"
        for pos, name in owners:
            if pos < m.start():
                owner = name
        variant = ""
        for pos, name in variants:
            if pos < m.start():
                # still inside the arm?
                brace = src.find("{", src.find("=>", pos))
                if matching(src, brace, "{", "}") > m.start():
                    variant = name.split("::")[-1]
        # enclosing guards: `if let Some(x) = y {` whose block contains the call
        guards = []
        for g in re.finditer(r"if\s+let\s+Some\(\s*([a-z_]+)\s*\)\s*=\s*([^{]+)\{", src):
            if g.start() < m.start():
                blk_end = matching(src, g.end() - 1, "{", "}")
                if blk_end > m.start():
                    guards.append((g.group(1), norm(g.group(2))))
        # `if let Some((id, location)) = self.f(..) {`: pairs handed out by a helper of the same file
        stored = []
        for g in re.finditer(r"if\s+let\s+Some\(\s*\(\s*([a-z_]+)\s*,\s*([a-z_]+)\s*\)\s*\)\s*=\s*self\s*\.\s*([a-z_0-9]+)\s*\([^{]*\{", src):
            if g.start() < m.start() and matching(src, g.end() - 1, "{", "}") > m.start() and \
                    returns_stored_param_pairs(src, g.group(3)):
                stored.append((g.group(1), g.group(2)))
        loc = args[0] if args else ""
        fid = args[1] if len(args) > 1 else ""
        sites.append((owner + ("." + variant if variant else ""), style, classify_location(loc, stored),
                      classify_file(fid, guards, stored, loc), norm(loc), norm(fid)))
    # label built without the method-call syntax (`Report::add_primary(&mut r, ..)`): not a known shape
    for m in re.finditer(r"\bReport\s*::\s*add_(primary|secondary)\b", src):
        sites.append(("?", m.group(1), "LMadeUp", "LFileUnwrapped", "Report::add_%s" % m.group(1), ""))
    return sites


def returns_stored_param_pairs(src, fn):
    """`fn <fn>` of this file hands out nothing but `(<d>.get_file_id(), <d>.get_param_location())` pairs whose two
    halves are read from the same record <d> (TemplateData / FunctionData: the file a definition was merged from and
    the range of its parameter list)."""
    m = re.search(r"\bfn\s+%s\s*(?:<[^>]*>)?\s*\(" % re.escape(fn), src)
    if not m:
        return False
    brace = src.find("{", matching(src, m.end() - 1, "(", ")"))
    if brace < 0:
        return False
    body = norm(src[brace:matching(src, brace, "{", "}")])
    good = re.compile(r"\(([a-z_]+)\.get_file_id\(\),([a-z_]+)\.get_param_location\(\)\)")
    pairs = good.findall(body)
    if not pairs or any(a != b for a, b in pairs):
        return False
    return "," not in good.sub("@", body)          # no other tuple is built in the function


def scan_field_fills():
    """For the constructors whose labels use plain fields (file_id / file_location), where
    those fields are filled: each `Struct { ... file_id: E1, file_location: E2 ... }` literal in
    the anchored files, classified the same way (E2 must be a node's range or the parameter
    list range, E1 the same node's optional file id)."""
    fills = []
    listed, extra = site_files()
    first = listed + ["program_structure/src/control_flow_graph/unique_vars.rs",
                      "program_structure/src/control_flow_graph/ssa_impl.rs",
                      "program_structure/src/intermediate_representation/lifting.rs",
                      "parser/src/parser_logic.rs", "parser/src/include_logic.rs"]
    for rel in first + [f for f in extra if f not in first]:
        path = os.path.join(common.REPO, rel)
        if not os.path.exists(path):
            continue
        src = cut_test_modules(strip_rust_comments(open(path).read()))
        for m in re.finditer(r"\b([A-Z][A-Za-z0-9]*(?:::[A-Z][A-Za-z0-9]+)?)\s*\{", src):
            name = m.group(1)
            if not re.search(r"(Warning|Error)", name):
                continue
            end = matching(src, m.end() - 1, "{", "}")
            body = src[m.end():end - 1]
            if "=>" in body or ";" in body or "fn " in body:
                continue           # a match arm / a struct declaration, not a literal
            fields = {}
            for a in split_args(body):
                if ":" in a:
                    k, v = a.split(":", 1)
                    fields[k.strip()] = norm(v)
                elif re.fullmatch(r"[a-z_]+", a.strip()):
                    fields[a.strip()] = a.strip()         # field init shorthand
            if any(re.fullmatch(r"(Option<)?File(ID|Location)>?", v) for v in fields.values()):
                continue           # the declaration of the struct / enum variant
            for fk, lk in (("file_id", "file_location"), ("file_id", "location"), ("primary_file_id", "primary_location"),
                           ("secondary_file_id", "secondary_location")):
                if fk in fields and lk in fields:
                    fills.append((os.path.basename(rel)[:-3], name.split("::")[-1], lk, fill_class(fields[fk], fields[lk]),
                                  fields[fk], fields[lk]))
    return fills


def fill_class(fid, loc):
    """FSameNode: range and optional file id are read from the same node meta / declaration /
    parameter list; FParserToken: a range handed over by the parser (token or @L/@R pair) with
    the id of the file being parsed; FOther: anything else."""
    f = fid.lstrip("*").replace(".clone()", "")
    l = loc.replace(".clone()", "")
    base_f = re.sub(r"\.(file_id\(\)|file_id)$", "", f)
    base_l = re.sub(r"\.(file_location\(\)|location)$", "", l)
    if base_f != f and base_l != l and base_f == base_l:
        return "FSameNode"
    if re.fullmatch(r"[0-9]+\.\.[0-9]+", l):
        return "FLiteral"
    if f in ("file_id", "Some(file_id)", "self.file_id") and re.fullmatch(r"[a-z_.0-9]+\.\.[a-z_.0-9+]+", l):
        return "FParserToken"
    if f == "file_id" and l in ("file_location", "location", "primary_location", "secondary_location"):
        return "FPassThrough"
    if f == "primary_file_id" and l == "primary_location" or f == "secondary_file_id" and l == "secondary_location":
        return "FPassThrough"
    return "FOther"


def table_diff(raw):
    """Which constructors of the regenerated table differ from Model.Labels.modelled_shapes (read from Labels.v):
    -> list of short texts; [] when the shapes agree (then something else broke)."""
    try:
        text = open(os.path.join(common.COQ, "model", "Labels.v")).read()
    except OSError:
        return []
    body = text[text.find("Definition modelled_shapes"):]
    body = body[:body.find("].") + 1]
    model = collections.OrderedDict()
    for m in re.finditer(r'\("([^"]*)",\s*"([^"]*)",\s*\[([^\]]*)\]\)', body):
        model[(m.group(1), m.group(2))] = [(a == "P", b) for a, b in re.findall(r"\((P|Sx),\s*(G[A-Za-z]+)\)", m.group(3))]
    shape = {"LFileGuarded": "GGuarded", "LFileKnown": "GKnown", "LFileStored": "GKnown", "LFileUnwrapped": "GUnwrapped"}
    table = collections.OrderedDict()
    made_up = []
    for short, owner, style, rc, fc, loc, fid in raw:
        table.setdefault((short, owner), []).append((style == "primary", shape.get(fc, fc)))
        if rc == "LMadeUp":
            made_up.append("%s %s: range `%s` is not a node meta / range field" % (short, owner, loc))
    out = list(made_up)
    for k in table:
        if k not in model:
            out.append("new constructor %s %s with %d label site(s)" % (k[0], k[1], len(table[k])))
        elif table[k] != model[k]:
            out.append("%s %s: sources have %s, model has %s" % (k[0], k[1], table[k], model[k]))
    for k in model:
        if k not in table:
            out.append("constructor %s %s of the model has no label site in the sources any more" % k)
    return out[:8]


def coq_str(s):
    return '"' + s.replace('"', '""') + '"'


def gen(ctx):
    lines = ["(* GENERATED by lib/props/C04.py gen(ctx) from the Rust sources of /repo — do not edit.",
             "   One row per `add_primary` / `add_secondary` call of the anchored files:",
             "   (file, owner, style, how the range is obtained, how the file id is obtained). *)",
             "Require Import String List.", "Import ListNotations.", "Local Open Scope string_scope.", "",
             "Inductive range_src := LMetaRange | LRangeField | LStoredParams | LMadeUp.",
             "Inductive file_src := LFileGuarded | LFileKnown | LFileStored | LFileUnwrapped.",
             "Inductive style := Primary | Secondary.",
             "Inductive fill_src := FSameNode | FParserToken | FPassThrough | FLiteral | FOther.", "",
             "Definition label_sites : list (string * string * style * range_src * file_src) := ["]
    rows = []
    raw = []
    listed, extra = site_files()
    ctx.coverage["label_site_files_scanned"] = len(listed) + len(extra)
    ctx.coverage["label_site_files_outside_the_fixed_list_with_sites"] = []
    for rel in listed + extra:
        found = scan_file(rel)
        if found and rel in extra:
            ctx.coverage["label_site_files_outside_the_fixed_list_with_sites"].append(rel)
        for owner, style, rc, fc, loc, fid in found:
            short = "/".join(rel.split("/")[-2:])[:-3]
            rows.append("  (%s, %s, %s, %s, %s)" % (coq_str(short), coq_str(owner), style.capitalize(), rc, fc))
            raw.append((short, owner, style, rc, fc, loc, fid))
    lines.append(";\n".join(rows))
    lines.append("].")
    lines.append("")
    lines.append("Definition label_fills : list (string * string * string * fill_src) := [")
    fills = scan_field_fills()
    lines.append(";\n".join("  (%s, %s, %s, %s)" % (coq_str(a), coq_str(b), coq_str(c), d) for a, b, c, d, _, _ in fills))
    lines.append("].")
    lines.append("")
    text = "\n".join(lines) + "\n"
    common.write_if_changed(os.path.join(common.COQ, "gen", "LabelSites.v"), text)
    ctx.coverage["label_sites_scanned"] = len(rows)
    ctx.coverage["label_fills_scanned"] = len(fills)
    ctx.label_sites_raw = raw
    ctx.label_fills_raw = fills
    return raw, fills


# ----------------------------------------------------------------------------
# independent position arithmetic on the ORIGINAL bytes
# ----------------------------------------------------------------------------

def is_boundary(b, off):
    if off < 0 or off > len(b):
        return False
    return off == len(b) or (b[off] & 0xC0) != 0x80


def line_col(b, off):
    """1-based line (lines end at \\n) and 1-based column counted in
    characters (Unicode scalar values) from the start of the line — the
    convention of codespan's `Files::location`; \\r is an ordinary character."""
    line = b.count(b"\n", 0, off) + 1
    ls = b.rfind(b"\n", 0, off) + 1
    col = sum(1 for x in b[ls:off] if (x & 0xC0) != 0x80) + 1
    return line, col


OPS = ["<==", "==>", "<--", "-->", "===", ">>=", "<<=", "**=", "\\=", "+=", "-=", "*=", "/=", "%=", "&=", "|=", "^=",
       "++", "--", "**", "<<", ">>", "<=", ">=", "==", "!=", "&&", "||"]


# Unicode White_Space beyond ASCII (the generated lexer skips `\\s`): UTF-8 encodings
UNICODE_BLANKS = [s.encode() for s in ["\u0085", "\u00a0", "\u1680", "\u2028", "\u2029", "\u202f", "\u205f", "\u3000"] +
                  [chr(c) for c in range(0x2000, 0x200b)]]
INVALID = {}


def lex(b):
    """Reference tokeniser of the original text: -> (token_starts, token_ends, unclosed_comment_offset|None).
    Comments and blanks are skipped the way the language defines them.  The offsets of characters that
    cannot start a token are remembered in INVALID[b] (first one = where `Invalid token` must point)."""
    starts, ends = set(), set()
    i, n = 0, len(b)
    unclosed = None
    invalid = []
    INVALID[b] = invalid
    while i < n:
        c = b[i:i + 1]
        if c in b" \t\r\n\x0b\x0c":
            i += 1
        elif b[i] >= 0xC2 and any(b.startswith(u, i) for u in UNICODE_BLANKS):
            i += len(next(u for u in UNICODE_BLANKS if b.startswith(u, i)))
        elif b.startswith(b"//", i):
            j = b.find(b"\n", i)
            i = n if j < 0 else j
        elif b.startswith(b"/*", i):
            j = b.find(b"*/", i + 2)
            if j < 0:
                unclosed = i
                i = n
            else:
                i = j + 2
        else:
            s = i
            if c.isalpha() or c in b"_$":
                while i < n and (b[i:i + 1].isalnum() or b[i:i + 1] in b"_$"):
                    i += 1
            elif c.isdigit():
                if b.startswith(b"0x", i):
                    i += 2
                while i < n and b[i:i + 1].isalnum():
                    i += 1
            elif c == b'"':
                j = b.find(b'"', i + 1)
                i = n if j < 0 else j + 1
            else:
                for op in OPS:
                    if b.startswith(op.encode(), i):
                        i += len(op)
                        break
                else:
                    if c not in b"()[]{},;.=<>+-*/\\%&|^~!?:":
                        invalid.append(i)
                    i += 1
                    while i < n and (b[i] & 0xC0) == 0x80:
                        i += 1
            starts.add(s)
            ends.add(i)
    return starts, ends, unclosed


# ----------------------------------------------------------------------------
# the EXTRACTED Model.Labels.location / sarif_region against the real code
# ----------------------------------------------------------------------------

CS_ALPHABET = ["a", "b", " ", "\t", "\r", "\n", "\n", "\r\n", "\u00e9", "\u2208", "\U0001f5fb", "\ufeff", "\u2028", "\u0085",
               "/", "*", "\u00a0", "x"]
CS_FIXED = ["", "\n", "\r\n", "\n\n\n", "a", "a\n", "a\nb", "\r", "\r\r\n", "\u00e9", "\u00e9\n", "\n\u00e9", "\ufeffa\r\n\tb\r\n",
            "\n\n\U0001f5fb\u2208\U0001f30f\n\n", "foo\nbar\r\n\nbaz", "\u2028\n\u2028", "/*\u00e9*/ a\r\n// \u2208\r\nb", "\U0001f5fb"]


def utf8_boundaries(text):
    out, pos = [0], 0
    for ch in text:
        pos += len(ch.encode())
        out.append(pos)
    return out


def codespan_cases(ctx, quick, samples):
    """-> list of (kind, line, text) where line is the wire format shared by both drivers."""
    rng = ctx.rng
    texts = list(CS_FIXED)
    # exhaustive small: every text of at most 5 scalars over {a, LF, CR, e-acute}
    import itertools
    small = ["a", "\n", "\r", "\u00e9"]
    for n in range(1, 6 if quick else 7):
        for t in itertools.product(small, repeat=n):
            texts.append("".join(t))
    n_exh = len(texts)
    for _ in range(500 if quick else 4000):
        k = rng.choice([1, 2, 3, 5, 8, 13, 21, 34, 45])
        texts.append("".join(rng.choice(CS_ALPHABET) for _ in range(rng.randrange(k + 1))))
    # windows of generated project files (what the tool is really asked about)
    for src in samples:
        t = src.decode("utf-8", "replace") if isinstance(src, bytes) else src
        for _ in range(3):
            if len(t) > 2:
                a = rng.randrange(len(t))
                texts.append(t[a:a + rng.randrange(1, 70)])
    cases = []
    for t in texts:
        scal = " ".join(str(ord(c)) for c in t)
        nbytes = len(t.encode())
        cases.append(("loc", ("loc %d %s" % (nbytes + 2, scal)).strip(), t))
        bs = utf8_boundaries(t)
        pairs = {(0, nbytes), (nbytes, nbytes), (0, 0)}
        for _ in range(3):
            a, b = sorted((rng.choice(bs), rng.choice(bs)))
            pairs.add((a, b))
        for a, b in sorted(pairs):
            cases.append(("region", ("region %d %d %s" % (a, b, scal)).strip(), t))
    return cases, n_exh


def codespan_correspondence(ctx, harness, quick, samples, stats):
    """Runs the extracted mirror of codespan's `location` and of the SARIF region on the same texts as the real
    FileLibrary / sarif_conversion.rs / terminal renderer.  -> (disagreements model vs impl, failures impl vs the
    usual notion computed from the bytes)"""
    model = common.build_model("locations")
    cases, n_exh = codespan_cases(ctx, quick, samples)
    lines = [c[1] for c in cases]
    got_model = common.run_lines(model, [], lines, shards=common.NPROC)
    got_impl = common.run_lines(harness, ["codespan"], lines, shards=common.NPROC)
    disagreements, failures = [], []
    if len(got_model) != len(lines) or len(got_impl) != len(lines):
        disagreements.append({"case": "-", "model": "%d lines" % len(got_model), "impl": "%d lines" % len(got_impl),
                              "why": "a driver did not answer every case (%d)" % len(lines)})
        return disagreements, failures
    for (kind, line, text), m, i in zip(cases, got_model, got_impl):
        stats["codespan_cases"] += 1
        if m != i:
            disagreements.append({"case": line, "model": m.split(" = ")[-1], "impl": i.split(" = ")[-1],
                                  "text": text, "why": "extracted Model.Labels.%s differs from the real code" %
                                  ("location" if kind == "loc" else "sarif_region / location of the label start")})
        b = text.encode()
        ans = i.split(" = ")[-1]
        if kind == "loc":
            vals = ans.split()
            stats["codespan_offsets_compared"] += len(vals)
            for off in utf8_boundaries(text):
                want = "%d:%d" % line_col(b, off)
                stats["codespan_offsets_vs_usual_notion"] += 1
                if off >= len(vals) or vals[off] != want:
                    failures.append({"case": line, "text": text, "offset": off, "impl": vals[off] if off < len(vals) else None,
                                     "spec": want, "why": "codespan's location of byte offset %d is not line:column of the original text" % off})
                    break
        else:
            _, a, e = line.split()[:3]
            a, e = int(a), int(e)
            want = "%d %d %d %d | %d %d" % (line_col(b, a) + line_col(b, e) + line_col(b, a))
            stats["codespan_regions_compared"] += 1
            if ans != want:
                failures.append({"case": line, "text": text, "range": [a, e], "impl": ans, "spec": want,
                                 "why": "SARIF region / terminal header of a label %d..%d are not the line:column of its ends" % (a, e)})
    stats["codespan_texts"] = len(cases) and len({c[2] for c in cases})
    stats["codespan_exhaustive_small_texts"] = n_exh
    return disagreements, failures


# ----------------------------------------------------------------------------
# per-code predicates: is the text under the primary label the construct the message is about?
# ----------------------------------------------------------------------------

def tick(s):
    m = re.search(r"`([^`]*)`", s or "")
    return m.group(1) if m else None


def base_name(n):
    return re.split(r"[\[.]", n)[0] if n else n


def spans_where(spans, kinds, name=None, **attrs):
    out = []
    for s in spans:
        if s["kind"] in kinds and (name is None or name in s["names"]):
            if all(s.get(k) == v for k, v in attrs.items()):
                out.append(s)
    return out


def inside(inner, outer):
    return inner["start"] is not None and outer["start"] is not None and \
        outer["start"] <= inner["start"] and inner["end"] <= outer["end"]


CMP = {"<", ">", "<=", ">="}
NOT_ARITH = CMP | {"==", "!=", "&&", "||", "var", "num", "call", "?:", "tuple", "anon", "pre!", "pre~"}
# field_arithmetic.rs `may_overflow`: the arithmetic operators except `\`, `%`, `&`, `|`, `^`
OVERFLOW_OPS = {"+", "-", "*", "/", "**", "<<", ">>"}
COMPOUND_OVERFLOW = {"++", "--", "+=", "-=", "*=", "/=", "**=", "<<=", ">>="}
CURVE_BITS = {"BN254": 254, "BLS12_381": 255, "GOLDILOCKS": 64}
# codes whose location no other property compares: the construct clause is INSTANCE-level for them (the node the
# generator recorded as the offending one, not any node of the kind)
INSTANCE_CODES = {"CS0003", "CS0004", "CS0010", "CS0014", "CS0015", "CS0016", "CS0018"}


# codes built by the constructors that are NOT `guarded_constructor` in Model.Labels (parser errors, sugar errors, merger)
UNGUARDED_CODES = {"P1000", "TAC01", "TAC02", "T2008"}


def strictly_inside(inner, outer):
    return inner is not outer and inside(inner, outer) and (inner["start"], inner["end"]) != (outer["start"], outer["end"])


def outermost(cands, blockers):
    """the candidates that do not lie inside one of `blockers` (the passes do not descend into a node they report)"""
    return [c for c in cands if not any(strictly_inside(c, b) for b in blockers)]


def def_of(s, spans):
    ds = [d for d in spans if d["kind"] == "def" and inside(s, d)]
    return min(ds, key=lambda d: d["end"] - d["start"]) if ds else None


def instance_candidates(code, msg, name, spans, curve):
    """The nodes the generator recorded as the ones a finding of `code` is about.  -> (description, spans)"""
    exprs = spans_where(spans, ("expr",))
    if code == "CS0003":
        cmps = [s for s in exprs if s.get("op") in CMP]
        return "comparison that is not an operand of another comparison", outermost(cmps, cmps)
    if code == "CS0004" and "complement" not in msg:
        ov = [s for s in exprs if s.get("op") in OVERFLOW_OPS]
        comp = [s for s in spans_where(spans, ("vassign",)) if s.get("vop", "?") in COMPOUND_OVERFLOW | {"?"}]
        return ("arithmetic expression (+ - * / ** << >>) that is not an operand of another one / compound assignment",
                outermost(ov, ov + comp) + comp)
    if code == "CS0010":
        bits = CURVE_BITS.get(curve, 254)
        return ("instantiation of `%s` whose size is not a constant below %d" % (name, bits),
                [s for s in spans_where(spans, ("expr",), callee=name)
                 if "bits" not in s or s["bits"] is None or s["bits"] >= bits])
    if code == "CS0014":
        bits = CURVE_BITS.get(curve, 254)
        out = []
        for s in exprs:
            if s.get("role") in ("lt_input", "n2b_input") and s.get("value") == name:
                d = def_of(s, spans)
                inside_d = [t for t in exprs if d is None or inside(t, d)]
                fed = [t for t in inside_d if t.get("role") == "lt_input" and t.get("value") == name]
                clean = any(t.get("role") == "n2b_input" and t.get("value") == name and t.get("bits") is not None
                            and t["bits"] < bits - 1 for t in inside_d)
                if fed and not clean:
                    out.append(s)
        if not any(s.get("role") for s in exprs):
            return "occurrence of `%s`" % name, spans_where(spans, ("expr",), name)        # spans recorded without roles
        return "input `%s` of a LessThan (or of a Num2Bits) in a definition that does not bound it" % name, out
    if code == "CS0015":
        marked = [s for s in exprs if "top_divisor" in s]
        if not marked:
            return "divisor of a `/`", [s for s in exprs if s.get("divisor")]
        return "non-constant divisor of the top-level `/` of a `<--`", [s for s in marked if s["top_divisor"] is True]
    if code == "CS0016":
        return "instantiation of `%s`" % name, spans_where(spans, ("expr",), callee=name)
    if code == "CS0018":
        return ("instantiation of `%s` with an output that is not read" % name,
                [s for s in spans_where(spans, ("expr",), callee=name) if s.get("out_read") is not True])
    return None


def allowed_ranges(report, label, spans, src, primary=True, info=None):
    """-> (description of the construct the message is about, list of allowed (start, end)) or None when
    there is no predicate for this code/message.  `info`: {"curve", "rel", "all": {rel: spans}, "order": [rel in
    file-id order]} for the clauses that need more than the spans of the label's file."""
    info = info or {}
    code = report["id"]
    msg = report["message"]
    lmsg = label["msg"] or ""
    semi = {}

    def rng(ss):
        """ranges of the spans; `===`, return, assert, log and anonymous-component statements include their `;`"""
        out = []
        for s in ss:
            if s["start"] is None:
                continue
            out.append((s["start"], s["end"]))
            if s["kind"] in ("ceq", "return", "assert", "log"):
                if not semi:
                    st, en, _ = lex(src)
                    semi["st"] = sorted(st)
                import bisect
                i = bisect.bisect_left(semi["st"], s["end"])
                if i < len(semi["st"]) and src[semi["st"][i]:semi["st"][i] + 1] == b";":
                    out[-1] = (s["start"], semi["st"][i] + 1)
        return out
    assigning = ("decl", "vassign", "assign", "cassign")
    if code == "CA01" or (code == "CS0006" and msg.startswith("The signal")) or code == "CS0017":
        name = base_name(tick(msg) if code != "CS0017" else tick(lmsg))
        if primary:
            return "declaration of signal `%s`" % name, rng(spans_where(spans, ("decl",), name, sig=True))
        return "a constraint statement", rng(spans_where(spans, ("cassign", "ceq", "decl", "massign")))
    if code == "CS0001":
        name = tick(msg)
        if primary:
            return "declaration of `%s`" % name, rng([s for s in spans_where(spans, ("decl",), name) if not s.get("sig")])
        return "declaration or parameter list declaring `%s`" % name, rng(spans_where(spans, ("decl", "params"), name))
    if code in ("CS0002", "CS0007") or (code == "CS0008" and msg.startswith("The parameter")):
        name = tick(msg)
        return "parameter list containing `%s`" % name, rng(spans_where(spans, ("params",), name))
    if code == "CS0012":
        name = tick(msg)
        defs = spans_where(spans, ("def",), name)
        return "parameter list of `%s`" % name, rng([p for p in spans_where(spans, ("params",)) if any(inside(p, d) for d in defs)])
    if code == "CS0004" and "complement" in msg:
        return "`~` expression", rng(spans_where(spans, ("expr",), op="pre~"))
    if code in INSTANCE_CODES and primary:
        name = base_name(tick(lmsg)) if code == "CS0014" else tick(lmsg)
        what, cands = instance_candidates(code, msg, name, spans, info.get("curve") or "BN254")
        return what, rng(cands)
    if code in ("CS0005", "CS0013"):
        name = base_name(tick(lmsg))
        if primary:
            ok = spans_where(spans, ("assign",), name, target=name)
            for m in spans_where(spans, ("massign",), name, arrow=True):
                ok += [e for e in spans_where(spans, ("expr",), name, op="var") if inside(e, m)]
            return "`<--` assignment to `%s` (or its target inside a tuple)" % name, rng(ok)
        return "constraint statement mentioning `%s`" % name, rng(spans_where(spans, ("ceq", "cassign", "massign", "decl"), name) +
                                                                 [e for e in spans_where(spans, ("expr",), name, op="var")])
    if code == "CS0006" or code == "CS0008":
        name = base_name(tick(msg))
        ok = [s for s in spans_where(spans, assigning, name) if s["kind"] == "decl" or s.get("target") == name]
        for m in spans_where(spans, ("massign",), name):
            ok += [e for e in spans_where(spans, ("expr",), name, op="var") if inside(e, m)]
        return "statement assigning `%s`" % name, rng(ok)
    if code == "CS0009":
        return "condition of an if", rng(spans_where(spans, ("cond",)))
    if code == "CS0018" and not primary:
        # no such label on the unchanged tree; a label about the signal must be its declaration IN THE FILE THE LABEL NAMES
        # (the spans handed in are those of that file): seeded/C04-cross-file-secondary-label
        name = base_name(tick(lmsg))
        return "declaration of the output signal `%s` in the file the label names" % name, rng(spans_where(spans, ("decl",), name, sig=True))
    if code == "CS0014":
        # secondary: "`a` is constrained to `8` bits here." = the value handed to a Num2Bits
        name = base_name(tick(lmsg))
        roled = [s for s in spans_where(spans, ("expr",), name) if s.get("role")]
        if roled:
            return "input `%s` of a Num2Bits" % name, rng([s for s in roled if s["role"] == "n2b_input" and s.get("value") == name])
        return "occurrence of `%s`" % name, rng(spans_where(spans, ("expr",), name))
    if code == "T2003":
        name = tick(msg)
        return "occurrence of `%s`" % name, rng(spans_where(spans, ("expr",), name, op="var") + spans_where(spans, assigning, name))
    if code == "T2008":
        # two primary labels: the LATER definition of the name (its whole range) and the parameter list of the FIRST
        # definition of the name, first = lowest file id, then source order (files are merged in the order parsed)
        name = tick(lmsg)
        order = info.get("order")
        allsp = info.get("all") or {}
        rel = info.get("rel")
        if order and rel in allsp and all(f in allsp for f in order):
            defs = []
            for f in order:
                defs += [(f, d) for d in sorted(spans_where(allsp[f], ("def",), name), key=lambda d: d["start"])]
            if "first defined" in lmsg:
                if not defs or defs[0][0] != rel:
                    return "parameter list of the first definition of `%s` (which is in another file)" % name, []
                return "parameter list of the first definition of `%s`" % name, rng(
                    [q for q in spans_where(spans, ("params",)) if inside(q, defs[0][1])])
            return "a definition of `%s` after the first one" % name, rng([d for f, d in defs[1:] if f == rel])
        if "first defined" in lmsg:
            return "parameter list of a definition of `%s`" % name, rng(
                [q for q in spans_where(spans, ("params",)) if any(inside(q, d) for d in spans_where(spans, ("def",), name))])
        return "definition of `%s`" % name, rng(spans_where(spans, ("def",), name))
    if code in ("TAC01", "TAC02"):
        sugar = [s for s in spans_where(spans, ("expr",)) if s.get("op") in ("tuple", "anon")]
        return "tuple / anonymous component (or the expression / statement holding it)", rng(
            sugar + [s for s in spans_where(spans, ("expr",)) if any(strictly_inside(a, s) for a in sugar)] +
            spans_where(spans, ("decl", "massign", "cassign", "assign", "vassign", "return", "assert", "log", "ceq", "cond", "ifstmt")))
    if code == "P1000":
        if msg.startswith("Failed to open file"):
            name = tick(msg)
            ok = []
            for s in spans_where(spans, ("include",), name):
                # the statement includes its terminating `;`
                k = s["end"]
                st, en, _ = lex(src)
                nxt = sorted(x for x in st if x >= k)
                if nxt and src[nxt[0]:nxt[0] + 1] == b";":
                    ok.append((s["start"], nxt[0] + 1))
            return "include statement of `%s`" % name, ok
        if msg.startswith("Unterminated comment"):
            _, _, unc = lex(src)
            return "opener of the unclosed comment", ([(unc, unc + 2)] if unc is not None else [])
        if msg.startswith("Unrecognized EOF"):
            st, en, _ = lex(src)
            last = max(en) if en else 0
            return "end of the last token of the file (where the input ends)", [(last, last)]
        if msg.startswith("Invalid token"):
            lex(src)
            inv = INVALID.get(src) or []
            return "first character of the file that cannot start a token", [(inv[0], inv[0])] if inv else []
        if msg.startswith("Unrecognized token") or msg.startswith("Extra token"):
            t = tick(msg)
            st, en, _ = lex(src)
            return "a token `%s`" % t, [(a, a + len(t.encode())) for a in st if src[a:a + len(t.encode())] == t.encode()
                                        and a + len(t.encode()) in en]
    return None


# ----------------------------------------------------------------------------
# provenance clause: the metas of the IR are metas of the (desugared) AST, SSA invents none
# ----------------------------------------------------------------------------

# IR node kind -> the kinds of AST node one of which must carry exactly the same (start, end, file id)
IR_FROM_AST = {
    "e:Access": {"e:Variable"}, "e:Variable": {"e:Variable"}, "e:Call": {"e:Call"}, "e:InfixOp": {"e:InfixOp"},
    "e:PrefixOp": {"e:PrefixOp"}, "e:Number": {"e:Number"}, "e:SwitchOp": {"e:InlineSwitchOp"},
    "e:InlineArray": {"e:ArrayInLine"},
    "e:Update": {"s:Substitution"},                     # `a[i] = e` lifts to `a = update(a, i, e)` with the statement's meta
    "s:Assert": {"s:Assert"}, "s:ConstraintEquality": {"s:ConstraintEquality"}, "s:Declaration": {"s:Declaration"},
    "s:IfThenElse": {"s:IfThenElse", "s:While"},        # a loop header is an IfThenElse with the meta of the `while`
    "s:LogCall": {"s:LogCall"}, "s:Return": {"s:Return"}, "s:Substitution": {"s:Substitution"},
}
DEFAULT_NODES = {(0, 0, None, "s:Substitution"), (0, 0, None, "e:Phi")}      # Meta::default() of an inserted phi


# Hypothesis 6 of C04_labels_wellformed_through_desugaring_and_ssa / hypothesis of
# C04_labels_wellformed_through_desugaring_lifting_and_ssa: `nodes_of ctor` is a subset of `cfg_stmt_metas c'` - the
# report constructor is handed STATEMENT metas of the SSA form (the IR mirror has no expression metas).  Which
# (report code, label role) are claimed to be statement-anchored, from reading the passes:
#   CS0005 / CS0013   signal_assignments.rs: the `<--` statement; secondaries = constraint statements
#   CA01              under_constrained_signals.rs: the Declaration statement; secondary = a constraint statement
#   CS0006 (signal), CS0017   unused / unconstrained signal: the Declaration statement (Declarations record = its meta);
#                     the secondary of CS0017 is a statement as well
#   CS0006 / CS0008 (variable)   side-effect analysis: the declaration / assignment statement of the variable
# NOT claimed: CS0001 (shadowing) is built by unique_vars.rs BEFORE lifting from two Declaration metas of the syntax
# tree; its primary is a statement of the cfg before SSA, but the report also exists when SSA conversion fails (no c'):
# measured 748 of 774 primaries at an SSA statement.  CS0003/4/9/10/14/15/16/18 are expression-anchored,
# CS0002/7/12 and CS0008 (parameter) parameter-list-anchored, T2008 definition-anchored.
# The hypothesis is EVALUATED for every label of every in-process report of a project whose definitions all reached
# SSA: a label of a claimed (code, role) that is not the (start, end, file id) of a statement of some SSA cfg of the
# project is a broken hypothesis.  For all other codes the same membership is counted (the end-to-end theorems do not
# apply to them: expression-, parameter-list- or definition-anchored constructors).
STMT_ANCHORED = {("CS0005", "primary"), ("CS0005", "secondary"), ("CS0013", "primary"), ("CA01", "primary"),
                 ("CA01", "secondary"), ("CS0017", "primary"), ("CS0017", "secondary"), ("CS0006/signal", "primary"),
                 ("CS0006/variable", "primary"), ("CS0008/variable", "primary")}


def anchor_class(report):
    code = report["id"]
    if code == "CS0006":
        return "CS0006/signal" if report["message"].startswith("The signal") else "CS0006/variable"
    if code == "CS0008":
        return "CS0008/parameter" if report["message"].startswith("The parameter") else "CS0008/variable"
    return code


def _strip_comments(text):
    out, i, n = [], 0, len(text)
    while i < n:
        if text.startswith("//", i):
            j = text.find("\n", i)
            i = n if j < 0 else j
        elif text.startswith("/*", i):
            j = text.find("*/", i + 2)
            i = n if j < 0 else j + 2
            out.append(" ")
        else:
            out.append(text[i])
            i += 1
    return "".join(out)


def _defined_twice(p):
    """A template or function name defined more than once in the files of the project (in the same file or across an
    include): which copy the merged program keeps depends on a hash order, so reports and SSA dumps taken from two
    runs of the harness may speak about different copies. (A T2008 report exists only for some of these cases.)"""
    names = collections.Counter()
    files = getattr(p, "files", None) or (p.get("files") if isinstance(p, dict) else None) or {}
    for name, text in files.items():
        if isinstance(text, bytes):
            text = text.decode("utf-8", "replace")
        for m in re.finditer(r"\b(?:template|function)\b(?:\s+(?:custom|parallel))*\s+([A-Za-z_$][A-Za-z0-9_$]*)", _strip_comments(text)):
            names[m.group(1)] += 1
    return any(c > 1 for c in names.values())


def judge_statement_anchors(p, out, prov, stats):
    """-> failures (clause `statement-anchor`)"""
    fails = []
    defs = prov.get("defs") or []
    if not defs:
        return fails
    if any(r["id"] == "T2008" for r in out.get("reports") or []) or _defined_twice(p):
        # a definition declared twice: until /repo f1ec9dc the surviving copy depended on a hash order and such projects
        # were skipped; files are now merged in parse order and the first definition is kept, so they are evaluated
        # like the others (third audit: 3 seeds, no miss) and only counted
        stats["anchor_projects_with_duplicate_definition_evaluated"] += 1
    stats["anchor_projects_evaluated"] += 1
    stmts = set()
    for d in defs:
        for s, e, f, k in (d.get("ssa") or []):
            if k.startswith("s:"):
                stmts.add((s, e, f))
    for r in out.get("reports") or []:
        cls = anchor_class(r)
        for role, labels in (("primary", r["primary"]), ("secondary", r["secondary"])):
            for l in labels:
                key = "%s %s" % (cls, role)
                stats["anchor_eval:" + key] += 1
                inside = (l["start"], l["end"], l["file"]) in stmts
                if inside:
                    stats["anchor_stmt:" + key] += 1
                elif (cls, role) in STMT_ANCHORED:
                    fails.append({"clause": "statement-anchor", "code": r["id"], "style": role,
                                  "label": {k: l[k] for k in ("file", "start", "end", "msg")},
                                  "why": "hypothesis `nodes_of ctor` subset of `cfg_stmt_metas c'` of the end-to-end label theorems: the %s "
                                         "label %d..%d (file %s) of a %s report is not the location of a statement of an SSA cfg of "
                                         "the project" % (role, l["start"], l["end"], l["file"], cls)})
    return fails


def judge_provenance(p, out, stats):
    """Hypotheses of C04_labels_wellformed_through_desugaring_and_ssa observed on the real code, node by node:
    (lifting) every node of the CFG built by into_cfg carries the (start, end, file id) of a node of the
    definition body of the corresponding kind; (SSA, proved for the mirror) every node of the SSA form is a node of
    that CFG with the same kind, or an inserted phi with Meta::default(); no node of the CFG loses its location."""
    fails = []
    for d in out.get("defs") or []:
        stats["prov_definitions"] += 1
        ast = collections.defaultdict(set)
        for s, e, f, k in d["ast"]:
            ast[(s, e, f)].add(k)
        if d["pre"] is None:
            stats["prov_definitions_not_lifted"] += 1
            continue
        pre = set()
        for s, e, f, k in d["pre"]:
            pre.add((s, e, f, k))
            stats["prov_ir_nodes"] += 1
            have = ast.get((s, e, f))
            if not have or not (IR_FROM_AST.get(k, set()) & have):
                fails.append({"clause": "provenance", "definition": d["name"], "ir_node": [s, e, f, k],
                              "ast_nodes_with_that_range": sorted(have or []),
                              "why": "the %s node of the CFG of `%s` has location %d..%d (file %s), which is not the location of "
                                     "a %s of the definition body" % (k[2:], d["name"], s, e, f, " / ".join(sorted(x[2:] for x in IR_FROM_AST.get(k, {"?"}))))})
                break
        if d["ssa"] is None:
            stats["prov_definitions_without_ssa"] += 1
            continue
        ssa = set()
        for s, e, f, k in d["ssa"]:
            ssa.add((s, e, f, k))
            stats["prov_ssa_nodes"] += 1
            if (s, e, f, k) in DEFAULT_NODES:
                stats["prov_default_meta_nodes"] += 1
            elif (s, e, f, k) not in pre:
                fails.append({"clause": "provenance", "definition": d["name"], "ssa_node": [s, e, f, k],
                              "why": "SSA gave a %s node of `%s` the location %d..%d (file %s), which no %s node of the CFG "
                                     "before SSA has and which is not Meta::default()" % (k[2:], d["name"], s, e, f, k[2:])})
                break
        lost = pre - ssa
        if lost:
            s, e, f, k = sorted(lost, key=str)[0]
            fails.append({"clause": "provenance", "definition": d["name"], "lost_node": [s, e, f, k],
                          "why": "the %s node %d..%d of `%s` has no counterpart with that location after SSA" % (k[2:], s, e, d["name"])})
    return fails


# ----------------------------------------------------------------------------
# running one batch of projects
# ----------------------------------------------------------------------------

def write_project(root, p):
    d = os.path.join(root, "p%d" % p["idx"])
    os.makedirs(d, exist_ok=True)
    for rel, text in p["files"].items():
        os.makedirs(os.path.dirname(os.path.join(d, rel)), exist_ok=True)
        with open(os.path.join(d, rel), "wb") as f:
            f.write(text if isinstance(text, bytes) else text.encode())
    p["dir"] = d
    return d


def brief_spans(p):
    out = {}
    for rel, sps in p["spans"].items():
        lst = []
        for s in sps:
            b = s.brief() if hasattr(s, "brief") else dict(s)
            b.pop("right", None)
            if b.get("kind") == "vassign" and hasattr(s, "items"):
                ops = [x for x in s.items if isinstance(x, str) and (x.endswith("=") or x in ("++", "--"))]
                b["vop"] = ops[0] if ops else "?"
            lst.append(b)
        out[rel] = lst
    return out


def mark_divisors(p):
    """attrs: the right operand of every `/` span is a divisor"""
    for rel, sps in p["spans"].items():
        for s in sps:
            if hasattr(s, "attrs") and s.attrs.get("op") == "/":
                r = s.items[-1]
                while isinstance(r, list):
                    r = [x for x in r if not isinstance(x, str)][0]
                r.attrs["divisor"] = True


def locus_labels(report):
    """The `┌─ file:line:col` headers codespan prints: per file (order of first appearance,
    primary labels first) the earliest label of the strongest style."""
    files, best = [], {}
    for style, labels in ((0, report["primary"]), (1, report["secondary"])):
        for l in labels:
            f = l["file"]
            if f not in best:
                files.append(f)
                best[f] = (style, l["start"], l)
            elif (style, l["start"]) < best[f][:2]:
                best[f] = (style, l["start"], l)
    return [best[f][2] for f in files]


SEVERITY = {"error": "error", "warning": "warning", "info": "note"}
SARIF_LEVEL = {"error": "error", "warning": "warning", "info": "note"}


def judge_project(p, out, stats, nontrivial):
    """All in-process clauses.  Returns (failures, expected_stdout, expected_sarif) — the last two are
    what the CLI must display for the reports, recomputed from the ORIGINAL bytes."""
    fails = []
    disk = {}
    for rel, text in p["files"].items():
        disk[os.path.join(p["dir"], rel)] = text if isinstance(text, bytes) else text.encode()
    lib = {}
    for f in out["files"]:
        src = bytes.fromhex(f["src"])
        lib[f["id"]] = (f["path"], src, f["user"])
        if f["path"] not in disk:
            fails.append({"clause": "file-read", "why": "file library holds `%s`, which is not a file of the project" % f["path"]})
        elif disk[f["path"]] != src:
            fails.append({"clause": "original-contents", "why": "file library copy of `%s` differs from the bytes on disk" % f["path"]})
    spans = p.get("brief") or {}
    if p.get("inject") in ("invalid_token", "unrecognized_token", "truncated") and \
            not any(r["id"] == "P1000" for r in out["reports"]):
        # the injected token happened to give another valid program: the recorded constructs no longer describe it
        spans = {}
        p["brief_unreliable"] = True
        stats["injections_that_still_parse"] += 1
        if p.get("inject") == "invalid_token":
            fails.append({"clause": "construct", "code": "P1000", "why": "a scalar that can start no token of the language (`@`, `#` or a back quote) was "
                          "put between two tokens outside comments and strings, and no `Invalid token` finding is reported: "
                          "the text after it was skipped or accepted silently"})
    lexed = {}
    exp_stdout, exp_sarif = [], []
    # files in file-id order (= the order in which they were parsed and are merged)
    order = [os.path.relpath(lib[i][0], p["dir"]) for i in sorted(lib)]
    info_base = {"curve": p.get("curve", "BN254"), "all": spans, "order": order}
    instance_seen = collections.defaultdict(list)       # (rel, code, message, label message) -> [(s, e)]
    user_defs = None
    for r in out["reports"]:
        stats["reports"] += 1
        stats["code:" + r["id"]] += 1
        if not r["primary"] and not r["secondary"]:
            stats["labelless:" + r["id"]] += 1
        bad_report = False
        for primary, labels in ((True, r["primary"]), (False, r["secondary"])):
            for l in labels:
                stats["labels"] += 1
                where = {"code": r["id"], "message": r["message"][:200], "label": {k: l[k] for k in ("file", "start", "end", "msg")},
                         "style": "primary" if primary else "secondary"}
                if not l["known"] or l["file"] not in lib:
                    fails.append(dict(where, clause="file-read", why="label names file id %s which is not in the file library" % l["file"]))
                    bad_report = True
                    continue
                path, src, user = lib[l["file"]]
                where["path"] = path
                s, e = l["start"], l["end"]
                if not (0 <= s <= e <= len(src)):
                    fails.append(dict(where, clause="range", why="need 0 <= start <= end <= %d, got %d..%d" % (len(src), s, e)))
                    bad_report = True
                    continue
                if not (is_boundary(src, s) and is_boundary(src, e)):
                    fails.append(dict(where, clause="char-boundary", why="%d..%d is not on UTF-8 character boundaries" % (s, e)))
                    bad_report = True
                    continue
                text = src[s:e].decode()
                where["text"] = text[:300]
                # codespan's own answer (what sarif_conversion.rs writes) vs the recomputation
                want = line_col(src, s) + line_col(src, e)
                got = (l["sl"], l["sc"], l["el"], l["ec"])
                if got != want:
                    fails.append(dict(where, clause="line-column", why="codespan location %s, recomputed from the original bytes %s" % (got, want)))
                # token boundaries of the original text
                if path not in lexed:
                    lexed[path] = lex(src)
                st, en, unc = lexed[path]
                tok_ok = (s in st and e in en) or (s == e and (s in st or s == len(src) or (en and s == max(en)))) \
                    or (unc is not None and (s, e) == (unc, unc + 2))
                # the construct
                rel = os.path.relpath(path, p["dir"])
                in_support = rel in spans and any(d.get("support") and d["start"] <= s and e <= d["end"]
                                                  for d in spans[rel] if d["kind"] == "def")
                pred = None
                if rel in spans and not in_support:
                    pred = allowed_ranges(r, l, spans[rel], src, primary, dict(info_base, rel=rel))
                if not tok_ok and empty_parens(src, s, e, st, en) and (
                        in_support or (rel not in spans and r["id"] == "T2008") or (pred is not None and (s, e) in pred[1])):
                    # the recorded construct is the token-free stretch between `(` and `)`: an empty parameter list
                    tok_ok = True
                    stats["labels_on_an_empty_parameter_list"] += 1
                if not tok_ok:
                    fails.append(dict(where, clause="token-boundary",
                                      why="the label does not start at the start and end at the end of a token of the original text"))
                    bad_report = True
                if in_support:
                    stats["labels_in_support_templates"] += 1     # fixed-text helper templates: no recorded constructs
                elif rel in spans:
                    if primary and r["id"] in INSTANCE_CODES:
                        instance_seen[(rel, r["id"], r["message"], l["msg"])].append((s, e))
                    if pred is None:
                        stats["no_predicate:" + r["id"]] += 1
                    else:
                        what, ok = pred
                        stats["judged_labels"] += 1
                        if (s, e) not in ok:
                            near = sorted(ok, key=lambda x: abs(x[0] - s))[:3]
                            fails.append(dict(where, clause="construct",
                                              why="text under the %s label is not the %s; candidates %s = %s" % (
                                                  "primary" if primary else "secondary", what, near,
                                                  [src[a:b].decode(errors="replace")[:80] for a, b in near])))
                        elif primary:
                            ls = src.rfind(b"\n", 0, s) + 1
                            nontrivial.add((r["id"], p["style"], not src[:s].isascii(), b"*/" in src[ls:s],
                                            b"\n" in src[s:e], b"\r\n" in src[:s]))
                else:
                    stats["labels_in_raw_files"] += 1
        if not bad_report:
            fails += judge_names(p, r, lib, stats)
        # clause one-file (no theorem behind it since the fourth audit): the labels of one report of a guarded constructor
        # (every code but the parser's and the merger's) all name one file
        if r["id"] not in UNGUARDED_CODES and (r["primary"] or r["secondary"]):
            stats["one_file_hypothesis_evaluated"] += 1
            if len({l["file"] for l in r["primary"] + r["secondary"]}) > 1:
                stats["one_file_hypothesis_unmet"] += 1
                fails.append({"clause": "one-file-hypothesis", "code": r["id"], "message": r["message"][:200],
                              "labels": [(l["file"], l["start"], l["end"]) for l in r["primary"] + r["secondary"]],
                              "why": "the labels of one %s report name several files (every pass anchors its labels in one definition)" % r["id"]})
        # the rendered diagnostic
        if r["render"] is None:
            fails.append({"clause": "render", "code": r["id"], "message": r["message"][:200],
                          "why": "codespan failed to render the report: %s" % r["render_error"],
                          "labels": [(l["file"], l["start"], l["end"]) for l in r["primary"] + r["secondary"]]})
            continue
        if bad_report:
            continue
        loci = []
        for l in locus_labels(r):
            path, src, _ = lib[l["file"]]
            ln, col = line_col(src, l["start"])
            loci.append("%s:%d:%d" % (path, ln, col))
        shown = [m.group(1) + ":" + m.group(2) + ":" + m.group(3) for m in
                 (e2e.LOC.match(x) for x in r["render"].split("\n")) if m]
        if shown != loci:
            fails.append({"clause": "rendered-header", "code": r["id"], "message": r["message"][:200],
                          "why": "codespan printed %s, recomputed from the original bytes %s" % (shown, loci)})
        users = [lib[f][2] for f in r["pfiles"] if f in lib]
        analysed = True
        m = re.match(r"analyzing (?:template|function) '(.*)'$", r.get("stage") or "")
        if m and not r["pfiles"]:
            # a label-less finding of an analysis pass (CS0011): the CLI analyses the definitions of the files named on
            # the command line only, the harness all of them
            if user_defs is None:
                user_defs = set()
                for _, src, user in lib.values():
                    if user:
                        user_defs |= set(re.findall(r"\b(?:template|function)\b(?:\s+(?:custom|parallel))*\s+([A-Za-z_$][A-Za-z0-9_$]*)",
                                                    _strip_comments(src.decode(errors="replace"))))
            analysed = m.group(1) in user_defs
            stats["labelless_pass_findings_of_included_only_definitions" if not analysed else "labelless_pass_findings_displayed"] += 1
        if analysed and (not r["pfiles"] or any(users)):
            exp_stdout.append((SEVERITY[r["level"]], r["id"], r["message"].split("\n")[0], tuple(loci),
                               r.get("expect_verbose"), r.get("expect_plain")))

            def region(l):
                path, src, _ = lib[l["file"]]
                return ("file://" + path.replace('"', ""),) + line_col(src, l["start"]) + line_col(src, l["end"]) + (l["msg"],)
            exp_sarif.append((SARIF_LEVEL[r["level"]], r["id"], r["message"], tuple(region(l) for l in r["primary"]),
                              tuple(region(l) for l in r["secondary"])))
    fails += judge_instances(p, instance_seen, spans, lib, info_base, stats)
    return fails, exp_stdout, exp_sarif


IDENT = re.compile(rb"[A-Za-z_$][A-Za-z0-9_$]*")
NAME_LIKE = re.compile(r"^[A-Za-z_$][A-Za-z0-9_$]*(\[.*\])*(\.[A-Za-z_$][A-Za-z0-9_$]*(\[.*\])*)*$")
# names a message may quote that are not names of the program: the prime `p`, the circomlib template the pass is about
LITERAL_NAMES = {"CS0004": {"p"}, "CS0014": {"LessThan"}, "CS0003": {"p"}}


def enclosing_definition_name(src, pos):
    """name of the last `template` / `function` header that starts before `pos` (comments skipped by the lexer)"""
    st, _, _ = lex(src)
    toks = sorted(x for x in st if x <= pos)
    name = None
    for i, a in enumerate(toks):
        m = IDENT.match(src, a)
        if m and m.group(0) in (b"template", b"function"):
            for b in toks[i + 1:i + 4]:
                m2 = IDENT.match(src, b)
                if m2 and m2.group(0) not in (b"custom", b"parallel"):
                    name = m2.group(0).decode()
                    break
    # the header of the definition the position lies in may start AT pos (T2008: whole definition)
    return name


def judge_names(p, r, lib, stats):
    """The names a finding QUOTES (fourth audit: label messages were compared nowhere).  Every back-quoted name of a
    label message must be an identifier of the text under THAT label or the name of the definition the label lies
    in; every back-quoted name of the report message must be an identifier under one of its labels, the name of
    that definition, or (CS0018: the output signal of the instantiated template) be declared as an output signal in a
    file of the project.  Operators (`<--`) must occur under the primary label.  Not judged: P1000 (token
    lists of the parser), quoted things that are no names (`p/2`, bit sizes)."""
    if r["id"] == "P1000" or not (r["primary"] or r["secondary"]):
        return []
    fails = []
    texts, defs = [], set()
    for l in r["primary"] + r["secondary"]:
        path, src, _ = lib[l["file"]]
        t = src[l["start"]:l["end"]]
        ids = {x.decode() for x in IDENT.findall(t)}
        d = enclosing_definition_name(src, l["start"])
        texts.append((l, t, ids, d))
        if d:
            defs.add(d)
    literal = LITERAL_NAMES.get(r["id"], set())
    for l, t, ids, d in texts:
        quoted = re.findall(r"`([^`]*)`", l["msg"] or "")
        if r["id"] == "CS0014" and "bits here" in (l["msg"] or ""):
            quoted = quoted[:1]          # the second quotation is the size expression handed to the Num2Bits
        for q in quoted:
            if not NAME_LIKE.match(q):
                continue
            stats["quoted_names_judged"] += 1
            b = base_name(q)
            if b not in ids and b != d and b not in literal:
                fails.append({"clause": "quoted-name", "code": r["id"], "message": r["message"][:200],
                              "label": {k: l[k] for k in ("file", "start", "end", "msg")}, "text": t.decode(errors="replace")[:200],
                              "why": "the label message quotes `%s`, which is neither an identifier of the text under the label nor "
                                     "the name of the definition it lies in (%s)" % (q, d)})
    all_ids = set().union(*[x[2] for x in texts]) if texts else set()
    prim = [x for x in texts if x[0] in r["primary"]]
    for q in re.findall(r"`([^`]*)`", r["message"].split("\n")[0]):
        if q in ("<--", "-->", "<==", "==>", "==="):
            stats["quoted_names_judged"] += 1
            def stmt_text(x):
                # the label and what follows it up to the end of the statement (a tuple target is labelled alone)
                src = lib[x[0]["file"]][1]
                semis = [a for a in lex(src)[0] if a >= x[0]["end"] and src[a:a + 1] == b";"]
                return _strip_comments(src[x[0]["start"]:min(semis) if semis else len(src)].decode(errors="replace"))
            if prim and not any(("<--" in stmt_text(x) or "-->" in stmt_text(x)) if q in ("<--", "-->") else q in stmt_text(x) for x in prim):
                fails.append({"clause": "quoted-name", "code": r["id"], "message": r["message"][:200],
                              "why": "the message quotes the operator `%s`, which does not occur in the statement under the primary label" % q})
            continue
        if not NAME_LIKE.match(q):
            continue
        stats["quoted_names_judged"] += 1
        b = base_name(q)
        if b in all_ids or b in defs or b in literal:
            continue
        if r["id"] == "CS0018" and any(re.search(r"signal\b[^;]*\boutput\b[^;]*(?<![A-Za-z0-9_$])" + re.escape(b) + r"(?![A-Za-z0-9_$])",
                                                 _strip_comments(src.decode(errors="replace"))) for _, src, _ in lib.values()):
            continue
        fails.append({"clause": "quoted-name", "code": r["id"], "message": r["message"][:200],
                      "why": "the message quotes `%s`, which is no identifier under a label of the finding and not the name of "
                             "the definition a label lies in (%s)" % (q, sorted(defs))})
    return fails


def empty_parens(src, s, e, st, en):
    """s..e is the stretch from the end of a `(` token to the start of the next token, a `)` (blanks and comments only)"""
    return s in en and e in st and src[s - 1:s] == b"(" and src[e:e + 1] == b")" and not any(s <= x < e for x in st)


def judge_instances(p, instance_seen, spans, lib, info_base, stats):
    """Instance-level half of the construct clause that membership cannot see: a finding anchored TWICE at one node
    while another node of the same definition that the generator recorded as offending has none = a label moved onto
    another instance of the same kind and name.  (Counting findings is not C04's business: nothing is demanded of a
    definition whose findings are all at distinct nodes.)"""
    fails = []
    src_of = {os.path.relpath(path, p["dir"]): src for path, src, _ in lib.values()}
    for (rel, code, message, lmsg), ranges in instance_seen.items():
        stats["instance_groups"] += 1
        dup = [x for x, n in collections.Counter(ranges).items() if n > 1]
        if not dup or code == "CS0014":         # CS0014 keys its findings by the VALUE, not by the node
            continue
        name = tick(lmsg)
        what, cands = instance_candidates(code, message, name, spans[rel], info_base["curve"])
        for (s, e) in dup:
            here = {"kind": "x", "start": s, "end": e}
            d = def_of(here, spans[rel])
            missing = [(c["start"], c["end"]) for c in cands if (d is None or inside(c, d)) and (c["start"], c["end"]) not in ranges]
            if missing:
                src = src_of.get(rel, b"")
                fails.append({"clause": "construct-instance", "code": code, "message": message[:200], "style": "primary",
                              "label": {"start": s, "end": e, "msg": lmsg}, "text": src[s:e].decode(errors="replace")[:200],
                              "why": "%d findings `%s` are anchored at the same %s %d..%d while %s of the same definition has none: "
                                     "%s = %s" % (collections.Counter(ranges)[(s, e)], code, what, s, e, what, missing[:3],
                                                  [src[a:b].decode(errors="replace")[:60] for a, b in missing[:3]])})
    return fails


CLI_VARIANTS = {
    "verbose": [["--verbose"], ["-v"], []],
    "level": [["-l", "info"], ["-l", "INFO"], ["--level", "info"], ["--level=INFO"]],
    "sarif": ["--sarif-file", "-s"],
    "paths": ["absolute", "relative", "dot-relative", "via-subdir"],
}


def choose_cli_variant(rng):
    """Spellings of the same run (fourth audit: always `--verbose -l info --sarif-file <abs paths>`): short and long
    options, verbose and non-verbose display, relative argv with the project directory as working directory."""
    return {"verbose": rng.choice([0, 0, 1, 2, 2]), "level": rng.randrange(4), "sarif": rng.randrange(2),
            "paths": rng.choice(["absolute", "absolute", "relative", "dot-relative", "via-subdir"]),
            "curve_short": rng.random() < 0.5, "curve_case": rng.choice(["upper", "lower"])}


def run_cli_project(cli, p):
    sarif = os.path.join(p["dir"], "out.sarif")
    try:
        os.remove(sarif)
    except OSError:
        pass
    v = p.get("cli_variant") or {"verbose": 0, "level": 0, "sarif": 0, "paths": "absolute"}
    cwd = None
    if v["paths"] == "absolute":
        argv = [os.path.join(p["dir"], a) for a in p["argv"]]
    else:
        cwd = p["dir"]
        os.makedirs(os.path.join(p["dir"], "sub"), exist_ok=True)
        pre = {"relative": "", "dot-relative": "./", "via-subdir": "sub/../"}[v["paths"]]
        argv = [pre + a for a in p["argv"]]
    opts = list(CLI_VARIANTS["verbose"][v["verbose"]]) + list(CLI_VARIANTS["level"][v["level"]]) + \
        [CLI_VARIANTS["sarif"][v["sarif"]], sarif if cwd is None or v["sarif"] == 0 else "out.sarif"]
    for i, lb in enumerate(p.get("libs") or []):
        opts += ["-L" if (v["level"] + i) % 2 else "--library", lb if cwd is not None else os.path.join(p["dir"], lb)]
    curve = p.get("curve")
    if curve and curve != "BN254":
        opts += ["-c" if v.get("curve_short") else "--curve", curve.lower() if v.get("curve_case") == "lower" else curve]
    rc, out, err = common.sh([cli] + opts + argv, timeout=120, cwd=cwd)
    return {"rc": rc, "stdout": out, "stderr": err[-2000:], "sarif": e2e.parse_sarif(sarif), "verbose": bool(CLI_VARIANTS["verbose"][v["verbose"]]),
            "cmd": opts + argv}


def offset_of(src, line, col):
    """Inverse of line_col on the original bytes; None when there is no such position."""
    if line is None or col is None or line < 1 or col < 1:
        return None
    pos = 0
    for _ in range(line - 1):
        j = src.find(b"\n", pos)
        if j < 0:
            return None
        pos = j + 1
    k = col - 1
    while k > 0:
        if pos >= len(src) or src[pos:pos + 1] == b"\n":
            return None
        pos += 1
        while pos < len(src) and (src[pos] & 0xC0) == 0x80:
            pos += 1
        k -= 1
    return pos


def sarif_loci(t):
    """The header positions codespan prints for a finding whose labels are the SARIF locations."""
    files, best = [], {}
    for style, locs in ((0, t[3]), (1, t[4])):
        for l in locs:
            f = l[0]
            key = (style, l[1], l[2])
            if f not in best:
                files.append(f)
                best[f] = key
            elif key < best[f]:
                best[f] = key
    return ["%s:%s:%s" % (f[len("file://"):] if (f or "").startswith("file://") else f, best[f][1], best[f][2]) for f in files]


def judge_sarif_result_directly(p, t, stats):
    """A finding the CLI wrote that has no in-process twin (hash-order dependent choices such as which of two
    duplicate definitions is kept): its regions are mapped back to byte ranges of the ORIGINAL files and judged
    by the same clauses."""
    fails = []
    spans = {} if p.get("brief_unreliable") else (p.get("brief") or {})
    rep = {"id": t[1], "message": t[2] or ""}
    for primary, locs in ((True, t[3]), (False, t[4])):
        for uri, sl, sc, el, ec, msg in locs:
            where = {"code": t[1], "message": (t[2] or "")[:200], "sarif": [uri, sl, sc, el, ec], "style": "primary" if primary else "secondary"}
            path = (uri or "")[len("file://"):]
            rel = os.path.relpath(path, p["dir"])
            if rel not in p["files"]:
                fails.append(dict(where, clause="file-read", why="SARIF names `%s`, which is not a file of the project" % uri))
                continue
            src = p["files"][rel] if isinstance(p["files"][rel], bytes) else p["files"][rel].encode()
            s, e = offset_of(src, sl, sc), offset_of(src, el, ec)
            if s is None or e is None or s > e:
                fails.append(dict(where, clause="sarif-region", why="the region is not a range of positions of the original file"))
                continue
            st, en, unc = lex(src)
            if not ((s in st and e in en) or (s == e and (s in st or s == len(src) or (en and s == max(en))))
                    or (unc is not None and (s, e) == (unc, unc + 2)) or (t[1] == "T2008" and empty_parens(src, s, e, st, en))):
                fails.append(dict(where, clause="token-boundary", text=src[s:e].decode(errors="replace")[:200],
                                  why="the SARIF region does not start at the start and end at the end of a token of the original text"))
                continue
            if rel in spans and not any(d.get("support") and d["start"] <= s and e <= d["end"] for d in spans[rel] if d["kind"] == "def"):
                pred = allowed_ranges(rep, {"msg": msg}, spans[rel], src, primary, {"curve": p.get("curve", "BN254"), "rel": rel})
                if pred is not None and (s, e) not in pred[1]:
                    fails.append(dict(where, clause="construct", text=src[s:e].decode(errors="replace")[:200],
                                      why="text under the displayed %s location is not the %s" % ("primary" if primary else "secondary", pred[0])))
            stats["cli_labels_judged_directly"] += 1
    return fails


def judge_cli(p, res, exp_stdout, exp_sarif, panicked, stats):
    fails = []
    if res["rc"] not in (0, 1):
        if panicked:
            return fails            # the same panic as in process: C01's business
        return [{"clause": "cli-run", "why": "CLI exit status %s: %s" % (res["rc"], res["stderr"][-400:])}]
    diags = [ev for ev in e2e.parse_stdout(res["stdout"]) if ev[0] == "diag"]
    if diags and (res["sarif"] is None or "results" not in res["sarif"]):
        return [{"clause": "sarif-written", "why": "the CLI displayed %d findings but wrote no SARIF file (a label the "
                 "converter cannot resolve makes the export fail silently)" % len(diags)}]
    results = res["sarif"]["results"] if res["sarif"] else []
    if len(results) != len(diags):
        return [{"clause": "sarif-count", "why": "%d findings displayed, %d SARIF results" % (len(diags), len(results))}]
    verbose = res.get("verbose", True)
    stats["cli_runs_verbose" if verbose else "cli_runs_plain"] += 1
    # the BODY of every displayed diagnostic: snippet, underlined ranges, label messages of primary and secondary
    # labels, notes - compared as text with the rendering of a diagnostic the harness builds from the report's own
    # labels WITHOUT Report::to_diagnostic (verbose: with the id and the `--allow` hint; plain: without)
    want = collections.Counter(x[4 if verbose else 5] for x in exp_stdout)
    for block, n in want.items():
        if block is None:
            stats["cli_bodies_without_expectation"] += n
            continue
        stats["cli_bodies_compared"] += n
        # the CLI's output is read in text mode (CR LF and lone CR arrive as LF): the same translation for the expectation
        block = block.replace("\r\n", "\n").replace("\r", "\n")
        have = res["stdout"].count(block)
        if have < n:
            head = block.split("\n")[0]
            shown = [b for b in res["stdout"].split("\n\n") if head in b]
            fails.append({"clause": "displayed-body", "why": "the terminal does not show this finding as its labels say (%d of %d "
                          "times; %s mode): header, source lines, underlined ranges and messages of all primary and secondary "
                          "labels, notes" % (have, n, "verbose" if verbose else "non-verbose"),
                          "expected": block[:1500], "displayed_with_that_header": [b[:1500] for b in shown[:2]]})
            break
    pool = collections.Counter(exp_sarif)
    for ev, r in zip(diags, results):
        t = r["tuple"]
        # the terminal and the SARIF file show the same finding at the same place
        if (verbose and ev[2] != t[1]) or (not verbose and ev[2] is not None) or ev[3] != (t[2] or "").split("\n")[0] \
                or list(ev[4]) != sarif_loci(t):
            fails.append({"clause": "displayed-line-column", "code": t[1], "message": (t[2] or "")[:200],
                          "why": "the terminal shows %s %s at %s, the SARIF result %s has its first locations at %s" % (
                              ev[2], ev[3][:60], list(ev[4]), t[1], sarif_loci(t))})
            continue
        if pool[t] > 0:
            pool[t] -= 1            # identical to the recomputation from the in-process label (already judged)
            stats["cli_findings_matched_in_process"] += 1
        else:
            sub = judge_sarif_result_directly(p, t, stats)
            if sub:
                cands = [x for x in exp_sarif if x[1] == t[1] and x[2] == t[2]]
                for x in sub:
                    x["in_process_candidates"] = [[y[:5] for y in c[3]] for c in cands][:4]
                fails += sub
            stats["cli_findings_without_in_process_twin"] += 1
    return fails


def evaluate(projects, harness, cli, root, stats, nontrivial):
    """-> list of failing cases {input, clause, ...}"""
    lines = []
    for p in projects:
        write_project(root, p)
        if "brief" not in p:
            mark_divisors(p)
            p["brief"] = brief_spans(p)
        lines.append(json.dumps({"files": [os.path.join(p["dir"], a) for a in p["argv"]],
                                 "libs": [os.path.join(p["dir"], a) for a in p.get("libs", [])],
                                 "curve": p.get("curve", "BN254"), "all": True}))
    outs = common.run_lines(harness, [], lines, shards=common.NPROC)
    provs = common.run_lines(harness, ["provenance"], lines, shards=common.NPROC)
    if len(provs) != len(lines):
        provs = ["{}"] * len(lines)
        stats["prov_harness_failures"] += 1
    with concurrent.futures.ThreadPoolExecutor(max_workers=common.NPROC) as ex:
        clis = list(ex.map(lambda p: run_cli_project(cli, p), projects))
    failing = []
    for p, o, c, pv in zip(projects, outs, clis, provs):
        try:
            out = json.loads(o)
        except ValueError:
            out = {"bad_input": o[:200]}
        try:
            prov = json.loads(pv)
        except ValueError:
            prov = {"bad_input": pv[:200]}
        stats["projects"] += 1
        stats["style:" + p.get("style", "raw")] += 1
        for k, v in (p.get("cli_variant") or {}).items():
            stats["cli_variant:%s=%s" % (k, v)] += 1
        if p.get("inject"):
            stats["inject:" + p["inject"]] += 1
        if p.get("exotic"):
            stats["exotic:" + p["exotic"]] += 1
            stats["exotic_outcome:%s:%s" % (p["exotic"], "rejected" if any(r["id"] == "P1000" and r["message"].startswith("Invalid token") for r in (out.get("reports") or [])) else "accepted")] += 1
        for k, v in (p.get("trivia") or {}).items():
            stats["trivia:" + k] += v
        if "bad_input" in out:
            failing.append({"project": p, "fails": [{"clause": "harness", "why": out["bad_input"]}]})
            continue
        if out["panic"]:
            stats["panics_in_process"] += 1
        fails, exp_stdout, exp_sarif = judge_project(p, out, stats, nontrivial)
        cf = judge_cli(p, c, exp_stdout, exp_sarif, out["panic"], stats)
        if "bad_input" in prov or "defs" not in prov:
            fails.append({"clause": "harness", "why": "provenance mode: %s" % str(prov)[:200]})
        else:
            fails += judge_provenance(p, prov, stats)
            fails += judge_statement_anchors(p, out, prov, stats)
        stats["cli_findings_displayed"] += len([ev for ev in e2e.parse_stdout(c["stdout"]) if ev[0] == "diag"])
        if c["sarif"] and "results" in c["sarif"]:
            stats["sarif_results"] += len(c["sarif"]["results"])
        # expectation of the lexical injection
        if p.get("inject") == "unclosed_comment" and lex(p["files"]["main.circom"] if isinstance(p["files"]["main.circom"], bytes) else p["files"]["main.circom"].encode())[2] is not None and not any(r["message"].startswith("Unterminated comment") for r in out["reports"]):
            fails.append({"clause": "construct", "why": "file ends inside a block comment but no `Unterminated comment.` finding"})
        if fails or cf:
            failing.append({"project": p, "fails": fails + cf})
    return failing


def project_replay(p):
    return {"files": {k: (v.decode(errors="surrogateescape") if isinstance(v, bytes) else v) for k, v in p["files"].items()},
            "argv": p["argv"], "libs": p.get("libs", []), "curve": p.get("curve", "BN254"), "style": p.get("style"), "exotic": p.get("exotic"),
            "inject": p.get("inject"), "spans": p.get("brief"), "origin": p.get("origin"), "cli_variant": p.get("cli_variant")}


def load_corpus():
    out = []
    for path in sorted(glob.glob(os.path.join(common.VERIF, "corpus", "C04", "*.json"))):
        c = json.load(open(path))
        c["origin"] = os.path.relpath(path, common.VERIF)
        c["files"] = {k: v.encode("utf-8", "surrogateescape") if isinstance(v, str) else v for k, v in c["files"].items()}
        c["brief"] = c.get("spans") or {}
        c["spans"] = {}
        c.setdefault("style", "raw")
        out.append(c)
    return out


def known_class(fail, listed):
    return None


def run(ctx, proofs):
    harness = common.build_harness("locations")
    cli = common.build_cli()
    quick = ctx.tier == "quick"
    nproj = 1200 if quick else 8000
    root = os.path.join(ctx.work, "projects")
    shutil.rmtree(root, ignore_errors=True)
    os.makedirs(root, exist_ok=True)
    stats = collections.Counter()
    nontrivial = set()
    features = collections.Counter()
    failing = []
    corpus = load_corpus()
    for i, c in enumerate(corpus):
        c["idx"] = 900000 + i
    failing += evaluate(corpus, harness, cli, root, stats, nontrivial)
    done = 0
    sample = None
    while done < nproj:
        batch = []
        for _ in range(min(400, nproj - done)):
            p = c04gen.gen_project(ctx.rng, done)
            if (p["style"] in ("multibyte", "multibyte_crlf", "dense", "mixed") and ctx.rng.random() < 0.15) or \
                    (any(f in ("instances-sign", "instances-n2b", "instances-b2n", "instances-lt_inputs") for f in p["features"])
                     and ctx.rng.random() < 0.4):
                p["curve"] = ctx.rng.choice(["BLS12_381", "GOLDILOCKS"])
            p["cli_variant"] = choose_cli_variant(ctx.rng)
            p["origin"] = "generated #%d" % done
            for f in p["features"]:
                features[f] += 1
            done += 1
            batch.append(p)
        if sample is None:
            sample = next((b for b in batch if b["style"] == "multibyte_crlf"), batch[0])
        failing += evaluate(batch, harness, cli, root, stats, nontrivial)
        if len(failing) > 50:
            break
        shutil.rmtree(root, ignore_errors=True)
        os.makedirs(root, exist_ok=True)

    # the extracted line/column model against the real location code (FileLibrary, sarif_conversion.rs, renderer)
    cs_samples = [c["files"].get("main.circom", b"") for c in corpus[:6]] + ([sample["files"]["main.circom"]] if sample else [])
    cs_dis, cs_fail = codespan_correspondence(ctx, harness, quick, cs_samples, stats)
    for x in cs_fail[:3]:
        ctx.violation("C04 fails on a bare text (line/column): %s" % x["why"],
                      {"input": {"codespan_case": x["case"], "text": x["text"]}, "impl": x["impl"], "spec": x["spec"]})
    if cs_dis and not cs_fail:
        x = cs_dis[0]
        ctx.violation("correspondence broken: %s on `%s`: model %s, real code %s" % (x["why"], x["case"][:120], x["model"][:80], x["impl"][:80]),
                      {"broken": "correspondence Model.Labels.location / sarif_region (extracted) vs codespan as called by "
                                 "FileLibrary, sarif_conversion.rs and the terminal renderer",
                       "input": {"codespan_case": x["case"], "text": x.get("text")}, "model": x["model"], "impl": x["impl"],
                       "disagreements": len(cs_dis)}, no_input=True)

    # the C04_liftfull_* theorems speak about Model.LiftFull: its tie to the real into_cfg is run here in reduced form
    # (single-file generated sources of this run as extra inputs); the helper reports disagreements itself, with input
    from props import liftfull_engine
    lf_extra = []
    for c in ([sample] if sample else []) + corpus[:10]:
        if len(c["files"]) == 1 and "main.circom" in c["files"]:
            t = c["files"]["main.circom"]
            t = t.decode("utf-8", "replace") if isinstance(t, bytes) else t
            if t.isascii():
                lf_extra.append((c.get("origin"), t))
    try:
        ctx.coverage["liftfull_tie"] = liftfull_engine.require_tie(common, ctx, "C04", extra_sources=lf_extra)
    except Exception as ex:          # the stage is another agent's machinery: its crash is reported, not hidden
        ctx.coverage["liftfull_tie"] = {"crashed": repr(ex)[:400]}
        ctx.violation("stage liftfull could not be run inside the check of C04: %r" % (ex,),
                      {"broken": "liftfull_engine.require_tie", "error": repr(ex)[:2000]}, no_input=True)

    listed = {k["id"] for k in ctx.known}
    shown = 0
    by_clause = collections.Counter()
    for f in failing:
        for x in f["fails"]:
            by_clause[x["clause"]] += 1
    for f in failing:
        if shown >= 6:
            break
        first = f["fails"][0]
        kf = known_class(first, listed)
        if kf:
            ctx.known_finding(kf, "")
            continue
        shown += 1
        ctx.violation("C04 fails on %s (clause %s, %s): %s" % (f["project"].get("origin"), first["clause"], first.get("code", "-"),
                                                               first["why"][:400]),
                      {"input": project_replay(f["project"]), "impl": first, "all_failures": f["fails"][:10],
                       "spec": "every label: file of the library read from disk, 0 <= start <= end <= len, UTF-8 and token "
                               "boundaries of the ORIGINAL text, construct of the message under the primary label, "
                               "line:column / SARIF region recomputed from the original bytes"})
    claimed_evals = {("%s %s" % k): stats["anchor_eval:%s %s" % k] for k in STMT_ANCHORED}
    if sum(claimed_evals.values()) < 50 or not claimed_evals["CS0005 primary"] or not claimed_evals["CA01 primary"]:
        ctx.violation("the statement-anchor hypothesis of the end-to-end label theorems was evaluated on too few labels to mean "
                      "anything (%s)" % claimed_evals,
                      {"broken": "lib/props/C04.py judge_statement_anchors (degenerate run)", "evaluations": claimed_evals},
                      no_input=True)
    if not failing and proofs["failures"]:
        diff = table_diff(getattr(ctx, "label_sites_raw", None) or [])
        ctx.violation("proof obligations of C04 no longer check: " + "; ".join(proofs["failures"])[:600] +
                      (" -- label-site table out of date with Model.Labels.modelled_shapes: %s; every dynamic clause held on the %d "
                       "labels of this run (no failing input exists for a reader that is merely out of date: update "
                       "modelled_shapes / the constructor in Model.Labels)" % (diff, stats["labels"]) if diff else ""),
                      {"broken": "props/C04.v (or the regenerated coq/gen/LabelSites.v: a label constructor of the "
                                 "anchored sources changed how it obtains its range or its file id)",
                       "table_vs_model": diff, "labels_checked_dynamically": stats["labels"],
                       "failures": proofs["failures"]}, no_input=True)

    codes = sorted(k[5:] for k in stats if k.startswith("code:"))
    nopred = {k[13:]: v for k, v in stats.items() if k.startswith("no_predicate:")}
    ctx.coverage.update({
        "evaluations": stats["labels"],
        "distinct_nontrivial": len(nontrivial),
        "rule": "one evaluation = one label (primary or secondary) of one report collected in process, checked against all "
                "clauses; distinct-nontrivial counts the distinct combinations (finding code, trivia style of the file, "
                "multi-byte text before the label, a block comment earlier on the label's line, label spans several lines, "
                "CRLF before the label) among the primary labels whose construct clause was judged and held",
        "exhaustive": False,
        "projects": stats["projects"],
        "corpus_projects": len(corpus),
        "reports_in_process": stats["reports"],
        "labels_judged_by_construct_predicate": stats["judged_labels"],
        "labels_without_predicate_by_code": nopred,
        "labelless_reports_by_code": {k[10:]: v for k, v in stats.items() if k.startswith("labelless:")},
        "codes_seen": {c: stats["code:" + c] for c in codes},
        "cli_findings_displayed": stats["cli_findings_displayed"],
        "sarif_results_checked": stats["sarif_results"],
        "cli_findings_identical_to_recomputation_from_in_process_label": stats["cli_findings_matched_in_process"],
        "cli_findings_without_in_process_twin_judged_directly": stats["cli_findings_without_in_process_twin"],
        "injections_that_still_parse": stats["injections_that_still_parse"],
        "labels_in_fixed_text_support_templates": stats["labels_in_support_templates"],
        "styles": {k[6:]: v for k, v in stats.items() if k.startswith("style:")},
        "injections": {k[7:]: v for k, v in stats.items() if k.startswith("inject:")},
        "exotic_scalars": {k[7:]: v for k, v in stats.items() if k.startswith("exotic:")},
        "exotic_scalar_outcomes": {k[15:]: v for k, v in stats.items() if k.startswith("exotic_outcome:")},
        "trivia_inserted": {k[7:]: v for k, v in stats.items() if k.startswith("trivia:")},
        "generator_features": dict(features),
        "exotic_note": "files that begin with a byte order mark (also BOM + CRLF, BOM in the included file), NBSP / U+2028 / U+3000 / "
                       "ZWSP at offset 0, and one such scalar (also U+2003, U+0085, U+FEFF) between two tokens; the unchanged tool "
                       "rejects U+FEFF and U+200B with `Invalid token found.` at their first byte and skips the Unicode White_Space ones",
        "panics_in_process": stats["panics_in_process"],
        "failing_projects": len(failing),
        "provenance_clause": {
            "definitions": stats["prov_definitions"], "not_lifted": stats["prov_definitions_not_lifted"],
            "lifted_but_ssa_error": stats["prov_definitions_without_ssa"],
            "distinct_ir_nodes_before_ssa_checked_against_ast": stats["prov_ir_nodes"],
            "distinct_ir_nodes_after_ssa_checked": stats["prov_ssa_nodes"],
            "default_meta_nodes_after_ssa": stats["prov_default_meta_nodes"],
            "note": "per definition, in process: every (start, end, file id, kind) of the CFG built by into_cfg is that of an AST "
                    "node of the corresponding kind of the body handed on by parse_files (statements AND expressions); every node "
                    "after into_ssa is a node of that CFG or an inserted phi with Meta::default(); no node loses its location"},
        "statement_anchor_hypothesis": {
            "claimed_statement_anchored": sorted("%s %s" % k for k in STMT_ANCHORED),
            "labels_evaluated": {k[12:]: v for k, v in sorted(stats.items()) if k.startswith("anchor_eval:")},
            "labels_at_a_statement_of_the_ssa_cfg": {k[12:]: v for k, v in sorted(stats.items()) if k.startswith("anchor_stmt:")},
            "projects_evaluated": stats["anchor_projects_evaluated"],
            "projects_with_a_duplicated_name_evaluated": stats["anchor_projects_with_duplicate_definition_evaluated"],
            "note": "hypothesis `nodes_of ctor` subset of `cfg_stmt_metas c'` of C04_labels_wellformed_through_desugaring_and_ssa / "
                    "_lifting_and_ssa, evaluated on every label of every in-process report against the statement nodes of the SSA "
                    "cfgs the real into_cfg + into_ssa build for the project; a label of a claimed (code, role) outside that set "
                    "is a violation (clause statement-anchor); the other codes are outside the scope of the end-to-end theorems"},
        "codespan_model_vs_real": {
            "cases": stats["codespan_cases"], "distinct_texts": stats["codespan_texts"],
            "exhaustive_small_texts": stats["codespan_exhaustive_small_texts"],
            "offsets_compared_model_vs_real": stats["codespan_offsets_compared"],
            "boundary_offsets_vs_usual_notion": stats["codespan_offsets_vs_usual_notion"],
            "regions_and_headers_compared": stats["codespan_regions_compared"],
            "disagreements": len(cs_dis), "failures": len(cs_fail),
            "note": "extracted Model.Labels.location on EVERY byte offset 0..len+2 of each text (also inside multi-byte "
                    "characters and past the end) vs FileLibrary::to_storage().location; extracted sarif_region vs the region "
                    "ReportLabel::to_sarif writes and the header codespan's renderer prints; texts: every text of <= 5 (thorough 6) "
                    "scalars over {a, LF, CR, e-acute}, fixed edge cases (empty, only newlines, no final newline, empty last "
                    "line, lone CR, BOM, U+2028, 4-byte scalars), random texts over 18 scalars, windows of generated files"},
        "failures_by_clause": dict(by_clause),
        "displayed_body_clause": {
            "cli_runs_verbose": stats["cli_runs_verbose"], "cli_runs_non_verbose": stats["cli_runs_plain"],
            "bodies_compared": stats["cli_bodies_compared"], "bodies_without_expectation": stats["cli_bodies_without_expectation"],
            "cli_variants": {k[12:]: v for k, v in sorted(stats.items()) if k.startswith("cli_variant:")},
            "note": "every finding the CLI displays must appear on standard output exactly as codespan renders a diagnostic that the "
                    "harness builds from the report's own primary and secondary labels, notes, documentation URL (and id + --allow "
                    "hint in verbose mode) WITHOUT Report::to_diagnostic: source lines, underlined ranges, label messages, notes"},
        "quoted_names_clause": {"names_judged": stats["quoted_names_judged"],
                                "note": "back-quoted names of label messages / report messages must be identifiers under the label(s) "
                                        "or the name of the enclosing definition (see judge_names)"},
        "one_file_hypothesis": {"reports_evaluated": stats["one_file_hypothesis_evaluated"], "unmet": stats["one_file_hypothesis_unmet"],
                                "note": "oracle clause (the theorem it used to be the hypothesis of was definition-grade and is a lemma now): "
                                        "all labels of one report of a guarded constructor name one file; unmet = failure with input"},
        "instance_level_construct_clause": {
            "codes": sorted(INSTANCE_CODES), "groups_checked_for_duplicate_anchor": stats["instance_groups"],
            "labels_on_an_empty_parameter_list": stats["labels_on_an_empty_parameter_list"],
            "note": "for these codes no other property compares locations: the primary label must be a node the generator recorded "
                    "as offending (outermost comparison / overflowing arithmetic, Num2Bits/Bits2Num whose size is not a constant "
                    "below the prime's bit size of the curve in use, LessThan/Num2Bits input of a value the definition does not "
                    "bound, non-constant top-level divisor of a `<--`, instantiation with an unread output), and two findings "
                    "anchored at one node while another recorded offending node of the definition has none is a failure"},
        "label_site_scan": {"files_scanned": ctx.coverage.get("label_site_files_scanned"),
                            "files_outside_the_fixed_list_with_sites": ctx.coverage.get("label_site_files_outside_the_fixed_list_with_sites")},
        "codes_never_generated": {"P1001": "ReportCode::NoMainFoundInProject has no producer in /repo (grep: only report_code.rs names it)"},
        "open_statements": ["meta provenance through IR LIFTING is PROVED for STATEMENT metas about the content-carrying mirror Model.LiftFull "
                            "(C04_liftfull_stmt_metas_from_ast, C04_liftfull_stmt_metas_in_body; used by "
                            "C04_labels_wellformed_through_desugaring_lifting_and_ssa; content level: C13_liftfull_content_provenance) and that "
                            "mirror is tied to the real into_cfg by the text-equal comparison of stage liftfull, which this check now runs "
                            "itself in reduced form (coverage.liftfull_tie) and `./check C13` in full; OPEN: EXPRESSION metas (labels anchored "
                            "at an expression, a parameter list or a definition: CS0003/4/9/10/14/15/16/18, CS0002/7/12, T2008) have no "
                            "end-to-end theorem - the IR mirror of SSA keeps statement metas only - and are covered by the provenance clause "
                            "of the oracle node by node and by the instance-level construct clause. The desugarer's part "
                            "(C04_desugar_metas_from_input) and the SSA construction's part (C04_ssa_blocks_from_input / "
                            "C04_ssa_metas_from_input, statement metas) are proved",
                            "no theorem says that the FILE id of a label is the file that holds the construct (only: the file id of some "
                            "node handed to the constructor) nor that the text under the label IS the construct: both are oracle clauses "
                            "(file-read / construct), evaluated on every label",
                            "parser_ranges_wellformed (LALRPOP @L/@R) stays a hypothesis of every inheritance theorem; the only label whose "
                            "validity is proved outright is the unclosed-comment one (C04_unclosed_comment_label_valid)"],
        "samples": [{"origin": sample.get("origin"), "style": sample.get("style"),
                     "main.circom": sample["files"]["main.circom"][:1200]}] if sample else [],
    })
    ctx.assumptions += [
        "parser_ranges_wellformed: LALRPOP's @L/@R are byte offsets into the pre-processed text with start <= end, inside "
        "the text, on scalar boundaries — hypothesis of the Coq theorems, observed here on every label (range, UTF-8 "
        "boundary and token-boundary clauses against an independent Python lexer of the ORIGINAL text)",
        "meta provenance through IR lifting (every node of the CFG carries the meta of the AST node it comes from) is a hypothesis "
        "of the end-to-end theorem, observed directly node by node (statements and expressions, kind by kind) by the provenance "
        "clause on every definition of every generated project; the desugarer's part is proved (agent-C18's Proofs.DesugarMetas) "
        "and so is the SSA construction's for statement metas (Proofs.LabelsSsa over Model.Ssa, the mirror C14's engine compares "
        "with the real into_ssa, statement metas included); expression metas are not in the IR mirror: for them SSA provenance is "
        "observed by the same clause",
        "Model.Labels.location / sarif_region are compared, extracted, with the real code only on bare texts of at most ~70 scalars "
        "(the faithful mirror is quadratic); on project files codespan's answers are compared with the Python recomputation",
        "codespan's terminal renderer is a black box: the header line `file:line:col` of every rendered diagnostic is "
        "compared with the recomputation, the snippet drawing is not",
        "columns are 1-based counts of Unicode scalar values from the line start (lines end at LF; CR counts as a "
        "character), as codespan's Files::location computes them; SARIF regions use the same convention",
        "the Rust-source scanner of gen() classifies label constructors syntactically (field / meta range / anything else; "
        "guarded by `if let Some(file_id)` or not); a constructor written in a shape the scanner does not know is "
        "classified LMadeUp / FOther and breaks an obligation rather than passing silently",
    ]


def replay(ctx, rep):
    harness = common.build_harness("locations")
    cli = common.build_cli()
    if rep.get("liftfull_src"):
        from props import liftfull_engine
        return liftfull_engine.replay_tie(common, rep)
    inp = rep.get("input")
    if not inp:
        print("replay names a broken obligation, not an input:", rep.get("broken"))
        return 1
    if inp.get("codespan_case"):
        model = common.build_model("locations")
        line = inp["codespan_case"]
        m = common.run_lines(model, [], [line], shards=1)[0]
        i = common.run_lines(harness, ["codespan"], [line], shards=1)[0]
        print("text : %r" % inp.get("text"))
        print("model: %s" % m)
        print("real : %s" % i)
        text = inp.get("text") or ""
        b = text.encode()
        ok = m == i
        if line.startswith("loc"):
            vals = i.split(" = ")[-1].split()
            for off in utf8_boundaries(text):
                if vals[off] != "%d:%d" % line_col(b, off):
                    print("FAILS at offset %d: real %s, usual notion %d:%d" % ((off, vals[off]) + line_col(b, off)))
                    ok = False
        else:
            a, e = [int(x) for x in line.split()[1:3]]
            want = "%d %d %d %d | %d %d" % (line_col(b, a) + line_col(b, e) + line_col(b, a))
            if i.split(" = ")[-1] != want:
                print("FAILS: real %s, usual notion %s" % (i.split(" = ")[-1], want))
                ok = False
        print("agree" if ok else "DISAGREE")
        return 0 if ok else 1
    p = dict(inp)
    p["idx"] = 0
    p["files"] = {k: v.encode("utf-8", "surrogateescape") for k, v in inp["files"].items()}
    p["brief"] = inp.get("spans") or {}
    p["spans"] = {}
    root = os.path.join(ctx.work, "replay")
    shutil.rmtree(root, ignore_errors=True)
    os.makedirs(root, exist_ok=True)
    stats, nontrivial = collections.Counter(), set()
    failing = evaluate([p], harness, cli, root, stats, nontrivial)
    for rel, text in p["files"].items():
        print("---- %s\n%s" % (rel, text.decode(errors="replace")))
    if not failing:
        print("all clauses hold now (%d labels checked)" % stats["labels"])
        return 0
    for x in failing[0]["fails"]:
        print("FAILS clause %s: %s" % (x["clause"], json.dumps(x, ensure_ascii=False)[:800]))
    return 1
