"""C03 — report conservation and the output contract.

Proof side: coq/props/C03.v over Model.Runner (state machine of AnalysisRunner +
CachedStdoutWriter + SarifWriter + main) and the regenerated Gen.Category.
Tie to the code (engine e2e): generated finding-rich projects; the harness
collects in process what every stage produces (parse_files, into_cfg,
into_ssa, each pass, the lookups); the extracted model is fed that ground
truth and the order in which the binary analysed the definitions, and its
displayed sequence / exit status / summary / SARIF are compared with the real
binary's over the option lattice. The property text itself (conservation,
filter law, exit/summary/SARIF contract) is evaluated on every run as the
oracle."""
import shutil

import common
import e2e


def gen(ctx):
    e2e.gen_category()


def make_projects(ctx, base, n_lattice, n_sampled):
    """Corpus first, then generated projects. Returns (projects, truths, lattice_idx, sampled_idx)."""
    projects = []
    for rec in e2e.load_corpus("C03"):
        p = e2e.project_from_description(rec)
        p.meta = {"corpus": rec["_file"], "expect": rec.get("expect", {})}
        projects.append(p)
    ncorpus = len(projects)
    # candidates: small ones for the full lattice, rich ones for sampled options
    cand = []
    for i in range(n_lattice * 4):
        cand.append(e2e.render_structure(e2e.gen_structure(ctx.rng, rich=False), tag="small%d" % i))
    for i in range(n_sampled):
        cand.append(e2e.render_structure(e2e.gen_structure(ctx.rng, rich=True), tag="rich%d" % i))
    projects += cand
    for i, p in enumerate(projects):
        p.write(base, i)
    truths = [e2e.Truth(t) for t in e2e.ground_truth(projects)]
    lattice_idx, sampled_idx = [], []
    for i, (p, t) in enumerate(zip(projects, truths)):
        if t.bad:
            sampled_idx.append(i)
            continue
        ids = sorted({t.payload[q][0]["id"] for q in t.produced()})
        p.meta["ids"] = ids
        if i < ncorpus:
            (lattice_idx if len(ids) <= 6 else sampled_idx).append(i)
        elif p.tag.startswith("small"):
            if 3 <= len(ids) <= 6 and len([j for j in lattice_idx if j >= ncorpus]) < n_lattice:
                lattice_idx.append(i)
            elif len(sampled_idx) < n_sampled + ncorpus and len(ids) > 6:
                sampled_idx.append(i)
        else:
            sampled_idx.append(i)
    return projects, truths, lattice_idx, sampled_idx, ncorpus


def run(ctx, proofs):
    quick = ctx.tier == "quick"
    cli = common.build_cli()
    common.build_harness("e2e")
    common.build_model("e2e")
    base = e2e.scratch_dir("C03")
    try:
        n_lattice, n_sampled, n_opts = (40, 110, 6) if quick else (150, 1200, 10)
        projects, truths, lattice_idx, sampled_idx, ncorpus = make_projects(ctx, base, n_lattice, n_sampled)
        runs = []
        for i in lattice_idx:
            runs += e2e.lattice_runs(i, projects[i].meta["ids"])
        for i in sampled_idx:
            runs += e2e.sampled_runs(i, projects[i].meta.get("ids", []), ctx.rng, n_opts)
        # corpus witnesses: the unfiltered run, repeated in fresh processes (hash orders)
        for i in range(ncorpus):
            for _ in range(8):
                runs.append({"p": i, "level": "info", "allow": [], "verbose": True, "sarif": True, "corpus": True})
        dis, fail = e2e.evaluate(cli, projects, truths, runs)
        # witnesses of the repaired defects must show their findings
        for r in runs:
            if r.get("corpus"):
                want = projects[r["p"]].meta["expect"].get("ids", [])
                got = {e[2] for e in r["events"] if e[0] == "diag"}
                miss = [w for w in want if w not in got]
                if miss and not r["fail"]:
                    fail.append({"run": e2e.run_brief(r), "project": projects[r["p"]].describe(),
                                 "what": ["regression witness %s: %s not displayed" % (projects[r["p"]].meta["corpus"], miss)]})
        # ---- coverage numbers
        nontrivial = set()
        id_hist, levels_seen, seg_orders = {}, set(), set()
        labelless = 0
        for r in runs:
            t = truths[r["p"]]
            if t.bad:
                continue
            prod = t.produced()
            kept = [p for p in prod if t.keep(p, r["level"], r["allow"])]
            if kept and len(kept) < len(prod):
                nontrivial.add((r["p"], r["level"], tuple(sorted(set(r["allow"])))))
            seg_orders.add((r["p"], tuple(e2e.analysis_order(r["events"]))))
        for t in truths:
            if t.bad:
                continue
            for p in t.produced():
                rr = t.payload[p][0]
                id_hist[rr["id"]] = id_hist.get(rr["id"], 0) + 1
                levels_seen.add(rr["level"])
                if not rr["pfiles"]:
                    labelless += 1
        bad_truth = [projects[i].tag for i, t in enumerate(truths) if t.bad]
        # ---- verdict
        for f in fail[:5]:
            ctx.violation("output contract violated: " + "; ".join(f["what"])[:400],
                          {"input": f["project"], "project": f["project"], "run": f["run"], "impl": f["what"],
                           "spec": "displayed = kept produced findings (each once); exit 0 iff nothing displayed; summary = count; SARIF = displayed"})
        if not fail:
            if dis:
                d = dis[0]
                ctx.violation("correspondence Model.Runner vs the circomspect binary broken (%d runs, first: %s); "
                              "the property text held on every explored run" % (len(dis), "; ".join(d["what"])[:300]),
                              {"broken": "correspondence e2e (Model.Runner.run_keys)", "first": d, "count": len(dis),
                               "project": d["project"], "run": d["run"]}, no_input=True)
            elif proofs["failures"]:
                ctx.violation("proof obligations of C03 no longer check: " + "; ".join(proofs["failures"])[:500],
                              {"broken": "props/C03.v", "failures": proofs["failures"]}, no_input=True)
            elif len(lattice_idx) - ncorpus < n_lattice // 2 or len(id_hist) < 10 or len(levels_seen) < 3 or not labelless:
                ctx.violation("generator degenerate: %d lattice projects, %d ids, levels %s, %d label-less reports"
                              % (len(lattice_idx), len(id_hist), sorted(levels_seen), labelless),
                              {"broken": "project generator of lib/e2e.py"}, no_input=True)
        sample_runs = [r for r in runs if not truths[r["p"]].bad][:: max(1, len(runs) // 3)][:3]
        ctx.coverage.update({
            "evaluations": len(runs),
            "distinct_nontrivial": len(nontrivial),
            "rule": "one evaluation = one run of the real binary compared with the extracted Model.Runner (displayed sequence per "
                    "definition segment, exit, summary, SARIF results and rules, 'Result written' message) and with the property text; "
                    "distinct-nontrivial = distinct (project, level, allow-set) points at which some but not all produced findings are kept",
            "exhaustive": False,
            "exhaustive_part": "full option lattice (3 levels x every allow-subset of the occurring ids x verbose x sarif) on %d projects "
                               "with <= 6 occurring ids (incl. %d regression witnesses)" % (len(lattice_idx), len([i for i in lattice_idx if i < ncorpus])),
            "projects": len(projects), "lattice_projects": len(lattice_idx), "sampled_projects": len(sampled_idx),
            "distinct_analysis_orders_seen": len(seg_orders),
            "report_id_histogram": id_hist, "levels_seen": sorted(levels_seen), "label_less_reports": labelless,
            "projects_without_ground_truth": bad_truth,
            "disagreements_model_vs_impl": len(dis), "spec_failures": len(fail),
            "samples": [{"argv": projects[r["p"]].argv, "options": {k: r[k] for k in ("level", "allow", "verbose", "sarif")},
                         "exit": r["exit"], "displayed": len([e for e in r["events"] if e[0] == "diag"])} for r in sample_runs],
        })
        ctx.assumptions += [
            "what the stages produce (parser reports, CFG/SSA reports and errors, pass reports, lookups) is ground truth collected in "
            "process by harness/src/bin/e2e.rs with its own AnalysisContext; that a pass's reports do not depend on the runner's cache "
            "state beyond `lookup succeeds iff the template lifts` is observed by the correspondence (and proved for the model: "
            "C17_lookup_result_is_lift_result)",
            "codespan rendering and clap are black boxes: stdout is parsed back into (severity, id, message, file:line:col headers)",
            "HashMap iteration orders are parameters of the model; the binary's actual analysis order is read from its log lines",
            "SARIF serialisation failures (unwritable path) are outside the model",
        ]
    finally:
        shutil.rmtree(base, ignore_errors=True)


def replay(ctx, rep):
    if "project" not in rep:
        print("replay names a broken obligation, not an input:", rep.get("broken"))
        return 1
    return e2e.replay_project(rep)
