"""C03 — report conservation and the output contract.

Proof side: coq/props/C03.v over Model.Runner (state machine of AnalysisRunner +
CachedStdoutWriter + SarifWriter + main) and the regenerated Gen.Category.
Tie to the code (engine e2e): generated finding-rich projects; the harness
collects in process what every stage produces (parse_files, into_cfg,
into_ssa, each pass, the lookups); the extracted model is fed that ground
truth and the order in which the binary analysed the definitions, and its
displayed sequence / exit status / summary / SARIF are compared with the real
binary's over the option lattice. The property text itself (conservation,
filter law, exit/summary/SARIF contract) is evaluated on every run as the
oracle.

Added after the outside review (design.d/AUDIT.md, section C03):
* the set of user definitions is known independently of the binary AND of the
  in-process parse: the generator's own record of what it wrote into the files
  named on the command line (corpus: `expect.user_defs`), cross-checked by a
  textual scan of the sources.  On every run the analysis order logged by the
  binary must be a permutation of exactly that set (hypothesis `analysis_order`
  of the theorems), and so must the user keys of the in-process parse; the
  model is fed the logged order only when it is such a permutation, otherwise
  the independent set, so a definition skipped by the binary is never skipped
  by the model (C03_only_analysed_definitions_displayed says it would be);
* projects with 256, 257.., 512 trivially flagged statements, so that runs with
  exactly 256 and 512 displayed diagnostics (an exit status that wraps at a
  byte) are part of the differential run;
* the interface through which a pass can see the runner is re-read from the
  source on every run (12 passes ignore the context, one calls only
  `context.template`), and a `context.function` lookup recorded by the harness
  (not mirrored by the model) is reported.

Added for the seeded change C03-sarif-byte-columns (SARIF columns in bytes,
stdout columns in characters): in about two thirds of the generated projects
block comments and `log("...")` string literals with 2-, 3- and 4-byte UTF-8
scalars are put in front of statements on the same line (decorate_structure),
and every `file:line:col` header on stdout is compared directly with
startLine/startColumn of the corresponding SARIF region
(check_sarif_positions; lib/e2e.py already compared start AND end line/column
of every SARIF region with the character positions computed in process)."""
import os
import re
import shutil

import common
import e2e


def gen(ctx):
    e2e.gen_category()


# --------------------------------------------------------------------------
# the user definitions, known without asking the binary or the parser
# --------------------------------------------------------------------------

def user_defs_of_structure(st):
    """What the generator wrote: (kind, name) of every definition of every file
    that is named on the command line."""
    return sorted([d[0], d[1]] for f in st["files"] if f["user"] for d in f["defs"])


DEF_RE = re.compile(r"\b(template|function)(?:\s+(?:custom|parallel))*\s+([A-Za-z_$][A-Za-z0-9_$]*)\s*\(")


def scan_definitions(text):
    """Textual scan (comments removed) for `template X(` / `function f(`."""
    text = re.sub(r"/\*.*?\*/", " ", text, flags=re.S)
    text = re.sub(r"//[^\n]*", " ", text)
    return sorted([m.group(1), m.group(2)] for m in DEF_RE.finditer(text))


def named_files(project):
    """The files the command line names, as keys of project.files: an argument that is a file of the project, or
    every `.circom` file below an argument that is a directory of the project (FileStack::add_files)."""
    out = []
    for a in project.argv:
        if a in project.files:
            out.append(a)
        else:
            out += sorted(n for n in project.files if n.startswith(a.rstrip("/") + "/") and n.endswith(".circom"))
    return out


def scan_user_defs(project):
    out = []
    for a in named_files(project):
        out += scan_definitions(project.files[a])
    return sorted(out)


def independent_user_defs(project):
    """-> sorted list of (kind, name) or None if nothing is known."""
    d = project.meta.get("user_defs")
    if d is None:
        d = (project.meta.get("expect") or {}).get("user_defs")
    return None if d is None else sorted((k, n) for k, n in d)


def big_structure(rng, counts, extra_template=False):
    """One user file; function h<i> has counts[i] statements `acc = acc * x + c;`
    each of which is flagged once (field element arithmetic, CS0004, info)."""
    defs = []
    for i, n in enumerate(counts):
        lines = ["var acc = 1;"]
        for _ in range(n):
            lines.append("acc = acc * x + %d;" % rng.randint(2, 99999))
        lines.append("return acc;")
        defs.append(("function", "h%d" % i, "function h%d(x) {\n    %s\n}" % (i, "\n    ".join(lines))))
    if extra_template:
        defs.append(("template", "B0", e2e.template_text(rng, "B0", ["unused", "sig", "cmp"], [])))
    return {"files": [{"name": "user0.circom", "user": True, "pragma": True, "includes": [], "defs": defs, "main": None}]}


# --------------------------------------------------------------------------
# multi-byte text in front of flagged statements (byte column != character column)
# --------------------------------------------------------------------------

# scalars by UTF-8 width; none of them is '"', '*', '/', a line break or an identifier character of Circom
MB_CHARS = {
    2: "äöüßéñµ§Ωжλ¿",
    3: "≥≤…€→√∑∀字한ก∈",
    4: "𝔽𝕂𝑥😀🔒🧮𐍈𠜎",
}
MB_WORDS = ["groesser", "range", "check", "bits", "n", "x", "ok", "TODO", "in", "out"]


def mb_text(rng):
    """1..4 space separated words; at least one multi-byte scalar, widths drawn per character."""
    words = []
    for _ in range(rng.randint(1, 4)):
        if rng.random() < 0.35:
            words.append(rng.choice(MB_WORDS))
        else:
            words.append("".join(rng.choice(MB_CHARS[rng.choice([2, 3, 4])]) if rng.random() < 0.7
                                 else rng.choice("abcxyz019") for _ in range(rng.randint(1, 5))))
    if all(ord(c) < 128 for w in words for c in w):
        words.insert(rng.randint(0, len(words)), rng.choice(MB_CHARS[rng.choice([2, 3, 4])]))
    return " ".join(words)


def mb_comment(rng):
    return "/* %s */" % mb_text(rng)


def mb_log(rng):
    # ParseStatementLog with a STRING argument (r#""[^"]*""#): a statement of its own, no finding of its own
    return 'log("%s");' % mb_text(rng)


def decorate_definition(rng, text, p_line=0.5, p_space=0.06, p_break=0.05):
    """Puts block comments and `log("...")` statements that contain 2-, 3- and
    4-byte scalars in front of statements ON THE SAME LINE.  Only the text after
    the first `{` is touched (the header stays scannable by DEF_RE); a comment
    may replace any blank (the generated bodies contain no string literal), a
    log statement is put only at the start of a body line, which in the
    generated definitions is always the start of a statement of the body."""
    head, brace, body = text.partition("{")
    if not brace:
        return text
    out = []
    for n, line in enumerate(body.split("\n")):
        stripped = line.lstrip(" ")
        indent = line[:len(line) - len(stripped)]
        pieces = []
        for k, part in enumerate(stripped.split(" ")):
            if k and rng.random() < p_space:
                pieces.append(mb_comment(rng))
            if k and rng.random() < p_break:
                # third audit: a statement written over two lines, so that labels span lines (endLine != startLine);
                # the continuation line may start with multi-byte text (end column in characters vs bytes)
                pieces.append("\n" + indent + "      " + (mb_comment(rng) if rng.random() < 0.5 else ""))
            pieces.append(part)
        stripped = " ".join(pieces).replace(" \n", "\n")
        if n > 0 and indent and stripped and stripped != "}" and rng.random() < p_line:
            x = rng.random()
            pre = [mb_comment(rng)] if x < 0.55 else [mb_log(rng)] if x < 0.8 else \
                [mb_log(rng), mb_comment(rng)] if x < 0.9 else [mb_comment(rng), mb_log(rng)]
            stripped = " ".join(pre + [stripped])
        out.append(indent + stripped)
    return head + brace + "\n".join(out)


def decorate_structure(rng, st, p_project=0.65):
    """In a fraction of the generated projects every definition (user files and
    included files) is decorated; the others stay ASCII as before."""
    if rng.random() >= p_project:
        return False
    for f in st["files"]:
        f["defs"] = [(d[0], d[1], decorate_definition(rng, d[2])) + tuple(d[3:]) for d in f["defs"]]
    return True


def _mb_prefix_width(text_by_path, path, line, col):
    """Largest UTF-8 width (1 = ASCII only) among the characters in front of
    character column `col` (1-based) on line `line` of the file; None if unknown."""
    text = text_by_path.get(path)
    if text is None:
        return None
    lines = text.split("\n")
    if not 1 <= line <= len(lines):
        return None
    return max([len(c.encode("utf-8", "replace")) for c in lines[line - 1][:max(col - 1, 0)]] or [1])


def check_sarif_positions(projects, runs, fail, stats):
    """The property text directly, binary against itself: the k-th SARIF result
    and the k-th diagnostic on stdout are the same finding (lib/e2e.py judge
    reports a difference in level / id / message), so every `file:line:col`
    header codespan printed for it must be the start (startLine, startColumn) of
    the earliest region of the strongest kind (locations before relatedLocations)
    the SARIF result has in that file.  Start positions only: stdout does not
    show where a label ends; endLine/endColumn are compared by lib/e2e.py with the
    character position of the label's end computed in process."""
    for r in runs:
        doc = r.get("sarif_doc")
        if not r.get("sarif") or r.get("exit") not in (0, 1) or not doc or doc.get("bad"):
            continue
        diags = [e for e in r.get("events", []) if e[0] == "diag"]
        if len(diags) != len(doc["results"]):
            continue                               # reported by judge (SARIF results differ ...)
        p = projects[r["p"]]
        text_by_path = {os.path.join(p.dir, n): t for n, t in p.files.items()} if p.dir else {}
        what = []
        for e, x in zip(diags, doc["results"]):
            lev, rid, msg, locs, rel = x["tuple"]
            if lev != e[1] or (msg or "").split("\n")[0] != e[3]:
                break                              # not the same finding: judge reports it
            for h in e[4]:
                try:
                    path, line, col = h.rsplit(":", 2)
                    line, col = int(line), int(col)
                except ValueError:
                    continue
                uri = "file://" + path.replace('"', "")
                cands = [l for l in locs if l[0] == uri] or [l for l in rel if l[0] == uri]
                cands = [l for l in cands if isinstance(l[1], int) and isinstance(l[2], int)]
                stats["compared"] += 1
                w = _mb_prefix_width(text_by_path, path, line, col)
                if w and w > 1:
                    stats["multibyte"] += 1
                    stats["by_width"][w] = stats["by_width"].get(w, 0) + 1
                    stats["projects"].add(r["p"])
                if not cands:
                    what.append("finding %s displayed at %s has no SARIF region in that file" % (rid, h))
                    continue
                first = min(cands, key=lambda l: (l[1], l[2]))
                if (first[1], first[2]) != (line, col):
                    what.append("SARIF position differs from the displayed one: %s %s displayed at %s:%d:%d, SARIF region starts at "
                                "%d:%d (ends %s:%s)%s" % (lev, rid, os.path.basename(path), line, col, first[1], first[2], first[3], first[4],
                                                         "; multi-byte characters in front of it on the line" if w and w > 1 else ""))
        if what:
            what = what[:3]
            if r.get("fail"):
                r["fail"] += what                  # the same list object as the entry in `fail`
            else:
                r["fail"] = what
                fail.append({"run": e2e.run_brief(r), "project": p.describe(), "what": what})


EXPECTED_CONTEXT_METHODS = ["function", "is_function", "is_template", "template", "underlying_str"]


def _box_entries(body):
    """The arguments of the `Box::new( .. )` calls in the text (balanced parentheses, any number of lines)."""
    out = []
    for m in re.finditer(r"Box::new\(", body):
        depth, i = 1, m.end()
        while i < len(body) and depth:
            depth += {"(": 1, ")": -1}.get(body[i], 0)
            i += 1
        out.append(" ".join(body[m.end():i - 1].split()))
    return out


def pass_interface():
    """How a pass can see the runner, re-read from the current source: the
    methods of trait AnalysisContext, which entries of get_analysis_passes()
    ignore the context, and which context methods the others call.
    Returns (table, problems): problems is non-empty when the shape the model
    relies on (only `template` lookups reach the runner) no longer holds.
    Third audit (false alarms): an entry may be a path `module::function`, or a closure of any layout
    (`|_, cfg| m::f(cfg)`, `|_ctx, cfg| { m::f(cfg) }`, several lines); a closure ignores the context when its
    first parameter is `_` or does not occur in its body, otherwise the function it hands the context to is
    examined like a path entry. Methods added to the trait are recorded, not a problem by themselves: what a
    pass CALLS is what counts (and every lookup is recorded by the harness at run time)."""
    problems = []
    src = os.path.join(common.REPO, "program_analysis", "src")
    try:
        lib = open(os.path.join(src, "lib.rs")).read()
        trait = open(os.path.join(src, "analysis_context.rs")).read()
        body = lib[lib.index("pub fn get_analysis_passes"):]
        body = body[:body.index("\n}")]
        body = re.sub(r"//[^\n]*", "", body)
        entries = _box_entries(body)
        tbody = trait[trait.index("pub trait AnalysisContext"):]
        methods = sorted(set(re.findall(r"\bfn\s+(\w+)\s*[(<]", tbody)))
    except (OSError, ValueError) as e:
        return {}, ["cannot read the pass table: %s" % e]
    free, using = [], []          # using: (entry, module, function)
    for e in entries:
        m = re.match(r"(?:move\s+)?\|\s*(\w+)\s*(?::[^,|]*)?,\s*(\w+)\s*(?::[^|]*)?\|\s*(.*)$", e, re.S)
        if m:
            ctx_name, rest = m.group(1), m.group(3)
            if ctx_name == "_" or not re.search(r"\b%s\b" % re.escape(ctx_name), rest):
                free.append(e)
                continue
            c = re.search(r"(\w+)::(\w+)\s*\(", rest)
            if not c:
                problems.append("pass entry hands the context to something that is not `module::function(..)`: %s" % e)
                continue
            using.append((e, c.group(1), c.group(2)))
            continue
        m = re.match(r"(?:crate::|self::)?(\w+)::(\w+)$", e)
        if m:
            using.append((e, m.group(1), m.group(2)))
        else:
            problems.append("pass entry of unknown shape: %s" % e)
    calls = {}
    for e, module, _fn in using:
        try:
            text = open(os.path.join(src, module + ".rs")).read()
        except OSError:
            problems.append("module of pass %s not found" % e)
            continue
        text = re.sub(r"//[^\n]*", "", text)
        text = text.split("#[cfg(test)]")[0]          # the unit tests drive the pass with a runner of their own
        names = set(re.findall(r"(\w+)\s*:\s*&mut\s+(?:dyn|impl)\s+AnalysisContext", text))
        if not names:
            problems.append("pass %s: no `&mut dyn AnalysisContext` parameter found" % e)
        c = sorted({x for n in names for x in re.findall(r"\b%s\s*\.\s*(\w+)\s*\(" % re.escape(n), text)})
        calls[e] = c
        for n in names:       # the context must not travel further (a helper could call anything)
            uses = len(re.findall(r"\b%s\b" % re.escape(n), text))
            known = len(re.findall(r"\b%s\s*\.\s*\w+\s*\(" % re.escape(n), text)) \
                + len(re.findall(r"\b%s\s*:\s*&mut\s+(?:dyn|impl)\s+AnalysisContext" % re.escape(n), text))
            # fourth audit (false alarm): the context handed on as a bare argument to a function DEFINED IN THE SAME FILE is
            # fine — that helper's own `&mut dyn AnalysisContext` parameter is in `names` and its calls are examined too
            local_fns = set(re.findall(r"\bfn\s+(\w+)", text))
            for c2 in re.finditer(r"\b(\w+)\s*\(([^()]*)\)", text):
                if c2.group(1) in local_fns and re.search(r"(?:^|,)\s*%s\s*(?:,|$)" % re.escape(n), c2.group(2)):
                    known += 1
            if uses != known:
                problems.append("pass %s: `%s` occurs %d times, only %d are the parameter or a method call" % (e, n, uses, known))
        # is_function / is_template / underlying_str read the ASTs and the file library only (&self)
        unmirrored = [x for x in c if x not in ("template", "is_template", "is_function", "underlying_str")]
        if unmirrored:
            problems.append("pass %s calls context.%s (the model mirrors only template lookups)" % (e, unmirrored))
    missing = [m for m in EXPECTED_CONTEXT_METHODS if m not in methods]
    if missing:
        problems.append("trait AnalysisContext lacks the methods %s the model and the harness assume" % missing)
    if not entries or len(free) + len(using) + len([x for x in problems if "pass entry" in x]) != len(entries):
        problems.append("pass table not understood")
    # nobody else in the crate touches the context
    others = []
    for f in sorted(os.listdir(src)):
        if f.endswith(".rs") and f not in ("lib.rs", "analysis_context.rs", "analysis_runner.rs") \
                and f[:-3] not in [mod for _, mod, _ in using]:
            if "AnalysisContext" in open(os.path.join(src, f)).read():
                others.append(f)
    if others:
        problems.append("AnalysisContext is also used in %s" % others)
    return {"trait_methods": methods, "trait_methods_beyond_the_expected": [m for m in methods if m not in EXPECTED_CONTEXT_METHODS],
            "passes": len(entries), "context_free_passes": len(free),
            "context_using_passes": calls}, problems


def make_projects(ctx, base, n_lattice, n_sampled, big_counts=()):
    """Corpus first, then generated projects. Returns (projects, truths, lattice_idx, sampled_idx)."""
    projects = []
    for rec in e2e.load_corpus("C03"):
        p = e2e.project_from_description(rec)
        p.meta = {"corpus": rec["_file"], "expect": rec.get("expect", {})}
        projects.append(p)
    ncorpus = len(projects)
    # candidates: small ones for the full lattice, rich ones for sampled options
    cand = []
    for i in range(n_lattice * 4):
        st = e2e.gen_structure(ctx.rng, rich=False, extras=True)
        mb = decorate_structure(ctx.rng, st)
        cand.append(e2e.render_structure(st, tag="small%d" % i, meta={"user_defs": user_defs_of_structure(st), "multibyte": mb,
                                                                      "extras": st.get("extras", [])}))
    for i in range(n_sampled):
        st = e2e.gen_structure(ctx.rng, rich=True, extras=True)
        mb = decorate_structure(ctx.rng, st)
        cand.append(e2e.render_structure(st, tag="rich%d" % i, meta={"user_defs": user_defs_of_structure(st), "multibyte": mb,
                                                                     "extras": st.get("extras", [])}))
    # fourth audit: more than 64 files (a 64-bit set of file ids, a cap on the files read): 70 NAMED files with a finding
    # each (file ids 0..69 are user inputs), and one named file including 70 files with a finding each (ids 1..70 only included)
    def flagged(name):
        return "template %s(n) {\n    signal input in;\n    signal output out;\n    out <-- in * n;\n    out === in * n;\n}" % name
    st = {"files": [{"name": "u%02d.circom" % i, "user": True, "pragma": True, "includes": [], "defs": [("template", "U%02d" % i, flagged("U%02d" % i))],
                     "main": None} for i in range(70)]}
    cand.append(e2e.render_structure(st, tag="richmany-named", meta={"user_defs": user_defs_of_structure(st), "many_files": 70}))
    st = {"files": [{"name": "l%02d.circom" % i, "user": False, "pragma": True, "includes": [], "defs": [("template", "L%02d" % i, flagged("L%02d" % i))],
                     "main": None} for i in range(70)] +
                   [{"name": "top.circom", "user": True, "pragma": True, "includes": ["l%02d.circom" % i for i in range(70)],
                     "defs": [("template", "Top", flagged("Top"))], "main": None}]}
    cand.append(e2e.render_structure(st, tag="richmany-included", meta={"user_defs": user_defs_of_structure(st), "many_files": 71}))
    for i, (counts, extra) in enumerate(big_counts):
        st = big_structure(ctx.rng, counts, extra)
        cand.append(e2e.render_structure(st, tag="big%d" % i, meta={"user_defs": user_defs_of_structure(st), "big": list(counts)}))
    projects += cand
    for p in cand:
        # fourth audit: the named files spelled as relative paths on the command line of the binary
        x = ctx.rng.random()
        if x < 0.3 and "directory" not in p.meta.get("extras", []):
            p.meta["spelling"] = "rel" if x < 0.18 else "dot"
    for i, p in enumerate(projects):
        p.write(base, i)
    truths = [e2e.Truth(t) for t in e2e.ground_truth(projects)]
    lattice_idx, sampled_idx = [], []
    for i, (p, t) in enumerate(zip(projects, truths)):
        if t.bad:
            sampled_idx.append(i)
            continue
        ids = sorted({t.payload[q][0]["id"] for q in t.produced()})
        p.meta["ids"] = ids
        if i < ncorpus:
            (lattice_idx if len(ids) <= 6 else sampled_idx).append(i)
        elif p.tag.startswith("big"):
            pass                                   # run() gives them their own option sets
        elif p.tag.startswith("small"):
            if 3 <= len(ids) <= 6 and len([j for j in lattice_idx if j >= ncorpus]) < n_lattice:
                lattice_idx.append(i)
            elif len(sampled_idx) < n_sampled + ncorpus and len(ids) > 6:
                sampled_idx.append(i)
        else:
            sampled_idx.append(i)
    return projects, truths, lattice_idx, sampled_idx, ncorpus


STATS = {"excused": set()}


def def_ranges(project):
    """(kind, name) -> (file named on the command line, first byte, end byte) by a
    textual scan of the user files (the comments and log strings the generator
    writes never contain a definition header; offsets are counted in bytes)."""
    out = {}
    for a in named_files(project):
        text = project.files.get(a)
        if text is None:
            continue
        ms = list(DEF_RE.finditer(text))
        stop = text.find("component main")
        for j, m in enumerate(ms):
            end = ms[j + 1].start() if j + 1 < len(ms) else (stop if stop > m.start() else len(text))
            out[(m.group(1), m.group(2))] = (a, len(text[:m.start()].encode()), len(text[:end].encode()))
    return out


def reported_drops(project, truth):
    """The errors of the parser stage that are located in a user file: a
    definition may be missing from the library only if such an error (which
    conservation requires to be displayed) accounts for it.
    -> (set of (file, byte offset) of primary labels of error-level parser reports)"""
    locs = set()
    if truth.bad:
        return locs
    for r in truth.t["parse_reports"]:
        if r["level"] != "error":
            continue
        for l in r["primary"]:
            for a in named_files(project):
                if l.get("path") and os.path.abspath(l["path"]) == os.path.abspath(os.path.join(project.dir, a)):
                    locs.add((a, l["start"]))
    return locs


def judge_definitions(project, truth, want, got):
    """want: the (kind, name) pairs written into the user files (sorted list);
    got: definitions analysed (a list, possibly with repetitions).  Every
    written definition has to be analysed exactly once, unless the parser stage
    reported an error located inside that definition (it is dropped together
    with the error: syntax_sugar_remover.rs; a file that fails to parse is
    handled by not listing its definitions: the generator writes none, the
    corpus witnesses list theirs by hand); nothing else may be analysed.
    -> list of complaints"""
    what = []
    extra = sorted({x for x in got if x not in want})
    twice = sorted({x for x in got if got.count(x) > 1})
    missing = [x for x in want if x not in got]
    if missing:
        ranges = def_ranges(project)
        locs = reported_drops(project, truth)
        unexcused = []
        for x in missing:
            if x not in ranges:
                unexcused.append(x)
                continue
            f, b, e = ranges[x]
            if any(lf == f and b <= off < e for lf, off in locs):
                STATS["excused"].add((project.tag, x, "error inside the definition"))
            else:
                unexcused.append(x)
        missing = unexcused
    if missing or extra or twice:
        what.append("not a permutation of the definitions of the user files: missing without a reported error %s, "
                    "not a user definition %s, twice %s" % (missing[:4], extra[:4], twice[:4]))
    return what


def check_user_definitions(projects, truths, indep, runs, fail):
    """Hypothesis `analysis_order` of the theorems, checked without trusting the
    binary's log or the definition set of the in-process parse.  Appends to
    `fail`; returns the number of runs checked."""
    static = {}
    for i, p in enumerate(projects):
        want = indep[i]
        if want is None:
            continue
        what = []
        t = truths[i]
        if not t.bad:
            tk = [(d["kind"], d["name"]) for d in t.defs if d["user"]]
            what += ["user definitions of the in-process parse: " + w for w in judge_definitions(p, t, want, tk)]
        if "user_defs" in p.meta:          # generated: the record and the text must agree (self-check of the generator)
            sc = sorted((k, n) for k, n in scan_user_defs(p))
            if sc != want:
                what.append("textual scan of the user files finds %s, the generator recorded %s" % (sc[:6], want[:6]))
        if what:
            static[i] = what
    checked = 0
    for r in runs:
        want = indep[r["p"]]
        if want is None:
            continue
        checked += 1
        what = list(static.pop(r["p"], []))
        if r.get("exit") in (0, 1):
            what += ["analysis order logged by the binary: " + w
                     for w in judge_definitions(projects[r["p"]], truths[r["p"]], want, e2e.analysis_order(r["events"]))]
        if what:
            if r.get("fail"):
                r["fail"] += what          # the same list object as the entry in `fail`
            else:
                r["fail"] = what
                fail.append({"run": e2e.run_brief(r), "project": projects[r["p"]].describe(), "what": what})
    return checked


def expected_order(project, truth, want, logged):
    """The order handed to the model: the logged one if it passes
    judge_definitions, otherwise the recorded definitions."""
    if want is None or not judge_definitions(project, truth, want, logged):
        return logged
    return list(want)


def run(ctx, proofs):
    quick = ctx.tier == "quick"
    STATS["excused"].clear()
    cli = common.build_cli()
    common.build_harness("e2e")
    common.build_model("e2e")
    base = e2e.scratch_dir("C03")
    try:
        n_lattice, n_sampled, n_opts = (40, 110, 6) if quick else (150, 1200, 10)
        # >= 256 displayed diagnostics: exactly 256, exactly 512, and a count in between
        big = [((256,), False), ((256, 256), False), ((ctx.rng.randint(257, 300),), True)]
        if not quick:
            big += [((255,), False), ((256, 256, 256), False), ((1024,), False), ((ctx.rng.randint(513, 700),), True)]
        projects, truths, lattice_idx, sampled_idx, ncorpus = make_projects(ctx, base, n_lattice, n_sampled, big)
        big_idx = [i for i, p in enumerate(projects) if p.tag.startswith("big")]
        indep = [independent_user_defs(p) for p in projects]
        iface, iface_problems = pass_interface()
        runs = []
        for i in big_idx:
            ids = projects[i].meta.get("ids", [])
            hist = {}
            for q in ([] if truths[i].bad else truths[i].produced()):
                k = truths[i].payload[q][0]["id"]
                hist[k] = hist.get(k, 0) + 1
            top = max(hist, key=hist.get) if hist else None
            allow_sets = []
            for a in ([], [x for x in ids if x != top], [top] if top else [], list(ids)):
                if a not in allow_sets:
                    allow_sets.append(a)
            for lv in e2e.LEVELS:
                for allow in allow_sets:
                    for vb in (False, True):
                        for sf in (False, True):
                            runs.append({"p": i, "level": lv, "allow": allow, "verbose": vb, "sarif": sf, "big": True})
        for i in lattice_idx:
            runs += e2e.lattice_runs(i, projects[i].meta["ids"])
            # third audit: --allow compares STRINGS — prefixes, case variants, the empty string, unknown ids hide nothing
            runs += e2e.near_miss_runs(i, projects[i].meta["ids"], ctx.rng, 6)
        for i in sampled_idx:
            runs += e2e.sampled_runs(i, projects[i].meta.get("ids", []), ctx.rng, n_opts)
            runs += e2e.near_miss_runs(i, projects[i].meta.get("ids", []), ctx.rng, 2)
        # corpus witnesses: the unfiltered run, repeated in fresh processes (hash orders)
        for i in range(ncorpus):
            for _ in range(8):
                runs.append({"p": i, "level": "info", "allow": [], "verbose": True, "sarif": True, "corpus": True})

        def order_hook(r, logged):
            # the model runs under the hypothesis `analysis_order`, established without the binary
            order = expected_order(projects[r["p"]], truths[r["p"]], indep[r["p"]], logged)
            if order is not logged:
                r["order_substituted"] = True
            return order
        dis, fail = e2e.evaluate(cli, projects, truths, runs, order_hook)
        order_checked = check_user_definitions(projects, truths, indep, runs, fail)
        pos_stats = {"compared": 0, "multibyte": 0, "by_width": {}, "projects": set()}
        check_sarif_positions(projects, runs, fail, pos_stats)
        # witnesses of the repaired defects must show their findings
        for r in runs:
            if r.get("corpus"):
                want = projects[r["p"]].meta["expect"].get("ids", [])
                got = {e[2] for e in r["events"] if e[0] == "diag"}
                miss = [w for w in want if w not in got]
                if miss and not r["fail"]:
                    fail.append({"run": e2e.run_brief(r), "project": projects[r["p"]].describe(),
                                 "what": ["regression witness %s: %s not displayed" % (projects[r["p"]].meta["corpus"], miss)]})
        # ---- coverage numbers
        nontrivial = set()
        id_hist, levels_seen, seg_orders = {}, set(), set()
        labelless = 0
        for r in runs:
            t = truths[r["p"]]
            if t.bad:
                continue
            prod = t.produced()
            kept = [p for p in prod if t.keep(p, r["level"], r["allow"])]
            if kept and len(kept) < len(prod):
                nontrivial.add((r["p"], r["level"], tuple(sorted(set(r["allow"])))))
            seg_orders.add((r["p"], tuple(e2e.analysis_order(r["events"]))))
        for t in truths:
            if t.bad:
                continue
            for p in t.produced():
                rr = t.payload[p][0]
                id_hist[rr["id"]] = id_hist.get(rr["id"], 0) + 1
                levels_seen.add(rr["level"])
                if not rr["pfiles"]:
                    labelless += 1
        # ---- third audit: what the generator reached (shapes no project had before), counted on the ground truth
        shape = {"labels_positioned_independently": 0, "labels_positioned_by_the_in_process_value": 0,
                 "independent_position_differs_from_in_process": 0, "multi_line_labels": 0,
                 "labels_with_multibyte_text_inside_their_range": 0, "reports_with_two_or_more_primary_labels": 0,
                 "reports_located_in_a_user_file_and_an_included_file": 0, "two_label_reports_located_solely_in_included_files": 0,
                 "secondary_labels": 0, "secondary_labels_in_another_file_than_the_primary": 0,
                 "primary_file_ids_compared_with_the_primary_labels": 0, "extras": {}}
        for i, t in enumerate(truths):
            for x in projects[i].meta.get("extras", []):
                shape["extras"][x] = shape["extras"].get(x, 0) + 1
            if t.bad:
                continue
            t.pfile_problems()
            shape["primary_file_ids_compared_with_the_primary_labels"] += getattr(t, "pfiles_compared", 0)
            for rr, _ in t.payload:
                for l in rr["primary"] + rr["secondary"]:
                    t.label_pos(l)
                files = {l["file"] for l in rr["primary"]}
                if len(rr["primary"]) >= 2:
                    shape["reports_with_two_or_more_primary_labels"] += 1
                    if files and not (files & set(t.user_files)):
                        shape["two_label_reports_located_solely_in_included_files"] += 1
                if files & set(t.user_files) and files - set(t.user_files):
                    shape["reports_located_in_a_user_file_and_an_included_file"] += 1
                shape["secondary_labels"] += len(rr["secondary"])
                shape["secondary_labels_in_another_file_than_the_primary"] += sum(1 for l in rr["secondary"] if l["file"] not in files)
            ps = getattr(t, "pos_stats", None) or {}
            shape["labels_positioned_independently"] += ps.get("independent", 0)
            shape["labels_positioned_by_the_in_process_value"] += ps.get("fallback", 0)
            shape["independent_position_differs_from_in_process"] += ps.get("differs_from_in_process", 0)
            shape["multi_line_labels"] += ps.get("multiline", 0)
            shape["labels_with_multibyte_text_inside_their_range"] += ps.get("multibyte_inside", 0)
        body = {"diagnostics_whose_body_was_compared": 0, "with_a_secondary_label": 0, "with_notes": 0, "unparsed_body_lines": 0,
                "runs_compared": 0, "verbose_runs_compared": 0}
        for r in runs:
            bs = r.get("body_stats")
            if bs:
                body["runs_compared"] += 1
                body["verbose_runs_compared"] += int(bool(r["verbose"]))
                body["diagnostics_whose_body_was_compared"] += bs["compared"]
                body["with_a_secondary_label"] += bs["with_secondary"]
                body["with_notes"] += bs["with_notes"]
                body["unparsed_body_lines"] += bs["unparsed_lines"]
        shape["diagnostic_bodies"] = body
        shape["runs_with_relative_spellings_of_the_named_files"] = len([r for r in runs if r.get("path_prefix")])
        shape["runs_with_one_letter_options"] = len([r for r in runs if r.get("short")])
        shape["runs_naming_the_curve"] = len([r for r in runs if r.get("curve")])
        near = [r for r in runs if r.get("near_miss")]
        near_nontrivial = 0
        for r in near:
            t = truths[r["p"]]
            if not t.bad and any(t.keep(q, r["level"], r["allow"]) for q in t.produced()):
                near_nontrivial += 1
        shape["near_miss_allow_runs"] = len(near)
        shape["near_miss_allow_runs_with_something_displayed"] = near_nontrivial
        shape["near_miss_allow_samples"] = [r["allow"] for r in near[:: max(1, len(near) // 6)]][:6]
        bad_truth = [projects[i].tag for i, t in enumerate(truths) if t.bad]
        big_counts = {}
        for r in runs:
            if r.get("big"):
                n = len([e for e in r["events"] if e[0] == "diag"])
                if n >= 255:
                    big_counts[n] = big_counts.get(n, 0) + 1
        function_lookups = [(projects[i].tag, d["name"]) for i, t in enumerate(truths) if not t.bad
                            for d in t.t["defs"] for l in (d.get("lookups") or []) if l.get("kind") != "template"]
        no_indep = [projects[i].tag for i in range(len(projects)) if indep[i] is None]
        # ---- verdict
        for f in fail[:5]:
            ctx.violation("output contract violated: " + "; ".join(f["what"])[:400],
                          {"input": f["project"], "project": f["project"], "run": f["run"], "impl": f["what"],
                           "spec": "displayed = kept produced findings (each once); exit 0 iff nothing displayed; summary = count; SARIF = displayed"})
        if not fail:
            if dis:
                d = dis[0]
                ctx.violation("correspondence Model.Runner vs the circomspect binary broken (%d runs, first: %s); "
                              "the property text held on every explored run" % (len(dis), "; ".join(d["what"])[:300]),
                              {"broken": "correspondence e2e (Model.Runner.run_keys)", "first": d, "count": len(dis),
                               "project": d["project"], "run": d["run"]}, no_input=True)
            elif proofs["failures"]:
                ctx.violation("proof obligations of C03 no longer check: " + "; ".join(proofs["failures"])[:500],
                              {"broken": "props/C03.v", "failures": proofs["failures"]}, no_input=True)
            elif iface_problems:
                ctx.violation("the interface between the analysis passes and the runner is no longer the one Model.Runner mirrors: "
                              + "; ".join(iface_problems)[:400],
                              {"broken": "assumption `a pass sees the runner only through context.template` (Model.Runner.lookup, "
                                         "harness/src/bin/e2e.rs Ctx)", "problems": iface_problems, "table": iface}, no_input=True)
            elif function_lookups:
                ctx.violation("a pass looked a function up through the context (%s); Model.Runner mirrors template lookups only"
                              % function_lookups[:3], {"broken": "Model.Runner.lookup", "lookups": function_lookups[:20]}, no_input=True)
            elif no_indep:
                ctx.violation("no independent record of the user definitions for %s" % no_indep[:5],
                              {"broken": "corpus/C03 expect.user_defs / generator record"}, no_input=True)
            elif 256 not in big_counts or 512 not in big_counts or not [n for n in big_counts if n > 256 and n % 256]:
                ctx.violation("generator degenerate: no run with exactly 256 / exactly 512 / another count above 256 displayed "
                              "diagnostics (counts seen: %s)" % sorted(big_counts),
                              {"broken": "big_structure of lib/props/C03.py"}, no_input=True)
            elif pos_stats["multibyte"] < 200 or sorted(pos_stats["by_width"]) != [2, 3, 4] or len(pos_stats["projects"]) < 20:
                ctx.violation("generator degenerate: only %d displayed positions (in %d projects, widths %s) with multi-byte characters "
                              "in front of them on the line were compared with their SARIF regions"
                              % (pos_stats["multibyte"], len(pos_stats["projects"]), sorted(pos_stats["by_width"])),
                              {"broken": "decorate_structure of lib/props/C03.py"}, no_input=True)
            elif (shape["multi_line_labels"] < 20 or shape["labels_with_multibyte_text_inside_their_range"] < 50
                  or shape["reports_with_two_or_more_primary_labels"] < 5
                  or shape["reports_located_in_a_user_file_and_an_included_file"] < 1
                  or shape["extras"].get("minus-L", 0) < 3 or shape["extras"].get("directory", 0) < 3
                  or near_nontrivial < 50 or body["with_a_secondary_label"] < 100 or body["with_notes"] < 1000
                  or body["verbose_runs_compared"] < 100 or body["unparsed_body_lines"] > 0 or shape["labels_positioned_independently"] < 10 * max(1, shape["labels_positioned_by_the_in_process_value"])):
                ctx.violation("generator degenerate (shapes added after the third audit): %s" % {k: v for k, v in shape.items() if k != "near_miss_allow_samples"},
                              {"broken": "add_extras of lib/e2e.py / decorate_definition of lib/props/C03.py", "shapes": shape}, no_input=True)
            elif len(lattice_idx) - ncorpus < n_lattice // 2 or len(id_hist) < 10 or len(levels_seen) < 3 or not labelless:
                ctx.violation("generator degenerate: %d lattice projects, %d ids, levels %s, %d label-less reports"
                              % (len(lattice_idx), len(id_hist), sorted(levels_seen), labelless),
                              {"broken": "project generator of lib/e2e.py"}, no_input=True)
        sample_runs = [r for r in runs if not truths[r["p"]].bad][:: max(1, len(runs) // 3)][:3]
        ctx.coverage.update({
            "evaluations": len(runs),
            "distinct_nontrivial": len(nontrivial),
            "rule": "one evaluation = one run of the real binary compared with the extracted Model.Runner (displayed sequence per "
                    "definition segment, exit, summary, SARIF results and rules, 'Result written' message) and with the property text; "
                    "distinct-nontrivial = distinct (project, level, allow-set) points at which some but not all produced findings are kept",
            "exhaustive": False,
            "exhaustive_part": "full option lattice (3 levels x every allow-subset of the occurring ids x verbose x sarif) on %d projects "
                               "with <= 6 occurring ids (incl. %d regression witnesses)" % (len(lattice_idx), len([i for i in lattice_idx if i < ncorpus])),
            "projects": len(projects), "lattice_projects": len(lattice_idx), "sampled_projects": len(sampled_idx),
            "distinct_analysis_orders_seen": len(seg_orders),
            "report_id_histogram": id_hist, "levels_seen": sorted(levels_seen), "label_less_reports": labelless,
            "projects_without_ground_truth": bad_truth,
            "analysis_order_checked_runs": order_checked,
            "analysis_order_check": "on every run the analysis order logged by the binary, and the user keys of the in-process parse, are "
                                    "compared with the (kind, name) pairs the generator wrote into the files named on the command line "
                                    "(corpus: expect.user_defs): each exactly once, nothing else; a written definition may be missing only "
                                    "if the parser stage reported an error located inside its text; the generator's record is cross-checked "
                                    "by a textual scan of the sources",
            "definitions_dropped_with_reported_error": [list(x) for x in sorted(STATS["excused"])][:20],
            "definitions_dropped_with_reported_error_count": len(STATS["excused"]),
            "runs_with_substituted_order": len([r for r in runs if r.get("order_substituted")]),
            "runs_by_displayed_count_255plus": {str(k): v for k, v in sorted(big_counts.items())},
            "pass_interface": iface,
            "projects_with_multibyte_text": len([p for p in projects if p.meta.get("multibyte")]),
            "sarif_vs_stdout_positions": {
                "rule": "per run with --sarif-file, per displayed diagnostic, per `file:line:col` header on stdout: compared with "
                        "startLine/startColumn of the earliest region of the k-th SARIF result in that file (start positions only; "
                        "end positions are compared with the in-process character position of the label's end by lib/e2e.py)",
                "compared": pos_stats["compared"],
                "with_multibyte_characters_before_the_position_on_its_line": pos_stats["multibyte"],
                "by_widest_preceding_scalar_utf8_bytes": {str(k): v for k, v in sorted(pos_stats["by_width"].items())},
                "projects_with_such_a_position": len(pos_stats["projects"]),
            },
            "shapes_reached": shape,
            "shapes_note": "no pass can put a secondary label into another file than the primary one (every add_secondary call site "
                           "passes the file id of the primary label's meta), so that shape is unreachable and its count is 0; a report "
                           "with two primary labels exists only for a duplicated definition (Merger::add_definitions)",
            "disagreements_model_vs_impl": len(dis), "spec_failures": len(fail),
            "samples": [{"argv": projects[r["p"]].argv, "options": {k: r[k] for k in ("level", "allow", "verbose", "sarif")},
                         "exit": r["exit"], "displayed": len([e for e in r["events"] if e[0] == "diag"])} for r in sample_runs],
        })
        ctx.assumptions += [
            "what the stages produce (parser reports, CFG/SSA reports and errors, pass reports, lookups) is ground truth collected in "
            "process by harness/src/bin/e2e.rs with its own AnalysisContext; that a pass's reports do not depend on the runner's cache "
            "state beyond `lookup succeeds iff the template lifts` is observed by the correspondence (and proved for the model: "
            "C17_lookup_result_is_lift_result)",
            "codespan rendering and clap are black boxes: stdout is parsed back into (severity, id, message, file:line:col headers)",
            "HashMap iteration orders are parameters of the model; the binary's actual analysis order is read from its log lines and "
            "used only after it was checked to be a permutation of the user definitions recorded by the generator (otherwise the "
            "recorded set is used and the run is a violation)",
            "that a pass sees the runner only through `context.template` is read off the source on every run (12 of 13 passes are "
            "closures `|_, cfg|` that drop the context; the 13th calls only `template`; trait AnalysisContext has 5 methods) and the "
            "harness records every lookup; that the CFG a lookup returns is the same whichever state the runner is in is observed "
            "(segment-wise comparison of the binary with the in-process ground truth, C17)",
            "SARIF serialisation failures (unwritable path) are outside the model",
        ]
    finally:
        shutil.rmtree(base, ignore_errors=True)


def replay(ctx, rep):
    if "project" not in rep:
        print("replay names a broken obligation, not an input:", rep.get("broken"))
        return 1
    cli = common.build_cli()
    base = e2e.scratch_dir("replay")
    try:
        p = e2e.project_from_description(rep["project"]).write(base, 0)
        t = e2e.Truth(e2e.ground_truth([p])[0])
        r = dict(rep.get("run") or {"level": "warning", "allow": [], "verbose": True, "sarif": True})
        r["p"] = 0
        r.pop("exit", None)
        indep = [independent_user_defs(p)]

        def order_hook(run, logged):
            return expected_order(p, t, indep[0], logged)
        dis, fail = e2e.evaluate(cli, [p], [t], [r], order_hook)
        check_user_definitions([p], [t], indep, [r], fail)
        pos_stats = {"compared": 0, "multibyte": 0, "by_width": {}, "projects": set()}
        check_sarif_positions([p], [r], fail, pos_stats)
        print("argv:", p.argv, "options:", {k: r[k] for k in ("level", "allow", "verbose", "sarif")})
        print("exit status:", r["exit"])
        shown = [e for e in r["events"] if e[0] == "diag"]
        for e in r["events"][:60]:
            print("  ", e)
        if len(r["events"]) > 60:
            print("   ... (%d events, %d diagnostics)" % (len(r["events"]), len(shown)))
        print("user definitions (independent record):", indep[0])
        print("analysis order logged by the binary  :", e2e.analysis_order(r["events"]))
        print("SARIF regions vs displayed positions: %d compared, %d with multi-byte characters in front on the line"
              % (pos_stats["compared"], pos_stats["multibyte"]))
        print("model disagreements:", dis[0]["what"] if dis else "none")
        print("property failures  :", fail[0]["what"] if fail else "none")
        return 1 if (dis or fail) else 0
    finally:
        shutil.rmtree(base, ignore_errors=True)
