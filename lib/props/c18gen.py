"""Generator of the C18 program matrix: sugar forms x positions x arities x
named/positional inputs, as Circom source text.  Every program is small: a
fixed prelude of callee templates (0..3 inputs, 0..3 outputs, one with a
parameter; written in the spellings that decide the recorded port order, see
PRELUDE / PORTS) and a function, then ONE definition (template `T` or function `g`)
whose body contains the position with the sugar form filled in."""

# The callee templates are written in the spellings that decide the recorded port order
# (template_data.rs `fill_inputs_and_outputs`): several symbols in one declaration (A2, A3,
# B22, B23), outputs declared before inputs (B22), ports declared under control flow (B12:
# both branches of an `if`, A3: a block), a tagged port (B10), an initialised output (A0).
# The DECLARED order is what PORTS below states (written down independently of any reader
# of the AST: oracle `port order` of lib/props/C18.py compares it with what TemplateData
# records); the e2e tables of C18.py wire inputs in this order.
PRELUDE = """pragma circom 2.0.0;
template A0() { signal output y <== 1; }
template A1() { signal input x1; signal output y; y <== x1; }
template A2() { signal input x1, x2; signal output y; y <== x1 + x2; }
template A3() { signal input x1; { signal input x2, x3; } signal output y; y <== x1 + x2 + x3; }
template B00() { var k = 0; }
template B10() { signal input {tg} x1; x1 === 0; }
template B12() { signal input x1; if (1 == 1) { signal output y1; } else { signal output y2; } y1 <== x1; y2 <== x1; }
template B22() { signal output y1, y2; signal input x1, x2; y1 <== x1; y2 <== x2; }
template B23() { signal input x1, x2; signal output y1, y2, y3; y1 <== x1; y2 <== x2; y3 <== x1; }
template P1(n) { signal input x1; signal output y; y <== x1 * n; }
function f1(x) { return x + 1; }
"""

# name -> (inputs, outputs) as (name, number of dimensions), in DECLARATION order
PORTS = {
    "A0": ([], [("y", 0)]), "A1": ([("x1", 0)], [("y", 0)]), "A2": ([("x1", 0), ("x2", 0)], [("y", 0)]),
    "A3": ([("x1", 0), ("x2", 0), ("x3", 0)], [("y", 0)]), "B00": ([], []), "B10": ([("x1", 0)], []),
    "B12": ([("x1", 0)], [("y1", 0), ("y2", 0)]), "B22": ([("x1", 0), ("x2", 0)], [("y1", 0), ("y2", 0)]),
    "B23": ([("x1", 0), ("x2", 0)], [("y1", 0), ("y2", 0), ("y3", 0)]), "P1": ([("x1", 0)], [("y", 0)]),
}

# ---- sugar forms: (label, text, class) -----------------------------------
# class: "tuple" | "anon" ; `a b c` are input signals, `v w` vars of the host

def anon_forms():
    F = []
    # positional, arities 0..3 (and wrong arities)
    F += [("A0pos", "A0()()"), ("A1pos", "A1()(a)"), ("A2pos", "A2()(a, b)"), ("A3pos", "A3()(a, b, c)"),
          ("A1few", "A1()()"), ("A2few", "A2()(a)"), ("A2many", "A2()(a, b, c)"), ("A0many", "A0()(a)")]
    # named, in order / permuted / with other operators / wrong names / missing / duplicated
    F += [("A1named", "A1()(x1 <== a)"),
          ("A2named", "A2()(x1 <== a, x2 <== b)"), ("A2perm", "A2()(x2 <== b, x1 <== a)"),
          ("A2ops", "A2()(x1 <-- a, x2 = b)"),
          ("A3named", "A3()(x1 <== a, x2 <== b, x3 <== c)"), ("A3perm", "A3()(x3 <== c, x1 <== a, x2 <== b)"),
          ("A2wrong", "A2()(x1 <== a, zz <== b)"), ("A3missing", "A3()(x1 <== a, x2 <== b)"),
          ("A2dup", "A2()(x1 <== a, x1 <== b)"), ("A2extra", "A2()(x1 <== a, x2 <== b, x3 <== c)")]
    # named inputs in every order for arities 2 and 3, with DIFFERENT operators on the
    # permuted positions (the operator belongs to the name, not to the position)
    import itertools
    ops2 = [("<--", "<=="), ("<==", "<--"), ("=", "<--")]
    for perm in itertools.permutations([("x1", "a"), ("x2", "b")]):
        for oi, ops in enumerate(ops2):
            byname = dict(zip(("x1", "x2"), ops))
            F.append(("A2p%s_o%d" % ("".join(n[1] for n, _ in perm), oi),
                      "A2()(%s)" % ", ".join("%s %s %s" % (n, byname[n], v) for n, v in perm)))
    ops3 = [("<--", "<==", "<=="), ("<==", "<--", "="), ("<==", "<==", "<--")]
    for perm in itertools.permutations([("x1", "a"), ("x2", "b"), ("x3", "c")]):
        for oi, ops in enumerate(ops3):
            byname = dict(zip(("x1", "x2", "x3"), ops))
            F.append(("A3p%s_o%d" % ("".join(n[1] for n, _ in perm), oi),
                      "A3()(%s)" % ", ".join("%s %s %s" % (n, byname[n], v) for n, v in perm)))
    F += [("B22perm_ops", "B22()(x2 <-- b, x1 <== a)"), ("B23perm_ops", "B23()(x2 <== b, x1 <-- a)")]
    # several outputs (tuple valued), none
    F += [("B00", "B00()()"), ("B10", "B10()(a)"), ("B12", "B12()(a)"), ("B22", "B22()(a, b)"),
          ("B22named", "B22()(x2 <== b, x1 <== a)"), ("B23", "B23()(a, b)")]
    # parameters, unknown template, parallel, nesting, sugar in parameters / inputs
    F += [("P1", "P1(2)(a)"), ("P1v", "P1(v + 1)(a)"), ("unknown", "Nope()(a)"),
          ("par", "parallel A1()(a)"), ("parP", "parallel P1(2)(a)"),
          ("nest", "A1()(A1()(a))"), ("nest2", "A2()(A1()(a), A0()())"), ("nestB", "A2()(B22()(a, b))"),
          ("inexpr", "A1()(a + 1)"), ("intuple", "A2()((a, b))"), ("intuple2", "A1()((a, b))"),
          ("paramtuple", "P1((1, 2))(a)"), ("paramanon", "P1(A0()())(a)"), ("inidx", "A1()(arr[A0()()])"),
          ("inop", "A1()(a + A0()())")]
    return [(l, t, "anon") for l, t in F]


def tuple_forms():
    F = [("t2", "(a, b)"), ("t3", "(a, b, c)"), ("t2e", "(a + 1, b * 2)"), ("tn", "((a, b), c)"), ("tn2", "(a, (b, c))"),
         ("tu", "(_, a)"), ("tnum", "(1, 2)"), ("tanon", "(A1()(a), b)"), ("tanon2", "(A0()(), A1()(b))"),
         ("tB", "(B12()(a), c)"), ("tidx", "(arr[0], arr[1])"), ("top", "(a, b + (a, c))")]
    return [(l, t, "tuple") for l, t in F]


FORMS = anon_forms() + tuple_forms()

# ---- positions: (label, statement text with {S}, allowed in function?) -----
POSITIONS = [
    ("sub_rhs_c", "o <== {S};"),
    ("sub_rhs_s", "o <-- {S};"),
    ("sub_rhs_v", "v = {S};"),
    ("sub_rev", "{S} ==> o;"),
    ("sub_rev_s", "{S} --> o;"),
    ("under", "_ <== {S};"),
    ("msub2_rhs", "(o, p) <== {S};"),
    ("msub3_rhs", "(o, p, q) <== {S};"),
    ("msub_under", "(o, _) <== {S};"),
    ("msub_var", "(v, w) = {S};"),
    ("msub_nested_lhs", "((o, p), q) <== {S};"),
    ("msub_rev", "{S} ==> (o, p);"),
    ("msub_lhs", "{S} <== (a, b);"),
    ("msub_lhs3", "{S} <== (a, b, c);"),
    ("msub_lhs_elem", "(o, {S}) <== (a, b);"),
    ("lhs_nontuple", "{S} <== a;"),
    ("decl_tuple_v", "var (x, y) = {S};"),
    ("decl_tuple_s", "signal (x, y) <== {S};"),
    ("decl_tuple_s3", "signal (x, y, z) <== {S};"),
    ("decl_tuple_1", "var (x) = {S};"),
    ("decl_tuple_c", "component (x, y) = {S};"),
    ("decl_init_v", "var x = {S};"),
    ("decl_init_s", "signal x <== {S};"),
    ("decl_init_s2", "signal x <-- {S};"),
    ("decl_init_c", "component x = {S};"),
    ("decl_init_v2", "var x = 1, y = {S};"),
    ("decl_dim_v", "var x[{S}];"),
    ("decl_dim_s", "signal x[{S}];"),
    ("decl_dim_t", "var (x[{S}], y) = (1, 2);"),
    ("if_cond", "if ({S}) {{ v = 1; }}"),
    ("if_cond_else", "if ({S}) {{ v = 1; }} else {{ v = 2; }}"),
    ("while_cond", "while ({S}) {{ v = v + 1; }}"),
    ("for_cond", "for (var i = 0; {S}; i++) {{ v = v + 1; }}"),
    ("for_init", "for (var i = {S}; i < 2; i++) {{ v = v + 1; }}"),
    ("for_step", "for (var i = 0; i < 2; i = {S}) {{ v = v + 1; }}"),
    ("lhs_idx", "arr[{S}] <== a;"),
    ("lhs_idx2", "arr2[0][{S}] <== a;"),
    ("lhs_idx_comp", "cs[{S}].x1 <== a;"),
    ("lhs_idx_v", "varr[{S}] = 1;"),
    ("rhs_idx", "o <== arr[{S}];"),
    ("rhs_idx_deep", "o <== a + arr[{S}];"),
    ("msub_lhs_idx", "(arr[{S}], p) <== (a, b);"),
    ("msub_rhs_idx", "(o, p) <== (arr[{S}], b);"),
    ("ceq_idx", "arr[{S}] === a;"),
    ("assert", "assert({S});"),
    ("assert_op", "assert({S} == 1);"),
    ("assert_idx", "assert(arr[{S}] == 1);"),
    ("log", "log({S});"),
    ("log_str", "log(\"s\", {S}, \"t\");"),
    ("log_op", "log(1 + {S});"),
    ("log_two", "log({S}, {S});"),
    ("log_tuple_op", "log((a, 1 + {S}));"),
    ("log_idx", "log(arr[{S}]);"),
    ("log_call", "log(f1({S}));"),
    ("ceq_l", "{S} === a;"),
    ("ceq_r", "a === {S};"),
    ("ceq_op", "a === 1 + {S};"),
    ("call_arg", "o <== f1({S});"),
    ("call_arg_v", "v = f1({S});"),
    ("tcall_param", "cc = P1({S});"),
    ("array", "varr = [{S}, 1];"),
    ("infix_l", "o <== {S} + 1;"),
    ("infix_r", "o <== a * {S};"),
    ("prefix", "o <== -{S};"),
    ("switch_c", "v = {S} ? 1 : 2;"),
    ("switch_t", "v = a ? {S} : 2;"),
    ("switch_f", "v = a ? 1 : {S};"),
    ("paren_par", "cc = parallel {S};"),
    ("stmt", "{S};"),
    ("loop_body", "for (var i = 0; i < 2; i++) {{ arr[i] <== {S}; }}"),
    ("loop_body_stmt", "for (var i = 0; i < 2; i++) {{ {S}; }}"),
    ("loop_msub", "for (var i = 0; i < 2; i++) {{ (arr[i], p) <== {S}; }}"),
    ("loop2_body", "for (var i = 0; i < 2; i++) {{ for (var j = 0; j < 2; j++) {{ arr2[i][j] <== {S}; }} }}"),
    ("while_body", "while (v < 2) {{ arr[v] <== {S}; v++; }}"),
    ("loop_assert", "for (var i = 0; i < 2; i++) {{ assert({S}); }}"),
    ("if_body", "if (v == 0) {{ o <== {S}; }}"),
    ("else_body", "if (v == 0) {{ o <== a; }} else {{ o <== {S}; }}"),
    ("if_in_loop", "for (var i = 0; i < 2; i++) {{ if (i == 0) {{ arr[i] <== {S}; }} }}"),
    ("block_body", "{{ o <== {S}; }}"),
    ("anon_input", "o <== A1()({S});"),
    ("anon_input2", "o <== A2()(a, {S});"),
    ("anon_named_input", "o <== A2()(x1 <== a, x2 <== {S});"),
    ("anon_param", "o <== P1({S})(a);"),
    ("tuple_elem", "(o, p) <== (a, {S});"),
    ("tuple_elem_nested", "(o, p, q) <== (a, (b, {S}));"),
    ("return", "return {S};"),
    ("return_op", "return 1 + {S};"),
]

HOST_T = """template T(n) {{
  signal input a;
  signal input b;
  signal input c;
  signal output o;
  signal output p;
  signal output q;
  signal arr[3];
  signal arr2[2][2];
  var v = 0;
  var w = 0;
  var varr[3];
  component cc;
  component cs[3];
  {BODY}
}}
"""

HOST_F = """function g(a, b, c) {{
  var o;
  var p;
  var q;
  var arr[3];
  var arr2[2][2];
  var v = 0;
  var w = 0;
  var varr[3];
  var cc;
  var cs[3];
  {BODY}
  return 0;
}}
"""

# sugar-free controls: (label, statement)
CONTROLS = [
    ("plain", "o <== a + b;"),
    ("plain_under", "_ <== a;"),
    ("plain_log", "log(\"x\", a, \"y\");"),
    ("plain_log_empty", "log();"),
    ("plain_logstr", "log(\"\");"),
    ("plain_lhs_num", "1 = 2;"),
    ("plain_lhs_op", "a + b = 3;"),
    ("plain_lhs_call", "f1(1) = 2;"),
    ("plain_lhs_arr", "[v, w] = [1, 2];"),
    ("plain_lhs_num_rev", "2 ==> 1;"),
    ("plain_lhs_in_loop", "for (var i = 0; i < 2; i++) {{ 1 = 2; }}".replace("{{", "{").replace("}}", "}")),
    ("plain_lhs_in_if", "if (v == 0) {{ v = 1; }} else {{ 1 = 2; }}".replace("{{", "{").replace("}}", "}")),
    ("plain_expr_stmt", "a + b;"),
    ("plain_call_stmt", "f1(1);"),
    ("plain_decl_multi", "var (x, y);"),
    ("plain_decl_1", "var (x) = 1;"),
    ("plain_parallel", "cc = parallel P1(2);"),
    ("plain_log_long", "log(\"" + "x" * 300 + "\", a);"),
    ("plain_log_long_utf8", "log(\"a" + "\u00e9" * 200 + "\", (a, b), \"" + "\u20ac" * 100 + "\");"),
    ("plain_log_460", "log(\"" + "y" * 460 + "\");"),
]


def program(host, body, extra="", prelude=None):
    h = HOST_T if host == "T" else HOST_F
    return (PRELUDE if prelude is None else prelude) + extra + h.format(BODY=body)


def matrix():
    """All (label, source) pairs of the exhaustive matrix."""
    out = []
    for hl in ("T", "F"):
        for pl, ptxt in POSITIONS:
            for fl, ftxt, _cls in FORMS:
                body = ptxt.format(S=ftxt)
                out.append(("%s/%s/%s" % (hl, pl, fl), program(hl, body)))
        for cl, ctxt in CONTROLS:
            out.append(("%s/control/%s" % (hl, cl), program(hl, ctxt)))
    # two sugared statements in one body, on one and on several lines, to
    # exercise declaration collection order and the generated names
    pairs = [("o <== A1()(a);", "p <== A2()(a, b);"), ("(o, p) <== B22()(a, b);", "q <== A1()(c);"),
             ("for (var i = 0; i < 2; i++) { arr[i] <== A1()(a); }", "o <== A1()(b);"),
             ("for (var i = 0; i < 2; i++) { arr[i] <== A1()(a); }", "for (var j = 0; j < 2; j++) { arr2[0][j] <== A1()(b); }"),
             ("o <== A1()(a); p <== A1()(b);", "q <== A1()(c);"),
             ("(o, p) <== (a, b);", "(q, _) <== (c, a);")]
    for i, (s1, s2) in enumerate(pairs):
        out.append(("T/pair/%d" % i, program("T", s1 + "\n  " + s2)))
        out.append(("T/pair1l/%d" % i, program("T", s1 + " " + s2)))
    return out


def escape(src):
    return src.replace("\\", "\\\\").replace("\n", "\\n")


def line_starts(src):
    """Byte offsets at which the lines of `src` start (what a source map is)."""
    b = src.encode()
    return [0] + [i + 1 for i, ch in enumerate(b) if ch == 10]


FILE_MARK = "\n//@@FILE "
PRELUDE_END = "function f1(x) { return x + 1; }\n"


def files_of(src):
    """The files a program text stands for, as the harness splits it: [(name, text)], the main file first."""
    parts = src.split(FILE_MARK)
    out = [("main.circom", parts[0] + "\n")] if len(parts) > 1 else [("main.circom", src)]
    for p in parts[1:]:
        name, _, text = p.partition("\n")
        out.append((name.strip(), text))
    return out


def starts_field(src):
    """Line starts of every file, files separated by `;` (file id = position: the order in which the front end
    meets them - the main file, then its includes depth first)."""
    return ";".join(",".join(map(str, line_starts(t))) for _n, t in files_of(src))


LIB_USER = ("template LibUser() {\n  signal input a;\n  signal output o[2];\n  signal output p;\n"
            "  for (var i = 0; i < 2; i++) { o[i] <== A1()(a); }\n  (p, _) <== (A1()(x1 <-- a), a);\n}\n")


def split_program(src, three=False):
    """The same program as a PROJECT: the callee templates (everything up to and including `f1`) move to
    `lib.circom`, which the main file includes; with three=True `f1` moves on to `fun.circom`, included by the
    library.  Anonymous components of the host then name templates of ANOTHER file, and generated names take their
    line from a file with id != 0 when the sugar sits in an included file (the callee templates are desugared too)."""
    at = src.find(PRELUDE_END)
    if at < 0 or FILE_MARK in src:
        return None
    lib, rest = src[:at + len(PRELUDE_END)], src[at + len(PRELUDE_END):]
    # a template WITH sugar in the included file: its generated names take their line from a file with id != 0
    lib = lib[:at] + LIB_USER + lib[at:]
    at += len(LIB_USER)
    head = "pragma circom 2.0.0;\n"
    main = head + 'include "lib.circom";\n' + rest
    if not three:
        return main.rstrip("\n") + FILE_MARK + "lib.circom\n" + lib
    fun = head + PRELUDE_END
    lib3 = lib[:at]
    # the include goes after the pragmas of the library file
    k = lib3.rfind("pragma ")
    k = lib3.find("\n", k) + 1 if k >= 0 else 0
    lib3 = lib3[:k] + 'include "fun.circom";\n' + lib3[k:]
    return main.rstrip("\n") + FILE_MARK + "lib.circom\n" + lib3.rstrip("\n") + FILE_MARK + "fun.circom\n" + fun
