"""Generator for C04: Circom projects built from TOKEN lists with recorded
construct spans, rendered with arbitrary trivia between the tokens (blanks,
tabs, LF / CRLF line ends, comments of every shape, multi-byte characters in
comments and string literals).  Because the generator knows where every token
starts and ends in the bytes it writes, it knows the byte range of every
statement, expression, declaration, parameter list and definition it wrote; the
oracle compares the labels of the findings with these ranges."""

# ----------------------------------------------------------------------------
# token trees
# ----------------------------------------------------------------------------


class Tok(str):
    """One token that must not be split at blanks (string literals, `pragma circom`)."""


class Span:
    def __init__(self, kind, names, items, **attrs):
        self.kind = kind
        self.names = set(names)
        self.items = items
        self.attrs = attrs
        self.start = None
        self.end = None

    def brief(self):
        return {"kind": self.kind, "names": sorted(self.names), "start": self.start, "end": self.end,
                **{k: v for k, v in self.attrs.items()}}


def S(kind, names, *items, **attrs):
    return Span(kind, names, list(items), **attrs)


def names_of(x):
    if isinstance(x, Span):
        return set(x.names)
    if isinstance(x, (list, tuple)):
        out = set()
        for y in x:
            out |= names_of(y)
        return out
    return set()


def flatten(x, out):
    if isinstance(x, Span):
        out.append(("open", x))
        for y in x.items:
            flatten(y, out)
        out.append(("close", x))
    elif isinstance(x, Tok):
        out.append(("tok", str(x)))
    elif isinstance(x, str):
        for t in x.split():
            out.append(("tok", t))
    elif isinstance(x, (list, tuple)):
        for y in x:
            flatten(y, out)
    elif x is None:
        pass
    else:
        raise TypeError(repr(x))
    return out


# ----------------------------------------------------------------------------
# trivia
# ----------------------------------------------------------------------------

BLOCK_COMMENTS = [
    "/**/", "/***/", "/****/", "/* x */", "/* x **/", "/** doc **/", "/*/ x */", "/*/*/", "/* // */", "/* /* */",
    "/*\"*/", "/*'*/", "/*a*b/c*/", "/* é */", "/* €\U0001F600 */", "/* ééé c <-- a; */",
    "/* 中文 */", "/*é*/", "/* signal input a; */", "/* } */", "/* include \"x\"; */", "/*\tü\t*/",
]
MULTILINE_COMMENTS = ["/* a@ b */", "/*@ é @*/", "/**@ * doc €@ **/", "/* c <-- a;@ d <-- b; */", "/*@@*/"]
LINE_COMMENTS = ["// x", "//", "///", "// é €", "//* x", "// /*", "// */", "// \"", "//**/ x", "// c <-- a;",
                 "// \U0001F600\U0001F600", "// }", "//\té"]
PUNCT = set("()[]{},;")

STYLES = ["plain", "tight", "ascii_comments", "multibyte", "crlf", "tabs", "mixed", "multibyte_crlf", "dense"]


class Trivia:
    def __init__(self, rng, style):
        self.r = rng
        self.style = style
        self.nl = "\r\n" if style in ("crlf", "multibyte_crlf") else "\n"
        self.stats = {"block": 0, "line": 0, "multiline": 0, "multibyte": 0, "crlf": 0, "tab": 0}

    def newline(self):
        if self.style == "mixed":
            nl = self.r.choice(["\n", "\r\n"])
        else:
            nl = self.nl
        if nl == "\r\n":
            self.stats["crlf"] += 1
        return nl

    def blank(self):
        r = self.r
        if self.style in ("tabs", "mixed", "dense") and r.random() < 0.4:
            self.stats["tab"] += 1
            return r.choice(["\t", "\t\t", " \t", "\t "])
        return r.choice([" ", " ", " ", "  ", "   "])

    def comment(self):
        r = self.r
        st = self.style
        if st in ("plain", "tight", "tabs"):
            return None
        pool_block = BLOCK_COMMENTS
        if st in ("ascii_comments", "crlf"):
            pool_block = [c for c in BLOCK_COMMENTS if c.isascii()]
        c = r.random()
        if c < 0.55:
            self.stats["block"] += 1
            s = r.choice(pool_block)
            kind = "block"
        elif c < 0.75:
            self.stats["multiline"] += 1
            s = r.choice(MULTILINE_COMMENTS)
            if st in ("ascii_comments", "crlf") and not s.isascii():
                s = "/* a@ b */"
            s = "".join(self.newline() if ch == "@" else ch for ch in s)
            kind = "block"
        else:
            self.stats["line"] += 1
            s = r.choice(LINE_COMMENTS)
            if st in ("ascii_comments", "crlf") and not s.isascii():
                s = "// x"
            kind = "line"
        if not s.isascii():
            self.stats["multibyte"] += 1
        return kind, s

    def between(self, prev, nxt, want_newline):
        """Trivia between two tokens; never empty unless gluing is lexically safe."""
        r = self.r
        st = self.style
        out = ""
        pc = {"plain": 0.0, "tight": 0.0, "tabs": 0.0, "ascii_comments": 0.18, "multibyte": 0.2, "crlf": 0.1,
              "mixed": 0.2, "multibyte_crlf": 0.25, "dense": 0.6}[st]
        if prev is None:
            # file start
            while r.random() < (pc + 0.15 if st not in ("plain", "tight", "tabs") else 0.0):
                c = self.comment()
                if c is None:
                    break
                out += c[1] + (self.newline() if c[0] == "line" or r.random() < 0.6 else self.blank())
            return out
        if st == "tight" and (prev[-1] in PUNCT or nxt[0] in PUNCT) and not want_newline:
            return ""
        n = 0
        # a `/` token directly followed by a comment would become a comment opener itself
        out = self.blank() if (r.random() < 0.8 or prev[-1] == "/") else ""
        while r.random() < pc and n < 3:
            c = self.comment()
            if c is None:
                break
            n += 1
            out += c[1]
            if c[0] == "line":
                out += self.newline()
                if r.random() < 0.5:
                    out += self.blank()
            elif r.random() < 0.5:
                out += self.blank()
        if want_newline or (st != "tight" and r.random() < 0.04):
            out += self.newline() + r.choice(["", "  ", "    ", "\t"] if st in ("tabs", "mixed", "dense") else ["", "  ", "    "])
        if out == "":
            out = " "
        # a block comment directly followed by the next token is a legal separator; make sure
        # that the last character is not one that could glue to the next token
        return out


# scalars that editors / copy-paste put into source files: a byte order mark, blanks that are
# Unicode White_Space but not ASCII, a zero width space.  Whatever the tool does with them
# (reject at a valid location, or accept) every label must be a position of the ORIGINAL bytes.
EXOTIC = {
    "bom": "\ufeff", "nbsp": "\u00a0", "ls": "\u2028", "zwsp": "\u200b", "ideographic": "\u3000",
    "emspace": "\u2003", "nel": "\u0085",
}
EXOTIC_KINDS = ["bom0", "bom0", "bom0", "bom0_crlf", "bom0_lib", "nbsp0", "ls0", "zwsp0", "ideographic0",
                "nbsp_mid", "ls_mid", "zwsp_mid", "bom_mid", "ideographic_mid", "emspace_mid", "nel_mid"]


def render(tree, rng, style, prefix="", mid=None):
    """-> (text, spans) — spans get .start/.end as BYTE offsets of the text.  `prefix` is put at
    offset 0 of the file; `mid` (a scalar) is put once into the trivia between two tokens."""
    ev = flatten(tree, [])
    tv = Trivia(rng, style)
    ntok = sum(1 for k, _ in ev if k == "tok")
    mid_at = rng.randrange(1, max(2, ntok)) if mid else None
    itok = 0
    out = [prefix]
    pos = len(prefix.encode())          # byte position
    prev = None
    pending = []
    open_empty = []
    spans = []
    last_end = 0
    for kind, x in ev:
        if kind == "open":
            pending.append(x)
            spans.append(x)
        elif kind == "close":
            if x in pending:       # a span without tokens
                pending.remove(x)
                x.start = x.end = None
                if x.kind == "params":
                    # an empty parameter list: `<args:@L> .. <arge:@R>` of the grammar is the stretch from the end of `(`
                    # to the start of `)` (blanks and comments between the parentheses included)
                    x.start = last_end
                    open_empty.append(x)
            else:
                x.end = last_end
        else:
            want_nl = prev is not None and (prev in (";", "{", "}") and rng.random() < 0.7) and style != "tight"
            t = tv.between(prev, x, want_nl)
            if mid_at is not None and itok == mid_at:
                k = rng.randrange(len(t) + 1)
                t = t[:k] + mid + t[k:] if not t.lstrip(" \t\r\n") else t + mid + " "
            itok += 1
            out.append(t)
            pos += len(t.encode())
            for sp in open_empty:
                sp.end = pos
            open_empty = []
            for sp in pending:
                sp.start = pos
            pending = []
            out.append(x)
            pos += len(x.encode())
            last_end = pos
            prev = x
    tail = rng.choice(["", tv.newline(), tv.newline() + tv.newline(), " "])
    if style not in ("plain", "tight", "tabs") and rng.random() < 0.3:
        c = tv.comment()
        if c:
            tail += c[1] + (tv.newline() if c[0] == "line" and rng.random() < 0.7 else "")
    out.append(tail)
    return "".join(out), spans, tv.stats


# ----------------------------------------------------------------------------
# expressions and statements (token level)
# ----------------------------------------------------------------------------

CMP_OPS = ["<", ">", "<=", ">="]
ARITH_FIELD_OPS = ["\\", "%", ">>", "<<", "&", "|", "^"]
PLAIN_OPS = ["+", "-", "*"]


def var(name, *idx):
    items = [name]
    for i in idx:
        items += ["[", i, "]"]
    return S("expr", {name} | names_of(list(idx)), *items, op="var")


def num(n):
    return S("expr", (), str(n), op="num")


def infix(op, l, r):
    return S("expr", names_of([l, r]), l, op, r, op=op)


def prefix(op, e):
    return S("expr", names_of(e), op, e, op="pre" + op)


def paren(e):
    return ["(", e, ")"]


def call(name, *args):
    items = [name, "("]
    for i, a in enumerate(args):
        if i:
            items.append(",")
        items.append(a)
    items.append(")")
    attrs = {}
    if len(args) == 1:
        a = args[0]
        # the size handed to Num2Bits / Bits2Num: a constant, or None = not a constant (a template parameter)
        attrs["bits"] = int(a.items[0]) if isinstance(a, Span) and a.attrs.get("op") == "num" else None
    return S("expr", names_of(list(args)), *items, op="call", callee=name, **attrs)


def ternary(c, a, b):
    return S("expr", names_of([c, a, b]), c, "?", a, ":", b, op="?:")


def cond(c):
    """The condition of an if / loop: parentheses are not part of the expression node."""
    if isinstance(c, list) and len(c) == 3 and c[0] == "(" and c[2] == ")":
        return ["(", cond(c[1]), ")"]
    return S("cond", names_of(c), c)


def stmt(kind, names, *items, **attrs):
    """A simple statement: the span excludes the terminating `;`."""
    return [S(kind, names, *items, **attrs), ";"]


class Gen:
    def __init__(self, rng):
        self.r = rng
        self.n = 0
        self.features = set()
        self.lib_templates = []      # (name, [output signals]) of templates of the included file that may be instantiated

    def fresh(self, base):
        self.n += 1
        return "%s%d" % (base, self.n)

    # -- expression over given atoms (names) --
    def expr(self, atoms, depth=2, ops=None):
        r = self.r
        if depth <= 0 or r.random() < 0.35:
            if atoms and r.random() < 0.75:
                return var(r.choice(atoms))
            return num(r.choice([0, 1, 2, 3, 7, 255]))
        op = r.choice(ops or PLAIN_OPS)
        l = self.expr(atoms, depth - 1, ops)
        rr = self.expr(atoms, depth - 1, ops)
        if r.random() < 0.3:
            l = paren(l)
        if r.random() < 0.3:
            rr = paren(rr)
        return infix(op, l, rr)

    # ------------------------------------------------------------------
    # template idioms: each returns (decl_items, body_items) token trees
    # ------------------------------------------------------------------
    def idiom_sigassign(self, env):
        r = self.r
        a, b = env["in"]
        c = self.fresh("c")
        kind = r.choice(["output", ""])
        decl = stmt("decl", {c}, "signal", kind, c, sig=True)
        form = r.choice(["quad", "div", "cmp", "plain", "rev", "shift"])
        if form == "quad":
            rhs = infix("*", var(a), var(b))
        elif form == "div":
            rhs = infix("/", var(a), var(b))
        elif form == "cmp":
            rhs = infix(r.choice(CMP_OPS), var(a), var(b))
        elif form == "shift":
            rhs = infix(">>", var(a), num(1))
        else:
            rhs = self.expr([a, b], 2)
        if form == "div":
            rhs.items[-1].attrs["top_divisor"] = True       # the divisor of the top-level `/` of a `<--` right-hand side
        if form == "rev" or r.random() < 0.2:
            st = stmt("assign", {c}, rhs, "-->", var(c), target=c)
        else:
            st = stmt("assign", {c}, var(c), "<--", rhs, target=c)
        body = [st]
        if r.random() < 0.5:
            body.append(stmt("ceq", {c, a}, infix("*", var(c), var(b)), "===", var(a)))
        self.features.add("sigassign-" + form)
        return [decl], body

    def idiom_array_assign(self, env):
        r = self.r
        a, b = env["in"]
        c = self.fresh("arr")
        n = env["params"][0] if env["params"] else None
        decl = stmt("decl", {c}, "signal", "output", c, "[", num(2), "]", sig=True)
        i = self.fresh("i")
        st = stmt("assign", {c}, var(c, var(i)), "<--", infix("+", var(a), var(i)), target=c)
        init = S("decl", {i}, "var", i, "=", num(0))
        cond = S("cond", {i}, infix("<", var(i), num(2)))
        step = S("vassign", {i}, i, "++", target=i)
        body = ["for", "(", init, ";", cond, ";", step, ")", "{", st, "}"]
        self.features.add("array-assign-in-loop")
        return [decl], [body]

    def idiom_shadow(self, env):
        r = self.r
        v = self.fresh("v")
        atoms = env["params"] + env["in"]
        outer = stmt("decl", {v}, "var", v, "=", self.expr(atoms, 1))
        inner = stmt("decl", {v}, "var", v, "=", self.expr(atoms, 1))
        use = []
        if r.random() < 0.5:
            use = [stmt("vassign", {v}, v, "+=", num(1), target=v)]
        p = env["params"][0] if env["params"] else None
        cond = S("cond", (), infix("<", var(p), num(3)) if p else infix("==", num(1), num(1)))
        if r.random() < 0.5:
            body = ["if", "(", cond, ")", "{", inner, use, "}"]
        else:
            i = self.fresh("i")
            init = S("decl", {i}, "var", i, "=", num(0))
            c2 = S("cond", {i}, infix("<", var(i), num(2)))
            step = S("vassign", {i}, i, "++", target=i)
            body = ["for", "(", init, ";", c2, ";", step, ")", "{", inner, use, "}"]
        self.features.add("shadow")
        return [], [outer, body]

    def idiom_shadow_param(self, env):
        if not env["params"]:
            return [], []
        p = self.r.choice(env["params"])
        inner = stmt("decl", {p}, "var", p, "=", num(1))
        self.features.add("shadow-param")
        return [], [["if", "(", S("cond", (), infix("==", num(2), num(2))), ")", "{", inner, "}"]]

    def idiom_const_cond(self, env):
        r = self.r
        v = self.fresh("k")
        c = r.choice([infix("==", num(1), num(1)), infix("<", num(2), num(1)), num(0), num(1),
                      infix("==", infix("+", num(1), num(1)), num(2)), paren(infix("!=", num(3), num(3)))])
        decl = stmt("decl", {v}, "var", v, "=", num(0))
        body = ["if", "(", cond(c), ")", "{", stmt("vassign", {v}, v, "=", num(1), target=v), "}"]
        if r.random() < 0.4:
            body += ["else", "{", stmt("vassign", {v}, v, "=", num(2), target=v), "}"]
        self.features.add("const-cond")
        return [], [decl, body]

    def idiom_field_ops(self, env):
        r = self.r
        a, b = env["in"]
        v = self.fresh("t")
        which = r.choice(["cmp", "arith", "compl", "ternary"])
        if which == "cmp":
            e = infix(r.choice(CMP_OPS), var(a), self.expr([b], 1))
        elif which == "arith":
            e = infix(r.choice(ARITH_FIELD_OPS), var(a), num(r.choice([1, 2, 3])))
        elif which == "compl":
            e = prefix("~", var(a))
        else:
            e = ternary(paren(infix("<", var(a), var(b))), var(a), var(b))
        self.features.add("fieldop-" + which)
        return [], [stmt("decl", {v}, "var", v, "=", e)]

    def idiom_unused(self, env):
        r = self.r
        v = self.fresh("u")
        w = self.fresh("w")
        form = r.choice(["single", "double", "reassign"])
        self.features.add("unused-" + form)
        if form == "single":
            return [], [stmt("decl", {v}, "var", v, "=", num(3))]
        if form == "double":
            return [], [stmt("decl", {v, w}, "var", v, "=", num(3), ",", w, "=", num(4))]
        return [], [stmt("decl", {v}, "var", v, "=", num(3)), stmt("vassign", {v}, v, "=", num(5), target=v)]

    def tags(self, p=0.2):
        """an optional tag list `{binary}` / `{t1, t2}` of a signal declaration (tokens)"""
        if self.r.random() >= p:
            return []
        self.features.add("signal-tags")
        return self.r.choice([["{", "binary", "}"], ["{", "t1", ",", "t2", "}"], ["{", "maxbit", "}"]])

    def idiom_complex(self, env):
        """more than 20 decision points: CS0011 (cyclomatic complexity), a finding without a label"""
        k = self.fresh("cx")
        p = env["params"][0] if env["params"] else None
        out = [stmt("decl", {k}, "var", k, "=", num(0))]
        for i in range(self.r.choice([21, 22, 25])):
            c = infix("==", var(p), num(i)) if p else infix("==", num(i), num(3))
            out.append(["if", "(", cond(c), ")", "{", stmt("vassign", {k}, k, "=", num(i), target=k), "}"])
        self.features.add("complex")
        return [], out

    def idiom_unconstrained_signal(self, env):
        r = self.r
        q = self.fresh("q")
        form = r.choice(["inter", "input", "array", "two"])
        self.features.add("signal-decl-" + form)
        if form == "inter":
            return [stmt("decl", {q}, "signal", self.tags(0.4), q, sig=True)], []
        if form == "input":
            return [stmt("decl", {q}, "signal", "input", q, sig=True)], []
        if form == "array":
            return [stmt("decl", {q}, "signal", self.tags(0.4), q, "[", num(3), "]", sig=True)], []
        q2 = self.fresh("q")
        return [stmt("decl", {q, q2}, "signal", q, ",", q2, sig=True)], []

    def idiom_under_constrained(self, env):
        a, b = env["in"]
        m = self.fresh("m")
        decl = stmt("decl", {m}, "signal", m, sig=True)
        st = stmt("cassign", {m}, var(m), "<==", infix("*", var(a), var(b)), target=m)
        self.features.add("under-constrained")
        return [decl], [st]

    def idiom_component(self, env):
        r = self.r
        a, b = env["in"]
        which = r.choice(["Num2Bits", "LessThan", "Bits2Num", "Sign"])
        c = self.fresh("cmp")
        self.features.add("component-" + which)
        env["needs"].add(which)
        if which == "Num2Bits":
            cl = call("Num2Bits", num(r.choice([254, 8])))
            cl.attrs["out_read"] = False
            d = stmt("decl", {c}, "component", c, "=", cl)
            va = var(a)
            va.attrs.update(role="n2b_input", value=a, bits=cl.attrs["bits"])
            return [], [d, stmt("cassign", {c}, var(c), ".", "in", "<==", va, target=c)]
        if which == "Bits2Num":
            cl = call("Bits2Num", num(254))
            cl.attrs["out_read"] = False
            d = stmt("decl", {c}, "component", c, "=", cl)
            return [], [d, stmt("cassign", {c}, var(c), ".", "in", "[", num(0), "]", "<==", var(a), target=c)]
        if which == "Sign":
            cl = call("Sign")
            cl.attrs["out_read"] = False
            d = stmt("decl", {c}, "component", c)
            return [], [d, stmt("vassign", {c}, c, "=", cl, target=c),
                        stmt("cassign", {c}, var(c), ".", "in", "<==", var(a), target=c)]
        cl = call("LessThan", num(8))
        cl.attrs["out_read"] = True
        d = stmt("decl", {c}, "component", c, "=", cl)
        o = self.fresh("lo")
        va, vb = var(a), var(b)
        va.attrs.update(role="lt_input", value=a)
        vb.attrs.update(role="lt_input", value=b)
        return [stmt("decl", {o}, "signal", "output", o, sig=True)], [
            d,
            stmt("cassign", {c}, var(c), ".", "in", "[", num(0), "]", "<==", va, target=c),
            stmt("cassign", {c}, var(c), ".", "in", "[", num(1), "]", "<==", vb, target=c),
            stmt("cassign", {o}, var(o), "<==", var(c), ".", "out", target=o)]

    def lib_out_template(self):
        """A template for the INCLUDED file with two output signals, built from token trees so that every construct's
        byte range in that file is recorded."""
        name = self.fresh("XOut")
        o1, o2 = self.fresh("xo"), self.fresh("xo")
        decls = [stmt("decl", {"in"}, "signal", "input", "in", sig=True),
                 stmt("decl", {o1}, "signal", "output", o1, sig=True),
                 stmt("decl", {o2}, "signal", "output", o2, sig=True)]
        body = [stmt("cassign", {o1}, var(o1), "<==", infix("*", var("in"), var("in")), target=o1),
                stmt("cassign", {o2}, var(o2), "<==", infix("+", var("in"), num(1)), target=o2)]
        self.lib_templates.append((name, [o1, o2]))
        return S("def", {name}, ["template", name, "(", S("params", set()), ")"], "{", decls, body, "}", params=[])

    def idiom_lib_component(self, env):
        """A finding of THIS file about a construct of ANOTHER file: a template of the included file is
        instantiated here and (some of) its output signals are never read (CS0018 names the signal declared there)."""
        r = self.r
        a, b = env["in"]
        name, outs = r.choice(self.lib_templates)
        c = self.fresh("xc")
        cl = call(name)
        cl.attrs["out_read"] = False          # two outputs, at most one of them is read below
        self.features.add("cross-file-component")
        form = r.choice(["init", "assign"])
        if form == "init":
            sts = [stmt("decl", {c}, "component", c, "=", cl)]
        else:
            sts = [stmt("decl", {c}, "component", c), stmt("vassign", {c}, c, "=", cl, target=c)]
        sts.append(stmt("cassign", {c}, var(c), ".", "in", "<==", var(a), target=c))
        decls = []
        if r.random() < 0.4:
            o = self.fresh("xr")
            decls.append(stmt("decl", {o}, "signal", "output", o, sig=True))
            sts.append(stmt("cassign", {o}, var(o), "<==", var(c), ".", outs[0], target=o))
        return decls, sts

    def idiom_instances(self, env):
        """Several instantiations of the SAME template (or several constructs of the same kind) in one definition, of
        which only some are the ones a finding is about: a label moved onto another instance of the kind is wrong."""
        r = self.r
        a, b = env["in"]
        which = r.choice(["n2b", "b2n", "lt_out", "lt_inputs", "sign", "div"])
        self.features.add("instances-" + which)
        decls, sts = [], []
        if which in ("n2b", "b2n"):
            callee = "Num2Bits" if which == "n2b" else "Bits2Num"
            env["needs"].add(callee)
            sizes = [8, 254, r.choice([8, 64, 253, 254, 255, 300])]
            if env["params"] and r.random() < 0.4:
                sizes.append(None)
            r.shuffle(sizes)
            for k in sizes[:r.choice([2, 3, len(sizes)])]:
                c = self.fresh("cmp")
                cl = call(callee, num(k) if k is not None else var(env["params"][0]))
                cl.attrs["out_read"] = False
                sts.append(stmt("decl", {c}, "component", c, "=", cl))
                if which == "n2b":
                    va = var(a)
                    va.attrs.update(role="n2b_input", value=a, bits=k)
                    sts.append(stmt("cassign", {c}, var(c), ".", "in", "<==", va, target=c))
                else:
                    sts.append(stmt("cassign", {c}, var(c), ".", "in", "[", num(0), "]", "<==", var(a), target=c))
        elif which in ("lt_out", "lt_inputs"):
            env["needs"].add("LessThan")
            if which == "lt_inputs":
                env["needs"].add("Num2Bits")
                nb = self.fresh("nb")
                k = r.choice([8, 8, 252, 253, 254])
                cl = call("Num2Bits", num(k))
                cl.attrs["out_read"] = False
                sts.append(stmt("decl", {nb}, "component", nb, "=", cl))
                vb = var(b)
                vb.attrs.update(role="n2b_input", value=b, bits=k)
                sts.append(stmt("cassign", {nb}, var(nb), ".", "in", "<==", vb, target=nb))
            reads = [True, False] if which == "lt_out" else [r.random() < 0.5, r.random() < 0.5]
            r.shuffle(reads)
            for rd in reads:
                c = self.fresh("lt")
                cl = call("LessThan", num(8))
                cl.attrs["out_read"] = rd
                va, vb = var(a), var(b)
                va.attrs.update(role="lt_input", value=a)
                vb.attrs.update(role="lt_input", value=b)
                sts += [stmt("decl", {c}, "component", c, "=", cl),
                        stmt("cassign", {c}, var(c), ".", "in", "[", num(0), "]", "<==", va, target=c),
                        stmt("cassign", {c}, var(c), ".", "in", "[", num(1), "]", "<==", vb, target=c)]
                if rd:
                    o = self.fresh("lo")
                    decls.append(stmt("decl", {o}, "signal", "output", o, sig=True))
                    sts.append(stmt("cassign", {o}, var(o), "<==", var(c), ".", "out", target=o))
        elif which == "sign":
            env["needs"].add("Sign")
            for _ in range(r.choice([2, 3])):
                c = self.fresh("sg")
                cl = call("Sign")
                cl.attrs["out_read"] = False
                sts += [stmt("decl", {c}, "component", c, "=", cl),
                        stmt("cassign", {c}, var(c), ".", "in", "<==", var(r.choice([a, b])), target=c)]
        else:
            # `<--` with a top-level division (the divisor is what CS0015 is about), next to divisions that are not
            # the top of a `<--` right-hand side and a `<--` whose divisor is a constant
            for form in r.sample(["ab", "ba", "const", "nested", "ab"], 3):
                c = self.fresh("dv")
                decls.append(stmt("decl", {c}, "signal", c, sig=True))
                if form in ("ab", "ba"):
                    x, y = (a, b) if form == "ab" else (b, a)
                    rhs = infix("/", var(x), var(y))
                    rhs.items[-1].attrs["top_divisor"] = True
                elif form == "const":
                    rhs = infix("/", var(a), num(2))
                    rhs.items[-1].attrs["top_divisor"] = "constant"
                else:
                    rhs = infix("+", paren(infix("/", var(a), var(b))), num(1))
                sts.append(stmt("assign", {c}, var(c), "<--", rhs, target=c))
        return decls, sts

    def idiom_anon_misuse(self, env):
        """anonymous components where the language does not allow them (TAC01)"""
        r = self.r
        a, b = env["in"]
        env["needs"].add("Anon1")
        cl = S("expr", {a}, "Anon1", "(", ")", "(", var(a), ")", op="anon", callee="Anon1")
        form = r.choice(["log", "assert", "ceq", "cond", "arith", "index"])
        self.features.add("anon-misuse-" + form)
        if form == "log":
            return [], [[S("log", {a}, "log", "(", cl, ")"), ";"]]
        if form == "assert":
            return [], [[S("assert", {a}, "assert", "(", cl, ")"), ";"]]
        if form == "ceq":
            return [], [stmt("ceq", {a, b}, cl, "===", var(b))]
        if form == "cond":
            return [], [[S("ifstmt", {a}, "if", "(", S("cond", {a}, infix("==", cl, num(1))), ")", "{", "}")]]
        if form == "arith":
            o = self.fresh("ao")
            return [stmt("decl", {o}, "signal", "output", o, sig=True)], [
                stmt("cassign", {o}, var(o), "<==", infix("+", cl, num(1)), target=o)]
        o = self.fresh("ao")
        return [stmt("decl", {o}, "signal", "output", o, "[", num(2), "]", sig=True)], [
            stmt("cassign", {o}, var(o, cl), "<==", var(b), target=o)]

    def idiom_tuple(self, env):
        r = self.r
        a, b = env["in"]
        x, y = self.fresh("tx"), self.fresh("ty")
        decl = [stmt("decl", {x}, "signal", "output", x, sig=True), stmt("decl", {y}, "signal", "output", y, sig=True)]
        form = r.choice(["arrow", "constr", "underscore"])
        self.features.add("tuple-" + form)
        lhs = S("expr", {x, y}, "(", var(x), ",", var(y), ")", op="tuple")
        rhs = S("expr", {a, b}, "(", infix("*", var(a), var(b)), ",", infix("+", var(b), num(1)), ")", op="tuple")
        if form == "arrow":
            return decl, [stmt("massign", {x, y}, lhs, "<--", rhs, arrow=True)]
        if form == "constr":
            return decl, [stmt("massign", {x, y}, lhs, "<==", rhs)]
        lhs = S("expr", {x}, "(", var(x), ",", "_", ")", op="tuple")
        return [decl[0]], [stmt("massign", {x}, lhs, "<--", rhs, arrow=True)]

    def idiom_anon(self, env):
        r = self.r
        a, b = env["in"]
        o = self.fresh("ao")
        env["needs"].add("Anon1")
        decl = stmt("decl", {o}, "signal", "output", o, sig=True)
        cl = S("expr", {a}, "Anon1", "(", ")", "(", var(a), ")", op="anon", callee="Anon1")
        form = r.choice(["constr", "arrow", "decl"])
        self.features.add("anon-" + form)
        if form == "constr":
            return [decl], [stmt("cassign", {o}, var(o), "<==", cl, target=o, anon=True)]
        if form == "arrow":
            return [decl], [stmt("assign", {o}, var(o), "<--", cl, target=o, anon=True)]
        return [], [stmt("decl", {o}, "signal", "output", o, "<==", cl, sig=True, anon=True)]

    def idiom_phi(self, env):
        r = self.r
        p = self.fresh("ph")
        prm = env["params"][0] if env["params"] else None
        cond = S("cond", (), infix(">", var(prm), num(2)) if prm else infix("==", num(1), num(2)))
        d = stmt("decl", {p}, "var", p, "=", num(0))
        b = ["if", "(", cond, ")", "{", stmt("vassign", {p}, p, "=", num(1), target=p), "}",
             "else", "{", stmt("vassign", {p}, p, "=", num(2), target=p), "}"]
        out = [d, b]
        form = r.choice(["unused", "used", "loop"])
        self.features.add("phi-" + form)
        if form == "used" and env.get("out"):
            o = self.fresh("po")
            return [stmt("decl", {o}, "signal", "output", o, sig=True)], out + [
                stmt("cassign", {o}, var(o), "<==", infix("*", var(p), var(env["in"][0])), target=o)]
        if form == "loop":
            i = self.fresh("i")
            init = S("decl", {i}, "var", i, "=", num(0))
            c2 = S("cond", {i}, infix("<", var(i), num(3)))
            step = S("vassign", {i}, i, "++", target=i)
            out.append(["for", "(", init, ";", c2, ";", step, ")", "{",
                        stmt("vassign", {p}, p, "+=", var(i), target=p), "}"])
        return [], out

    def idiom_log_assert(self, env):
        a, b = env["in"]
        self.features.add("log-assert")
        s = self.r.choice(['"x"', '"é€"', '"a b"', '"\U0001F600"'])
        return [], [["log", "(", Tok(s), ",", var(a), ")", ";"],
                    [S("assert", {a}, "assert", "(", infix("==", var(a), var(a)), ")"), ";"]]

    def idiom_undefined(self, env):
        """read of a declared but never written variable: SSA construction fails (T2003)"""
        y = self.fresh("y")
        z = self.fresh("z")
        self.features.add("undefined-var")
        return [], [stmt("decl", {y}, "var", y), stmt("decl", {z}, "var", z, "=", infix("+", var(y), num(1)))]

    def idiom_fn_sugar(self, env):
        """tuples / anonymous components are not allowed in functions (TAC02)"""
        r = self.r
        x = env["params"][0]
        form = r.choice(["anon", "tuple_decl", "tuple_assign"])
        self.features.add("fn-sugar-" + form)
        if form == "anon":
            env["needs"].add("Anon1")
            t = self.fresh("t")
            cl = S("expr", {x}, "Anon1", "(", ")", "(", var(x), ")", op="anon", callee="Anon1")
            return [], [stmt("decl", {t}, "var", t, "=", cl)]
        u, v = self.fresh("u"), self.fresh("v")
        tup = S("expr", (), "(", num(1), ",", num(2), ")", op="tuple")
        if form == "tuple_decl":
            return [], [stmt("decl", {u, v}, "var", "(", u, ",", v, ")", "=", tup)]
        lhs = S("expr", {u, v}, "(", var(u), ",", var(v), ")", op="tuple")
        return [], [stmt("decl", {u}, "var", u, "=", num(0)), stmt("decl", {v}, "var", v, "=", num(0)),
                    stmt("massign", {u, v}, lhs, "=", tup)]

    TEMPLATE_IDIOMS = ["sigassign", "sigassign", "sigassign", "array_assign", "shadow", "shadow_param", "const_cond",
                       "field_ops", "field_ops", "unused", "unconstrained_signal", "under_constrained", "component",
                       "tuple", "anon", "phi", "log_assert", "instances", "instances"]

    def template(self, name=None, size=4, nparams=None, dup_param=False):
        r = self.r
        name = name or self.fresh("T")
        if nparams is None:
            nparams = r.choice([0, 1, 1, 2, 2, 3, 9])
        params = [self.fresh("n") for _ in range(nparams)]
        if dup_param and len(params) >= 2:
            params[-1] = params[0]
            self.features.add("param-collision")
        if nparams > 7:
            self.features.add("many-params")
        a, b = self.fresh("a"), self.fresh("b")
        env = {"params": list(dict.fromkeys(params)), "in": [a, b], "needs": set(), "out": True}
        decls = [stmt("decl", {a}, "signal", "input", self.tags(), a, sig=True), stmt("decl", {b}, "signal", "input", b, sig=True)]
        body = []
        if r.random() < 0.02:
            d, b2 = self.idiom_complex(env)
            body += b2
        for _ in range(size):
            idi = r.choice(self.TEMPLATE_IDIOMS)
            if idi == "undefined":
                continue
            d, b2 = getattr(self, "idiom_" + idi)(env)
            decls += d
            body += b2
        if r.random() < 0.05:
            d, b2 = self.idiom_undefined(env)
            body += b2
        if r.random() < 0.03:
            d, b2 = self.idiom_anon_misuse(env)
            decls += d
            body += b2
        if self.lib_templates and r.random() < 0.6:
            d, b2 = self.idiom_lib_component(env)
            decls += d
            body.insert(r.randrange(len(body) + 1), b2)
        ptoks = []
        for i, p in enumerate(params):
            if i:
                ptoks.append(",")
            ptoks.append(p)
        mods = r.choice([[], [], [], [], [], ["parallel"], ["custom"], ["custom", "parallel"]])
        if mods:
            self.features.add("header-" + "-".join(mods))
        head = ["template"] + mods + [name, "(", S("params", set(params), *ptoks), ")"]
        tree = S("def", {name}, head, "{", decls, body, "}", params=params)
        return tree, env["needs"], name

    def function(self, name=None, size=3, dup_param=False):
        r = self.r
        name = name or self.fresh("f")
        nparams = r.choice([1, 1, 2, 3, 9])
        params = [self.fresh("x") for _ in range(nparams)]
        if dup_param and len(params) >= 2:
            params[-1] = params[0]
            self.features.add("param-collision")
        atoms = list(dict.fromkeys(params))
        env = {"params": atoms, "in": [atoms[0], atoms[-1]], "needs": set(), "out": False}
        body = []
        for _ in range(size):
            idi = r.choice(["shadow", "shadow_param", "const_cond", "unused", "phi", "fn_loop"])
            if idi == "fn_loop":
                acc = self.fresh("acc")
                i = self.fresh("i")
                init = S("decl", {i}, "var", i, "=", num(0))
                c2 = S("cond", {i}, infix("<", var(i), var(atoms[0])))
                step = S("vassign", {i}, i, "++", target=i)
                body += [stmt("decl", {acc}, "var", acc, "=", num(0)),
                         ["for", "(", init, ";", c2, ";", step, ")", "{",
                          stmt("vassign", {acc}, acc, "+=", var(i), target=acc), "}"]]
                self.features.add("fn-loop")
                continue
            d, b2 = getattr(self, "idiom_" + idi)(env)
            body += d + b2
        if r.random() < 0.08:
            d, b2 = self.idiom_fn_sugar(env)
            body += b2
        ret = [S("return", set(atoms[:1]), "return", self.expr(atoms[:2], 1)), ";"]
        ptoks = []
        for i, p in enumerate(params):
            if i:
                ptoks.append(",")
            ptoks.append(p)
        head = ["function", name, "(", S("params", set(params), *ptoks), ")"]
        return S("def", {name}, head, "{", body, ret, "}", params=params), name, env["needs"]

    # support templates referenced by idioms
    def support(self, which):
        if which == "Num2Bits":
            return S("def", {"Num2Bits"}, "template Num2Bits ( n ) {", stmt("decl", {"in"}, "signal input in", sig=True),
                     stmt("decl", {"out"}, "signal output out [ n ]", sig=True),
                     "var lc = 0 ; for ( var i = 0 ; i < n ; i ++ ) { out [ i ] <-- ( in >> i ) & 1 ;",
                     "out [ i ] * ( out [ i ] - 1 ) === 0 ; lc += out [ i ] * 2 ** i ; } lc === in ; }", support=True)
        if which == "Bits2Num":
            return S("def", {"Bits2Num"}, "template Bits2Num ( n ) {", stmt("decl", {"in"}, "signal input in [ n ]", sig=True),
                     stmt("decl", {"out"}, "signal output out", sig=True),
                     "var lc = 0 ; for ( var i = 0 ; i < n ; i ++ ) { lc += in [ i ] * 2 ** i ; } lc ==> out ; }", support=True)
        if which == "LessThan":
            return S("def", {"LessThan"}, "template LessThan ( n ) {", stmt("decl", {"in"}, "signal input in [ 2 ]", sig=True),
                     stmt("decl", {"out"}, "signal output out", sig=True),
                     "out <== in [ 0 ] + in [ 1 ] * n ; }", support=True)
        if which == "Sign":
            return S("def", {"Sign"}, "template Sign ( ) {", stmt("decl", {"in"}, "signal input in", sig=True),
                     stmt("decl", {"sign"}, "signal output sign", sig=True), "sign <== in * in ; }", support=True)
        if which == "Anon1":
            return S("def", {"Anon1"}, "template Anon1 ( ) {", stmt("decl", {"in"}, "signal input in", sig=True),
                     stmt("decl", {"out"}, "signal output out", sig=True), "out <== in * in ; }", support=True)
        raise KeyError(which)


# ----------------------------------------------------------------------------
# projects
# ----------------------------------------------------------------------------

def dup_def(g, rng, nm):
    """Another definition of the name `nm`: template or function, 0..2 parameters."""
    params = [g.fresh("dp") for _ in range(rng.choice([0, 0, 1, 2]))]
    ptoks = []
    for i, q in enumerate(params):
        if i:
            ptoks.append(",")
        ptoks.append(q)
    if rng.random() < 0.6:
        return S("def", {nm}, "template", nm, "(", S("params", set(params), *ptoks), ")", "{", "}", params=params, duplicate=True)
    return S("def", {nm}, "function", nm, "(", S("params", set(params), *ptoks), ")", "{",
             [S("return", set(), "return", num(1)), ";"], "}", params=params, duplicate=True)


def gen_file_tree(g, rng, ndefs, includes=(), with_pragma=True, with_main=None, inject=None, dup_of=None):
    """-> (tree, meta)"""
    items = []
    meta = {"defs": [], "inject": inject}
    if with_pragma:
        items.append([Tok("pragma circom"), "9.9.9" if inject == "bad_version" else rng.choice(["2.0.0", "2.1.2", "2.0.8"]), ";"])
    for inc in includes:
        items.append([S("include", {inc}, "include", Tok('"%s"' % inc)), ";"])
    needs = set()
    defs = []
    tnames = []
    for _ in range(ndefs):
        if rng.random() < 0.72:
            t, nd, nm = g.template(size=rng.choice([1, 2, 3, 5]), dup_param=(inject == "param_collision" and not tnames))
            needs |= nd
            tnames.append((nm, t.attrs["params"]))
            defs.append(t)
        else:
            f, nm, nd = g.function(size=rng.choice([1, 2, 3]), dup_param=(inject == "param_collision_fn"))
            needs |= nd
            defs.append(f)
    if inject == "duplicate_def" and defs:
        own = sorted(defs[0].names)[0]
        for nm in ([own] if not dup_of else dup_of):
            nm = nm or own
            defs.append(dup_def(g, rng, nm))
            if rng.random() < 0.25:
                defs.append(dup_def(g, rng, nm))          # three definitions of one name
        g.features.add("duplicate-def" + ("-cross-file" if dup_of else ""))
    for w in sorted(needs):
        defs.append(g.support(w))
    rng.shuffle(defs)
    items += defs
    if with_main is None:
        with_main = rng.random() < 0.3
    if with_main and tnames:
        nm, params = tnames[0]
        args = []
        for i, _ in enumerate(params):
            if i:
                args.append(",")
            args.append(num(2))
        items.append(["component", "main", "=", S("expr", (), nm, "(", args, ")", op="call", callee=nm), ";"])
        g.features.add("main")
    return items, meta


def lexical_injection(text, rng, kind):
    """Byte-level injections that need exact positions: returns (text, expectation)."""
    b = text
    if kind == "unclosed_comment":
        opener = rng.choice(["/*", "/* x", "/** doc *", "/* é", "/*/", "/* *\\/"])
        pos = len(b.encode())
        return b + opener, {"kind": kind, "start": pos, "end": pos + 2}
    return b, None


def gen_project(rng, idx):
    """One project: {"files": {relpath: text}, "argv": [relpath...], "libs": [], "spans": {relpath: [span briefs]},
    "style":..., "features": [...], "inject":...}"""
    g = Gen(rng)
    style = rng.choice(STYLES)
    r = rng.random()
    inject = None
    if r < 0.05:
        inject = "unclosed_comment"
    elif r < 0.09:
        inject = "invalid_token"
    elif r < 0.14:
        inject = "unrecognized_token"
    elif r < 0.19:
        inject = "missing_include"
    elif r < 0.23:
        inject = "param_collision"
    elif r < 0.26:
        inject = "param_collision_fn"
    elif r < 0.30:
        inject = "duplicate_def"
    elif r < 0.35:
        inject = "truncated"
    elif r < 0.36:
        inject = "bad_version"
    elif r < 0.375:
        inject = "two_mains"
    exotic = rng.choice(EXOTIC_KINDS) if (inject is None and rng.random() < 0.22) else None
    files = {}
    spans = {}
    stats = {}
    includes = []
    with_lib = rng.random() < 0.25
    dup_mode = rng.choice(["same", "cross", "cross", "cross_argv", "both"]) if inject == "duplicate_def" else None
    if dup_mode in ("cross", "cross_argv", "both") or inject == "two_mains":
        with_lib = True
    dup_of = None
    argv = ["main.circom"]
    libs = []
    if with_lib:
        lib_style = rng.choice(STYLES)
        lib_pragma = rng.random() < 0.8
        tree, _ = gen_file_tree(g, rng, rng.choice([1, 2]), with_pragma=lib_pragma, with_main=(inject == "two_mains"))
        if dup_mode in ("cross", "cross_argv", "both"):
            # the including file defines a name of the included file again (and, mode `both`, one of its own as well);
            # `cross_argv`: the included file is a user input too and comes first, so ITS definition is the first one
            lib_names = [sorted(x.names)[0] for x in tree if isinstance(x, Span) and x.kind == "def" and not x.attrs.get("support")]
            if lib_names:
                dup_of = [rng.choice(lib_names)]
                if dup_mode == "both":
                    dup_of.append(None)
            if dup_mode == "cross_argv":
                argv = ["lib.circom", "main.circom"]
        if inject == "two_mains":
            argv = rng.choice([["main.circom", "lib.circom"], ["lib.circom", "main.circom"], ["main.circom"]])
        if rng.random() < 0.8:
            # a template whose output signals are left unread by the including file (cross-file finding)
            tree.insert(rng.randrange(1 if lib_pragma else 0, len(tree) + 1), g.lib_out_template())
        text, sp, st = render(tree, rng, lib_style, prefix=EXOTIC["bom"] if exotic == "bom0_lib" else "")
        lib_rel = "lib.circom"
        if argv == ["main.circom"] and inject != "two_mains" and rng.random() < 0.3:
            # the included file lives in a library directory handed over with -L / --library
            lib_rel = "inc/lib.circom"
            libs = ["inc"]
            g.features.add("library-directory")
        files[lib_rel] = text
        spans[lib_rel] = sp
        includes.append("lib.circom")
        g.features.add("include")
    if inject == "missing_include":
        includes.insert(rng.randrange(len(includes) + 1), rng.choice(["nope.circom", "déjà.circom", "missing file.circom"]))
    tree, _ = gen_file_tree(g, rng, rng.choice([1, 2, 3]), includes=includes,
                            with_pragma=(rng.random() < 0.85 or inject == "bad_version"),
                            with_main=(True if inject == "two_mains" else None), inject=inject, dup_of=dup_of)
    expect = None
    if inject in ("invalid_token", "unrecognized_token"):
        ev = flatten(tree, [])
        ntok = sum(1 for k, _ in ev if k == "tok")
        at = rng.randrange(2, max(3, ntok))
        bad = rng.choice(["@", "#", "`"]) if inject == "invalid_token" else rng.choice([")", "]", "template", "===", "<--", "}"])
        marker = S("injected", (), Tok(bad), bad=bad)
        tree = insert_token(tree, at, marker)
    prefix, mid = "", None
    if exotic and exotic.endswith("_mid"):
        mid = EXOTIC[exotic[:-4]]
    elif exotic == "bom0_crlf":
        prefix = EXOTIC["bom"] + "\r\n"
    elif exotic and exotic != "bom0_lib":
        prefix = EXOTIC[exotic[:-1]]
    if exotic:
        g.features.add("exotic-" + exotic)
    text, sp, st = render(tree, rng, style, prefix=prefix, mid=mid)
    if inject == "unclosed_comment":
        text, expect = lexical_injection(text, rng, inject)
    if inject == "truncated":
        # cut the file inside a definition, directly after a token (optionally followed by trivia)
        d = [x for x in sp if x.kind == "def" and x.start is not None]
        if d:
            x = rng.choice(d)
            inner = sorted(y.end for y in sp if y.end is not None and x.start < y.end < x.end)
            if inner:
                cut = rng.choice(inner)
                text = text.encode()[:cut].decode() + rng.choice(["", " ", "\n", "\r\n", " // é\n", " /* x */"])
                sp = [y for y in sp if y.end is not None and y.end <= cut]
    files["main.circom"] = text
    spans["main.circom"] = sp
    for k, v in st.items():
        stats[k] = stats.get(k, 0) + v
    return {"idx": idx, "files": files, "argv": argv, "libs": libs, "spans": spans, "style": style,
            "features": sorted(g.features), "inject": inject, "exotic": exotic, "expect": expect, "trivia": stats}


def insert_token(tree, at, marker):
    """Inserts `marker` before the at-th token (depth-first), inside whatever span is open there."""
    count = [0]
    done = [False]

    def walk(x):
        if done[0]:
            return x
        if isinstance(x, Span):
            x.items = walk(x.items)
            return x
        if isinstance(x, Tok):
            count[0] += 1
            if count[0] == at:
                done[0] = True
                return [marker, x]
            return x
        if isinstance(x, str):
            parts = x.split()
            out = []
            for p in parts:
                count[0] += 1
                if count[0] == at and not done[0]:
                    done[0] = True
                    out.append(marker)
                out.append(Tok(p))
            return out
        if isinstance(x, (list, tuple)):
            return [walk(y) for y in x]
        return x
    return walk(tree)
