"""Random parser-producible programs for C18 (grammar based, seeded).

Where `c18gen.matrix` puts ONE sugar form into ONE position, this generator
draws whole bodies from the grammar of parser/src/lang.lalrpop: every
expression position of every statement kind may hold any expression, tuples
nest to depth 4 on either side of an assignment, anonymous components with
0/1/2/3 outputs occur inside tuples inside tuples, in conditions, in array
indices of variables that are READ, in call arguments, log arguments, return
values and loop bodies; named inputs are written in any order with every
assignment operator (and with wrong / duplicated / missing names); `_`
occurs as destination and as value.

Two biases are mixed, because a uniform draw is rejected by the desugarer almost
always:
 * `valid`  - sugar only where Circom allows it, arities and output counts
              matching (most programs are ACCEPTED: the expansion is compared);
 * `wild`   - sugar anywhere (most programs are REJECTED: the decision, the
              report, its message and its location are compared).
Every compound sub-expression is parenthesised, so the text parses to the tree
that was drawn (`(e)` with one element is a parenthesis, not a tuple).
"""
import c18gen

# name -> (inputs, outputs, has parameter)
TEMPLATES = {
    "A0": ([], ["y"], False), "A1": (["x1"], ["y"], False), "A2": (["x1", "x2"], ["y"], False),
    "A3": (["x1", "x2", "x3"], ["y"], False), "B00": ([], [], False), "B10": (["x1"], [], False),
    "B12": (["x1"], ["y1", "y2"], False), "B22": (["x1", "x2"], ["y1", "y2"], False),
    "B23": (["x1", "x2"], ["y1", "y2", "y3"], False), "P1": (["x1"], ["y"], True),
}
BY_OUTPUTS = {}
for _n, (_i, _o, _p) in TEMPLATES.items():
    BY_OUTPUTS.setdefault(len(_o), []).append(_n)

INFIX = ["+", "-", "*", "/", "\\", "%", "**", "<<", ">>", "&", "|", "^", "==", "!=", "<", ">", "<=", ">=", "&&", "||"]
PREFIX = ["-", "!", "~"]
OPS = ["<==", "<--", "="]


class Gen:
    def __init__(self, rng, host, mode):
        self.r = rng
        self.host = host        # "T" | "F"
        self.mode = mode        # "valid" | "wild"
        self.fresh = 0
        self.loopvars = []
        self.features = set()

    # ---- helpers -------------------------------------------------------
    def p(self, x):
        return self.r.random() < x

    def pick(self, xs):
        return xs[self.r.randrange(len(xs))]

    def name(self):
        self.fresh += 1
        return "z%d" % self.fresh

    # ---- sugar-free expressions ------------------------------------------
    def leaf(self):
        k = self.r.randrange(12)
        if k < 4:
            return self.pick(["a", "b", "c"])
        if k < 6:
            return self.pick(["v", "w", "n"] + self.loopvars)
        if k < 8:
            return str(self.r.randrange(4))
        if k == 8:
            return "arr[%s]" % self.pick(["0", "1", "v"] + self.loopvars)
        if k == 9:
            return "arr2[%s][%s]" % (self.pick(["0", "1"] + self.loopvars), self.pick(["0", "1", "v"]))
        if k == 10:
            return self.pick(["cc.y", "cs[0].y", "cs[v].y", "0x1f"])
        return self.pick(["varr[1]", "varr[w]", "o", "p"])

    def plain(self, d):
        """Sugar-free expression, nesting at most d."""
        if d <= 0 or self.p(0.45):
            return self.leaf()
        k = self.r.randrange(10)
        if k < 4:
            return "(%s %s %s)" % (self.plain(d - 1), self.pick(INFIX), self.plain(d - 1))
        if k == 4:
            return "(%s%s)" % (self.pick(PREFIX), self.plain(d - 1))
        if k == 5:
            return "(%s ? %s : %s)" % (self.plain(d - 1), self.plain(d - 1), self.plain(d - 1))
        if k == 6:
            return "f1(%s)" % self.plain(d - 1)
        if k == 7:
            return "f2(%s, %s)" % (self.plain(d - 1), self.plain(d - 1))
        if k == 8:
            return "[%s, %s]" % (self.plain(d - 1), self.plain(d - 1))
        return "arr[%s]" % self.plain(d - 1)

    # ---- sugar ----------------------------------------------------------
    def anon(self, d, outputs=None, valid=True):
        """An anonymous component call; `outputs`: required number of outputs
        (None: any).  valid: arity and names right, arguments single valued."""
        if outputs is None:
            t = self.pick(list(TEMPLATES))
        else:
            t = self.pick(BY_OUTPUTS.get(outputs) or list(TEMPLATES))
        ins, outs, has_param = TEMPLATES[t]
        if not valid and self.p(0.08):
            t = "Nope"
        self.features.add("anon%d" % len(outs))
        params = ""
        if has_param:
            params = self.plain(1) if valid or self.p(0.8) else self.expr(d - 1, valid=False)
            if not valid and self.p(0.1):
                params = ""
        elif not valid and self.p(0.05):
            params = self.plain(0)
        n = len(ins)
        if not valid and self.p(0.15):
            n = max(0, n + self.pick([-1, 1]))
        args = []
        for _ in range(n):
            if valid:
                args.append(self.value(d - 1, 1))
            else:
                args.append(self.expr(d - 1, valid=False))
        named = n > 0 and self.p(0.45)
        if named:
            self.features.add("named")
            names = list(ins[:n]) + ["x%d" % (k + 1) for k in range(len(ins), n)]
            if not valid and self.p(0.2):
                k = self.r.randrange(n)
                names[k] = self.pick(["zz", names[0], "x9"])
            items = ["%s %s %s" % (nm, self.pick(OPS), a) for nm, a in zip(names, args)]
            if self.p(0.7):
                self.r.shuffle(items)
                self.features.add("named_perm")
            text = "%s(%s)(%s)" % (t, params, ", ".join(items))
        else:
            text = "%s(%s)(%s)" % (t, params, ", ".join(args))
        if self.p(0.08):
            self.features.add("parallel")
            text = "(parallel %s)" % text
        return text

    def value(self, d, count):
        """A VALID expression standing for exactly `count` values (count >= 1);
        count == 1 never yields a tuple."""
        if count == 1:
            if d > 0 and self.p(0.4):
                return self.anon(d, outputs=1)
            return self.plain(min(d, 2))
        if d > 0 and count in (2, 3) and self.p(0.3):
            return self.anon(d, outputs=count)
        return self.vtuple(d, count)

    def vtuple(self, d, count):
        """A tuple with `count` leaves (count >= 2), nested up to d more levels."""
        self.features.add("tuple")
        k = self.r.randrange(2, min(count, 4) + 1)
        # split count into k positive parts
        cuts = sorted(self.r.sample(range(1, count), k - 1)) if count > k - 1 and k > 1 else []
        parts = [b - a for a, b in zip([0] + cuts, cuts + [count])]
        elems = []
        for c in parts:
            if c == 1:
                elems.append(self.value(d - 1, 1))
            elif d > 1:
                elems.append(self.value(d - 1, c))
                self.features.add("nested_tuple")
            else:
                # out of depth: flatten here
                elems += [self.value(0, 1) for _ in range(c)]
        if len(elems) < 2:
            elems.append(self.value(0, 1))
        return "(%s)" % ", ".join(elems)

    def lvalue(self):
        k = self.r.randrange(10)
        if k < 3:
            return self.pick(["o", "p", "q"])
        if k < 5:
            return self.pick(["v", "w"])
        if k == 5:
            return "arr[%s]" % self.pick(["0", "1", "v"] + self.loopvars)
        if k == 6:
            return "arr2[%s][%s]" % (self.pick(["0", "1"] + self.loopvars), self.pick(["0", "1"]))
        if k == 7:
            return self.pick(["cc.x1", "cs[1].x1", "varr[2]"])
        return "_"

    def ltuple(self, d, count):
        """Destination tuple with `count` destinations, nested up to d levels."""
        k = self.r.randrange(2, min(count, 4) + 1) if count >= 2 else 2
        cuts = sorted(self.r.sample(range(1, count), k - 1)) if count > k - 1 and k > 1 else []
        parts = [b - a for a, b in zip([0] + cuts, cuts + [count])]
        elems = []
        for c in parts:
            if c == 1 or d <= 1:
                elems += [self.lvalue() for _ in range(c)]
            else:
                elems.append(self.ltuple(d - 1, c))
                self.features.add("nested_ltuple")
        while len(elems) < 2:
            elems.append("_")
        return "(%s)" % ", ".join(elems)

    def expr(self, d, valid):
        """Any expression; with valid=False sugar may sit anywhere below it."""
        if valid:
            return self.plain(d)
        if d <= 0:
            return self.leaf()
        k = self.r.randrange(16)
        if k < 3:
            return self.leaf()
        if k < 5:
            return "(%s %s %s)" % (self.expr(d - 1, False), self.pick(INFIX), self.expr(d - 1, False))
        if k == 5:
            return "(%s%s)" % (self.pick(PREFIX), self.expr(d - 1, False))
        if k == 6:
            return "(%s ? %s : %s)" % (self.expr(d - 1, False), self.expr(d - 1, False), self.expr(d - 1, False))
        if k == 7:
            return "f%d(%s)" % ((1, self.expr(d - 1, False)) if self.p(0.6) else
                                (2, self.expr(d - 1, False) + ", " + self.expr(d - 1, False)))
        if k == 8:
            return "[%s, %s]" % (self.expr(d - 1, False), self.expr(d - 1, False))
        if k == 9:
            self.features.add("read_index")
            return "%s[%s]" % (self.pick(["arr", "varr", "cs"]), self.expr(d - 1, False)) + self.pick(["", "", ".y"])
        if k == 10:
            self.features.add("read_index")
            return "arr2[%s][%s]" % (self.expr(d - 1, False), self.expr(d - 1, False))
        if k < 13:
            self.features.add("tuple")
            n = self.r.randrange(2, 4)
            return "(%s)" % ", ".join(self.expr(d - 1, False) for _ in range(n))
        if k < 15:
            return self.anon(d, valid=self.p(0.5))
        return self.pick(["_", "(parallel %s)" % self.expr(d - 1, False)])

    # ---- statements -------------------------------------------------------
    def block(self, d, n=None):
        n = n or self.r.randrange(1, 4)
        return "{ %s }" % " ".join(self.stmt(d) for _ in range(n))

    def cond(self):
        if self.mode == "wild" and self.p(0.3):
            self.features.add("cond_sugar")
            return self.expr(2, False)
        return self.plain(2)

    def rhs1(self, d):
        """Right-hand side of a single assignment."""
        if self.mode == "wild" and self.p(0.5):
            return self.expr(d, False)
        if self.p(0.96 if self.mode == "valid" else 0.75):
            return self.value(d, 1)
        return self.value(d, self.r.randrange(2, 4))      # arity error

    def stmt(self, d):
        wild = self.mode == "wild"
        k = self.r.randrange(100)
        if k < 22:       # single substitution, three spellings
            lv = self.lvalue() if not (wild and self.p(0.25)) else \
                "%s[%s]" % (self.pick(["arr", "varr", "cs"]), self.expr(2, False)) + self.pick(["", ".x1"])
            e = self.rhs1(3)
            form = self.r.randrange(4)
            if form < 2:
                return "%s %s %s;" % (lv, self.pick(OPS), e)
            return "%s %s %s;" % (e, "==>" if form == 2 else "-->", lv)
        if k < 50:       # tuple assignment
            self.features.add("msub")
            n = self.r.randrange(2, 7)
            ld = self.r.randrange(1, 5)
            rd = self.r.randrange(1, 5)
            lhs = self.ltuple(ld, n)
            m = n if self.p(0.8 if wild else 0.96) else max(2, n + self.pick([-1, 1]))
            if wild and self.p(0.35):
                rhs = self.expr(rd, False)
                if self.p(0.3):
                    lhs = "(%s, %s)" % (self.expr(2, False), self.lvalue())
            else:
                rhs = self.value(rd, m)
            if ld >= 3:
                self.features.add("ldepth%d" % ld)
            if rd >= 3:
                self.features.add("rdepth%d" % rd)
            if self.p(0.25):
                return "%s ==> %s;" % (rhs, lhs)
            return "%s %s %s;" % (lhs, self.pick(OPS), rhs)
        if k < 60:       # declarations with initialisers
            self.features.add("decl")
            j = self.r.randrange(8)
            if j == 0:
                return "var %s = %s;" % (self.name(), self.rhs1(2))
            if j == 1:
                return "signal %s %s %s;" % (self.name(), self.pick(["<==", "<--"]), self.rhs1(2))
            if j == 2:
                return "component %s = %s;" % (self.name(), self.rhs1(2) if wild else self.pick(["A1()", "P1(2)", "parallel A1()"]))
            if j == 3:
                n = self.r.randrange(2, 4)
                m = n if self.p(0.8 if wild else 0.96) else n + 1
                return "var (%s) = %s;" % (", ".join(self.name() for _ in range(n)),
                                           self.value(3, m) if not (wild and self.p(0.3)) else self.expr(3, False))
            if j == 4:
                n = self.r.randrange(2, 5)
                return "signal (%s) %s %s;" % (", ".join(self.name() for _ in range(n)), self.pick(["<==", "<--"]),
                                               self.value(3, n) if not (wild and self.p(0.3)) else self.expr(3, False))
            if j == 5:
                return "var %s[%s];" % (self.name(), self.expr(2, False) if wild else self.plain(1))
            if j == 6:
                return "var %s = %s, %s = %s;" % (self.name(), self.plain(1), self.name(), self.rhs1(2))
            return "signal %s[%s];" % (self.name(), self.expr(2, False) if wild and self.p(0.5) else "2")
        if k < 66 and d > 0:
            if self.p(0.5):
                return "if (%s) %s" % (self.cond(), self.block(d - 1))
            return "if (%s) %s else %s" % (self.cond(), self.block(d - 1), self.block(d - 1))
        if k < 74 and d > 0:
            self.features.add("loop")
            if self.p(0.7):
                i = "i%d" % len(self.loopvars)
                init = "0" if not (wild and self.p(0.15)) else self.expr(2, False)
                step = "%s++" % i if not (wild and self.p(0.15)) else "%s = %s" % (i, self.expr(2, False))
                c = "%s < 2" % i if not (wild and self.p(0.2)) else self.cond()
                self.loopvars.append(i)
                body = self.block(d - 1)
                self.loopvars.pop()
                return "for (var %s = %s; %s; %s) %s" % (i, init, c, step, body)
            return "while (%s) %s" % (self.cond(), self.block(d - 1))
        if k < 78:
            l, r = (self.expr(2, False), self.expr(2, False)) if wild else (self.plain(2), self.plain(2))
            return "%s === %s;" % (l, r)
        if k < 81:
            return "assert(%s);" % (self.expr(3, False) if wild else self.plain(2))
        if k < 88:
            self.features.add("log")
            args = []
            for _ in range(self.r.randrange(0, 4)):
                j = self.r.randrange(5)
                if j == 0:
                    args.append(self.pick(['"s"', '""', '"a b"']))
                elif j == 1:
                    args.append(self.plain(2))
                elif j == 2 or not wild:
                    # tuples are valid log arguments (at any depth of tuples only)
                    args.append(self.logtuple(3))
                else:
                    args.append(self.expr(3, False))
            return "log(%s);" % ", ".join(args)
        if k < 91:
            return "return %s;" % (self.expr(3, False) if wild or self.p(0.03) else self.plain(2))
        if k < 95:       # expression statement: `T()(..);` is the valid form for 0 outputs
            if wild and self.p(0.5):
                return "%s;" % self.expr(3, False)
            return "%s;" % self.anon(3, outputs=self.pick([0, 0, 0, 1, 2]) if wild or self.p(0.04) else 0)
        if k < 97:
            return "%s %s %s;" % (self.pick(["v", "w", "varr[1]"]), self.pick(["+=", "-=", "*=", "<<=", "&="]),
                                  self.expr(2, False) if wild else self.plain(1))
        if k < 98:
            return "_ <== %s;" % self.rhs1(2)
        if d > 0:
            return self.block(d - 1)
        return "v++;"

    def logtuple(self, d):
        if d <= 0 or self.p(0.4):
            return self.plain(1)
        self.features.add("log_tuple")
        n = self.r.randrange(2, 4)
        return "(%s)" % ", ".join(self.logtuple(d - 1) for _ in range(n))


EXTRA = "function f2(x, y) { return x * y; }\n"


def programs(rng, n):
    """n seeded random programs: (label, source, mode, features)."""
    out = []
    for i in range(n):
        mode = "valid" if rng.random() < 0.55 else "wild"
        host = "T" if rng.random() < 0.85 else "F"
        g = Gen(rng, host, mode)
        k = rng.randrange(1, 5)
        body = [g.stmt(2) for _ in range(k)]
        sep = rng.choice(["\n  ", " ", "\n\n   "])
        src = c18gen.program(host, sep.join(body), extra=EXTRA)
        out.append(("rand/%s/%s/%d" % (mode, host, i), src, mode, sorted(g.features)))
    return out


# Fixed programs for shapes that a matrix of ONE form in ONE position cannot hold
# (each was drawn by hand from the review's list; the random generator covers
# their neighbourhood).
DEEP = [
    ("ldepth3", "(o, (p, (q, v))) <== (a, (b, B12()(c)));"),
    ("rdepth3_leak", "(o, p, q) <== (a, (b, (c, a)));"),
    ("rdepth3", "(o, p, q, v) <== (a, (b, (c, a)));"),
    ("ldepth3_only", "(o, (p, (q, v))) <== (a, b, c, a);"),
    ("rdepth4", "(o, p, q, v, w) <== (a, (b, (c, (a, b))));"),
    ("ldepth4", "(o, (p, (q, (v, w)))) <== (a, b, c, a, b);"),
    ("both4", "(((( o, p), q), v), w) <== (a, (b, (c, (a, b))));"),
    ("anon_in_t_in_t", "(o, p, q) <== (a, (b, A1()(c)));"),
    ("anon2_in_t_in_t", "(o, p, q, v) <== (a, (b, B12()(c)));"),
    ("anon3_in_t_in_t_in_t", "(o, p, q, v, w) <== (a, (b, (B23()(c, a))));"),
    ("anon3_in_t3", "(o, (p, q), (v, (w, _))) <== (a, (b, (c, B23()(c, a))));"),
    ("anon0_in_t_in_t", "(o, p) <== (a, (b, B00()()));"),
    ("rev_depth3", "(a, (b, (c, B12()(a)))) ==> (o, (p, (q, (v, w))));"),
    ("decl_depth3", "var (x, y, z, u) = (1, (2, (3, 4)));"),
    ("decl_s_depth3", "signal (x, y, z, u) <== (a, (b, B12()(c)));"),
    ("under_depth3", "(_, (_, (o, _))) <== (a, (b, (c, a)));"),
    ("loop_depth3", "for (var i = 0; i < 2; i++) { (arr[i], (p, (arr2[i][0], _))) <== (a, (b, B12()(c))); }"),
    ("named_in_depth3", "(o, (p, (q, v))) <== (a, (b, B22()(x2 <-- b, x1 = a)));"),
    ("log_depth3", "log((a, (b, (c, a))));"),
    ("log_depth4", "log(\"s\", (a, ((b, c), (a, (b, (c, 1))))), 1);"),
    ("log_depth3_anon", "log((a, (b, (c, A1()(a)))));"),
    ("read_idx_tuple", "o <== arr[(0, 1)];"),
    ("read_idx_anon", "o <== arr[A1()(a)];"),
    ("read_idx_tuple_deep", "o <== 1 + arr2[0][(a, b)];"),
    ("read_idx_cond", "if (arr[A1()(a)] == 0) { v = 1; }"),
    ("read_idx_assert", "assert(arr[(0, 1)] == 0);"),
    ("read_idx_call", "v = f1(varr[(0, 1)]);"),
    ("read_idx_log", "log(arr[A0()()]);"),
    ("read_idx_return", "return varr[(v, w)];"),
    ("read_idx_comp", "o <== cs[(0, 1)].y;"),
    ("read_idx_in_idx", "o <== arr[arr[(0, 1)]];"),
    ("read_idx_in_anon_arg", "o <== A1()(arr[(0, 1)]);"),
    ("read_idx_in_tuple", "(o, p) <== (arr[(0, 1)], b);"),
    ("read_idx_while", "while (varr[A0()()] < 2) { v++; }"),
    ("read_idx_ceq", "a === arr[(0, 1)];"),
    ("read_idx_switch", "v = varr[(0, 1)] ? 1 : 2;"),
    ("read_idx_array", "varr = [varr[(0, 1)], 1];"),
    ("read_idx_decl_dim", "var x[varr[(1, 2)]];"),
    ("read_idx_lhs_in_idx", "arr[varr[(0, 1)]] <== a;"),
    ("read_idx_msub_lhs", "(arr[varr[A0()()]], p) <== (a, b);"),
]


def deep():
    out = []
    for hl in ("T", "F"):
        for lab, body in DEEP:
            out.append(("%s/deep/%s" % (hl, lab), c18gen.program(hl, body, extra=EXTRA)))
    return out
