"""Random parser-producible programs for C18 (grammar based, seeded).

Where `c18gen.matrix` puts ONE sugar form into ONE position, this generator
draws whole bodies from the grammar of parser/src/lang.lalrpop: every
expression position of every statement kind may hold any expression, tuples
nest to depth 4 on either side of an assignment, anonymous components with
0/1/2/3 outputs occur inside tuples inside tuples, in conditions, in array
indices of variables that are READ, in call arguments, log arguments, return
values and loop bodies; named inputs are written in any order with every
assignment operator (and with wrong / duplicated / missing names); `_`
occurs as destination and as value.

Two biases are mixed, because a uniform draw is rejected by the desugarer almost
always:
 * `valid`  - sugar only where Circom allows it, arities and output counts
              matching (most programs are ACCEPTED: the expansion is compared);
 * `wild`   - sugar anywhere (most programs are REJECTED: the decision, the
              report, its message and its location are compared).
Every compound sub-expression is parenthesised, so the text parses to the tree
that was drawn (`(e)` with one element is a parenthesis, not a tuple).

Third audit: statement nesting goes to depth 4; for 65 % of the programs the CALLEE
templates are drawn too (`prelude` / `callee`: several symbols per declaration, tuple
declarations, array / tagged / initialised ports, ports under if / else / for / while /
nested blocks, outputs first, shuffled order, `custom`, `parallel`), and the generator
returns their ports in the order it wrote the declarations; `parser_pairs` draws
statements in the spellings the PARSER desugars (`==>`, `-->`, multi-symbol
declarations, named inputs) together with their plain spelling.
"""
import c18gen

# name -> (inputs, outputs, has parameter)
TEMPLATES = {
    "A0": ([], ["y"], False), "A1": (["x1"], ["y"], False), "A2": (["x1", "x2"], ["y"], False),
    "A3": (["x1", "x2", "x3"], ["y"], False), "B00": ([], [], False), "B10": (["x1"], [], False),
    "B12": (["x1"], ["y1", "y2"], False), "B22": (["x1", "x2"], ["y1", "y2"], False),
    "B23": (["x1", "x2"], ["y1", "y2", "y3"], False), "P1": (["x1"], ["y"], True),
}


def by_outputs(templates):
    out = {}
    for n, (_i, o, _p) in templates.items():
        out.setdefault(len(o), []).append(n)
    return out


BY_OUTPUTS = by_outputs(TEMPLATES)

# ---- callee templates: every spelling that decides the recorded port order ------------
SHAPES = [("A0", 0, 1, False), ("A1", 1, 1, False), ("A2", 2, 1, False), ("A3", 3, 1, False), ("B00", 0, 0, False),
          ("B10", 1, 0, False), ("B12", 1, 2, False), ("B22", 2, 2, False), ("B23", 2, 3, False), ("P1", 1, 1, True),
          ("C32", 3, 2, False), ("C13", 1, 3, True)]


def callee(r, name, n_in, n_out, has_param, feats):
    """One callee template as text, with its ports in DECLARATION order:
    -> (text, [(input, dims)], [(output, dims)], is_custom).  The order is fixed HERE, by the order in which
    the declarations are written out; nothing reads it back from an AST."""
    ports = [("input", "x%d" % (k + 1)) for k in range(n_in)] + \
            [("output", ("y%d" % (k + 1)) if n_out > 1 else "y") for k in range(n_out)]
    style = r.randrange(4)
    if style == 1:
        ports = [p for p in ports if p[0] == "output"] + [p for p in ports if p[0] == "input"]
        if n_in and n_out:
            feats.add("callee_outputs_first")
    elif style >= 2:
        r.shuffle(ports)
        feats.add("callee_shuffled")
    # groups of consecutive ports of one kind -> one declaration with several symbols
    groups = []
    for kind, nm in ports:
        dims = 0 if r.random() < 0.8 else r.randrange(1, 3)
        if groups and groups[-1][0] == kind and r.random() < 0.55:
            groups[-1][1].append((nm, dims))
        else:
            groups.append((kind, [(nm, dims)]))
    ins, outs = [], []
    units = []                                    # texts of the declarations, in order
    for kind, syms in groups:
        tags = ""
        if r.random() < 0.12:
            tags = r.choice([" {tg}", " {t1, t2}"])
            feats.add("callee_tag")

        def sym(nm, dims):
            return nm + "".join("[%s]" % r.choice(["2", "3", "n"] if has_param else ["2", "3"]) for _ in range(dims))
        if len(syms) > 1:
            feats.add("callee_multi_symbol")
        if any(d for _n, d in syms):
            feats.add("callee_array_port")
        if len(syms) > 1 and r.random() < 0.2:
            text = "signal %s%s (%s);" % (kind, tags, ", ".join(sym(n, d) for n, d in syms))
            feats.add("callee_tuple_decl")
        elif kind == "output" and r.random() < 0.2:
            op = r.choice(["<==", "<--"])
            text = "signal %s%s %s;" % (kind, tags, ", ".join("%s %s %d" % (sym(n, d), op, k) for k, (n, d) in enumerate(syms)))
            feats.add("callee_init_port")
        else:
            text = "signal %s%s %s;" % (kind, tags, ", ".join(sym(n, d) for n, d in syms))
        (ins if kind == "input" else outs).extend(syms)
        units.append(text)
    # junk between the declarations, and control flow around them
    body = []
    k = 0
    while k < len(units):
        u = units[k]
        j = r.randrange(20)
        if j < 11:
            body.append(u)
        elif j == 11 and k + 1 < len(units):
            body.append("if (%s) { %s } else { %s }" % (r.choice(["1 == 1", "0", "n == 0" if has_param else "1"]), u, units[k + 1]))
            k += 1
            feats.add("callee_port_in_if_else")
        elif j == 12:
            body.append("if (%s) { %s }" % (r.choice(["1", "0"]), u))
            feats.add("callee_port_in_if")
        elif j == 13:
            body.append("for (var i%d = 0; i%d < 1; i%d++) { %s }" % (k, k, k, u))
            feats.add("callee_port_in_loop")
        elif j == 14:
            body.append("while (0) { %s }" % u)
            feats.add("callee_port_in_loop")
        elif j == 15:
            body.append("{ %s }" % u)
            feats.add("callee_port_in_block")
        elif j == 16:
            body.append("if (1) { { %s } while (0) { var u%d = 0; } }" % (u, k))
            feats.add("callee_port_nested")
        elif j == 17:
            body.append("signal m%d; %s" % (k, u))
        elif j == 18:
            body.append("var k%d = 0, j%d; %s component c%d;" % (k, k, u, k))
        else:
            body.append(u)
        k += 1
    plain_in = [n for n, d in ins if d == 0]
    for n, d in outs:
        if d == 0 and r.random() < 0.5 and not any(("%s <" % n) in b for b in body):
            body.append("%s <== %s;" % (n, plain_in[0] if plain_in else "1"))
    custom = r.random() < 0.06
    par = r.random() < 0.1
    if custom:
        feats.add("callee_custom")
    if par:
        feats.add("callee_parallel")
    head = "template %s%s%s(%s)" % ("custom " if custom else "", "parallel " if par else "", name, "n" if has_param else "")
    return "%s { %s }\n" % (head, " ".join(body)), ins, outs, custom


def prelude(r, feats):
    """A program prelude with freshly drawn callee templates: -> (text, TEMPLATES-like table, ports table)."""
    texts, table, ports = [], {}, {}
    any_custom = False
    shapes = list(SHAPES)
    if r.random() < 0.3:
        r.shuffle(shapes)
    for name, n_in, n_out, has_param in shapes:
        text, ins, outs, custom = callee(r, name, n_in, n_out, has_param, feats)
        any_custom = any_custom or custom
        texts.append(text)
        table[name] = ([n for n, _d in ins], [n for n, _d in outs], has_param)
        ports[name] = (ins, outs)
    head = "pragma circom 2.0.0;\n" + ("pragma custom_templates;\n" if any_custom else "")
    return head + "".join(texts) + "function f1(x) { return x + 1; }\n", table, ports

INFIX = ["+", "-", "*", "/", "\\", "%", "**", "<<", ">>", "&", "|", "^", "==", "!=", "<", ">", "<=", ">=", "&&", "||"]
PREFIX = ["-", "!", "~"]
OPS = ["<==", "<--", "="]


class Gen:
    def __init__(self, rng, host, mode, templates=None):
        self.r = rng
        self.host = host        # "T" | "F"
        self.mode = mode        # "valid" | "wild"
        self.templates = templates or TEMPLATES
        self.by_outputs = by_outputs(self.templates)
        self.fresh = 0
        self.loopvars = []
        self.features = set()

    # ---- helpers -------------------------------------------------------
    def p(self, x):
        return self.r.random() < x

    def pick(self, xs):
        return xs[self.r.randrange(len(xs))]

    def name(self):
        self.fresh += 1
        return "z%d" % self.fresh

    # ---- sugar-free expressions ------------------------------------------
    def leaf(self):
        k = self.r.randrange(12)
        if k < 4:
            return self.pick(["a", "b", "c"])
        if k < 6:
            return self.pick(["v", "w", "n"] + self.loopvars)
        if k < 8:
            return str(self.r.randrange(4))
        if k == 8:
            return "arr[%s]" % self.pick(["0", "1", "v"] + self.loopvars)
        if k == 9:
            return "arr2[%s][%s]" % (self.pick(["0", "1"] + self.loopvars), self.pick(["0", "1", "v"]))
        if k == 10:
            return self.pick(["cc.y", "cs[0].y", "cs[v].y", "0x1f"])
        return self.pick(["varr[1]", "varr[w]", "o", "p"])

    def plain(self, d):
        """Sugar-free expression, nesting at most d."""
        if d <= 0 or self.p(0.45):
            return self.leaf()
        k = self.r.randrange(10)
        if k < 4:
            return "(%s %s %s)" % (self.plain(d - 1), self.pick(INFIX), self.plain(d - 1))
        if k == 4:
            return "(%s%s)" % (self.pick(PREFIX), self.plain(d - 1))
        if k == 5:
            return "(%s ? %s : %s)" % (self.plain(d - 1), self.plain(d - 1), self.plain(d - 1))
        if k == 6:
            return "f1(%s)" % self.plain(d - 1)
        if k == 7:
            return "f2(%s, %s)" % (self.plain(d - 1), self.plain(d - 1))
        if k == 8:
            return "[%s, %s]" % (self.plain(d - 1), self.plain(d - 1))
        return "arr[%s]" % self.plain(d - 1)

    # ---- sugar ----------------------------------------------------------
    def anon(self, d, outputs=None, valid=True):
        """An anonymous component call; `outputs`: required number of outputs
        (None: any).  valid: arity and names right, arguments single valued."""
        if outputs is None:
            t = self.pick(list(self.templates))
        else:
            t = self.pick(self.by_outputs.get(outputs) or list(self.templates))
        ins, outs, has_param = self.templates[t]
        if not valid and self.p(0.08):
            t = "Nope"
        self.features.add("anon%d" % len(outs))
        params = ""
        if has_param:
            params = self.plain(1) if valid or self.p(0.8) else self.expr(d - 1, valid=False)
            if not valid and self.p(0.1):
                params = ""
        elif not valid and self.p(0.05):
            params = self.plain(0)
        n = len(ins)
        if not valid and self.p(0.15):
            n = max(0, n + self.pick([-1, 1]))
        args = []
        for _ in range(n):
            if valid:
                args.append(self.value(d - 1, 1))
            else:
                args.append(self.expr(d - 1, valid=False))
        named = n > 0 and self.p(0.45)
        if named:
            self.features.add("named")
            names = list(ins[:n]) + ["x%d" % (k + 1) for k in range(len(ins), n)]
            if not valid and self.p(0.2):
                k = self.r.randrange(n)
                names[k] = self.pick(["zz", names[0], "x9"])
            items = ["%s %s %s" % (nm, self.pick(OPS), a) for nm, a in zip(names, args)]
            if self.p(0.7):
                self.r.shuffle(items)
                self.features.add("named_perm")
            text = "%s(%s)(%s)" % (t, params, ", ".join(items))
        else:
            text = "%s(%s)(%s)" % (t, params, ", ".join(args))
        if self.p(0.08):
            self.features.add("parallel")
            text = "(parallel %s)" % text
        return text

    def value(self, d, count):
        """A VALID expression standing for exactly `count` values (count >= 1);
        count == 1 never yields a tuple."""
        if count == 1:
            if d > 0 and self.p(0.4):
                return self.anon(d, outputs=1)
            return self.plain(min(d, 2))
        if d > 0 and count in (2, 3) and self.p(0.3):
            return self.anon(d, outputs=count)
        return self.vtuple(d, count)

    def vtuple(self, d, count):
        """A tuple with `count` leaves (count >= 2), nested up to d more levels."""
        self.features.add("tuple")
        k = self.r.randrange(2, min(count, 4) + 1)
        # split count into k positive parts
        cuts = sorted(self.r.sample(range(1, count), k - 1)) if count > k - 1 and k > 1 else []
        parts = [b - a for a, b in zip([0] + cuts, cuts + [count])]
        elems = []
        for c in parts:
            if c == 1:
                elems.append(self.value(d - 1, 1))
            elif d > 1:
                elems.append(self.value(d - 1, c))
                self.features.add("nested_tuple")
            else:
                # out of depth: flatten here
                elems += [self.value(0, 1) for _ in range(c)]
        if len(elems) < 2:
            elems.append(self.value(0, 1))
        return "(%s)" % ", ".join(elems)

    def lvalue(self):
        k = self.r.randrange(10)
        if k < 3:
            return self.pick(["o", "p", "q"])
        if k < 5:
            return self.pick(["v", "w"])
        if k == 5:
            return "arr[%s]" % self.pick(["0", "1", "v"] + self.loopvars)
        if k == 6:
            return "arr2[%s][%s]" % (self.pick(["0", "1"] + self.loopvars), self.pick(["0", "1"]))
        if k == 7:
            return self.pick(["cc.x1", "cs[1].x1", "varr[2]"])
        return "_"

    def ltuple(self, d, count):
        """Destination tuple with `count` destinations, nested up to d levels."""
        k = self.r.randrange(2, min(count, 4) + 1) if count >= 2 else 2
        cuts = sorted(self.r.sample(range(1, count), k - 1)) if count > k - 1 and k > 1 else []
        parts = [b - a for a, b in zip([0] + cuts, cuts + [count])]
        elems = []
        for c in parts:
            if c == 1 or d <= 1:
                elems += [self.lvalue() for _ in range(c)]
            else:
                elems.append(self.ltuple(d - 1, c))
                self.features.add("nested_ltuple")
        while len(elems) < 2:
            elems.append("_")
        return "(%s)" % ", ".join(elems)

    def expr(self, d, valid):
        """Any expression; with valid=False sugar may sit anywhere below it."""
        if valid:
            return self.plain(d)
        if d <= 0:
            return self.leaf()
        k = self.r.randrange(16)
        if k < 3:
            return self.leaf()
        if k < 5:
            return "(%s %s %s)" % (self.expr(d - 1, False), self.pick(INFIX), self.expr(d - 1, False))
        if k == 5:
            return "(%s%s)" % (self.pick(PREFIX), self.expr(d - 1, False))
        if k == 6:
            return "(%s ? %s : %s)" % (self.expr(d - 1, False), self.expr(d - 1, False), self.expr(d - 1, False))
        if k == 7:
            return "f%d(%s)" % ((1, self.expr(d - 1, False)) if self.p(0.6) else
                                (2, self.expr(d - 1, False) + ", " + self.expr(d - 1, False)))
        if k == 8:
            return "[%s, %s]" % (self.expr(d - 1, False), self.expr(d - 1, False))
        if k == 9:
            self.features.add("read_index")
            return "%s[%s]" % (self.pick(["arr", "varr", "cs"]), self.expr(d - 1, False)) + self.pick(["", "", ".y"])
        if k == 10:
            self.features.add("read_index")
            return "arr2[%s][%s]" % (self.expr(d - 1, False), self.expr(d - 1, False))
        if k < 13:
            self.features.add("tuple")
            n = self.r.randrange(2, 4)
            return "(%s)" % ", ".join(self.expr(d - 1, False) for _ in range(n))
        if k < 15:
            return self.anon(d, valid=self.p(0.5))
        return self.pick(["_", "(parallel %s)" % self.expr(d - 1, False)])

    # ---- statements -------------------------------------------------------
    def block(self, d, n=None):
        n = n or self.r.randrange(1, 4)
        return "{ %s }" % " ".join(self.stmt(d) for _ in range(n))

    def cond(self):
        if self.mode == "wild" and self.p(0.3):
            self.features.add("cond_sugar")
            return self.expr(2, False)
        return self.plain(2)

    def rhs1(self, d):
        """Right-hand side of a single assignment."""
        if self.mode == "wild" and self.p(0.5):
            return self.expr(d, False)
        if self.p(0.96 if self.mode == "valid" else 0.75):
            return self.value(d, 1)
        return self.value(d, self.r.randrange(2, 4))      # arity error

    def stmt(self, d):
        wild = self.mode == "wild"
        k = self.r.randrange(100)
        if k < 22:       # single substitution, three spellings
            lv = self.lvalue() if not (wild and self.p(0.25)) else \
                "%s[%s]" % (self.pick(["arr", "varr", "cs"]), self.expr(2, False)) + self.pick(["", ".x1"])
            e = self.rhs1(3)
            form = self.r.randrange(4)
            if form < 2:
                return "%s %s %s;" % (lv, self.pick(OPS), e)
            return "%s %s %s;" % (e, "==>" if form == 2 else "-->", lv)
        if k < 50:       # tuple assignment
            self.features.add("msub")
            n = self.r.randrange(2, 7)
            ld = self.r.randrange(1, 5)
            rd = self.r.randrange(1, 5)
            lhs = self.ltuple(ld, n)
            m = n if self.p(0.8 if wild else 0.96) else max(2, n + self.pick([-1, 1]))
            if wild and self.p(0.35):
                rhs = self.expr(rd, False)
                if self.p(0.3):
                    lhs = "(%s, %s)" % (self.expr(2, False), self.lvalue())
            else:
                rhs = self.value(rd, m)
            if ld >= 3:
                self.features.add("ldepth%d" % ld)
            if rd >= 3:
                self.features.add("rdepth%d" % rd)
            if self.p(0.25):
                return "%s ==> %s;" % (rhs, lhs)
            return "%s %s %s;" % (lhs, self.pick(OPS), rhs)
        if k < 60:       # declarations with initialisers
            self.features.add("decl")
            j = self.r.randrange(8)
            if j == 0:
                return "var %s = %s;" % (self.name(), self.rhs1(2))
            if j == 1:
                return "signal %s %s %s;" % (self.name(), self.pick(["<==", "<--"]), self.rhs1(2))
            if j == 2:
                return "component %s = %s;" % (self.name(), self.rhs1(2) if wild else self.pick(["A1()", "P1(2)", "parallel A1()"]))
            if j == 3:
                n = self.r.randrange(2, 4)
                m = n if self.p(0.8 if wild else 0.96) else n + 1
                return "var (%s) = %s;" % (", ".join(self.name() for _ in range(n)),
                                           self.value(3, m) if not (wild and self.p(0.3)) else self.expr(3, False))
            if j == 4:
                n = self.r.randrange(2, 5)
                return "signal (%s) %s %s;" % (", ".join(self.name() for _ in range(n)), self.pick(["<==", "<--"]),
                                               self.value(3, n) if not (wild and self.p(0.3)) else self.expr(3, False))
            if j == 5:
                return "var %s[%s];" % (self.name(), self.expr(2, False) if wild else self.plain(1))
            if j == 6:
                return "var %s = %s, %s = %s;" % (self.name(), self.plain(1), self.name(), self.rhs1(2))
            return "signal %s[%s];" % (self.name(), self.expr(2, False) if wild and self.p(0.5) else "2")
        if k < 66 and d > 0:
            if self.p(0.5):
                return "if (%s) %s" % (self.cond(), self.block(d - 1))
            return "if (%s) %s else %s" % (self.cond(), self.block(d - 1), self.block(d - 1))
        if k < 74 and d > 0:
            self.features.add("loop")
            if self.p(0.7):
                i = "i%d" % len(self.loopvars)
                init = "0" if not (wild and self.p(0.15)) else self.expr(2, False)
                step = "%s++" % i if not (wild and self.p(0.15)) else "%s = %s" % (i, self.expr(2, False))
                c = "%s < 2" % i if not (wild and self.p(0.2)) else self.cond()
                self.loopvars.append(i)
                body = self.block(d - 1)
                self.loopvars.pop()
                return "for (var %s = %s; %s; %s) %s" % (i, init, c, step, body)
            return "while (%s) %s" % (self.cond(), self.block(d - 1))
        if k < 78:
            l, r = (self.expr(2, False), self.expr(2, False)) if wild else (self.plain(2), self.plain(2))
            return "%s === %s;" % (l, r)
        if k < 81:
            return "assert(%s);" % (self.expr(3, False) if wild else self.plain(2))
        if k < 88:
            self.features.add("log")
            args = []
            for _ in range(self.r.randrange(0, 4)):
                j = self.r.randrange(5)
                if j == 0:
                    args.append(self.pick(['"s"', '""', '"a b"']))
                elif j == 1:
                    args.append(self.plain(2))
                elif j == 2 or not wild:
                    # tuples are valid log arguments (at any depth of tuples only)
                    args.append(self.logtuple(3))
                else:
                    args.append(self.expr(3, False))
            return "log(%s);" % ", ".join(args)
        if k < 91:
            return "return %s;" % (self.expr(3, False) if wild or self.p(0.03) else self.plain(2))
        if k < 95:       # expression statement: `T()(..);` is the valid form for 0 outputs
            if wild and self.p(0.5):
                return "%s;" % self.expr(3, False)
            return "%s;" % self.anon(3, outputs=self.pick([0, 0, 0, 1, 2]) if wild or self.p(0.04) else 0)
        if k < 97:
            return "%s %s %s;" % (self.pick(["v", "w", "varr[1]"]), self.pick(["+=", "-=", "*=", "<<=", "&="]),
                                  self.expr(2, False) if wild else self.plain(1))
        if k < 98:
            return "_ <== %s;" % self.rhs1(2)
        if d > 0:
            return self.block(d - 1)
        return "v++;"

    def logtuple(self, d):
        if d <= 0 or self.p(0.4):
            return self.plain(1)
        self.features.add("log_tuple")
        n = self.r.randrange(2, 4)
        return "(%s)" % ", ".join(self.logtuple(d - 1) for _ in range(n))


EXTRA = "function f2(x, y) { return x * y; }\n"


def programs(rng, n):
    """n seeded random programs: (label, source, mode, features, ports) - ports: the callee templates' ports in
    declaration order as the generator wrote them (None: the fixed prelude, c18gen.PORTS)."""
    out = []
    for i in range(n):
        mode = "valid" if rng.random() < 0.55 else "wild"
        host = "T" if rng.random() < 0.85 else "F"
        feats = set()
        pre, table, ports = (None, None, None)
        if rng.random() < 0.65:
            pre, table, ports = prelude(rng, feats)
        g = Gen(rng, host, mode, table)
        g.features = feats
        k = rng.randrange(1, 5)
        depth = rng.choice([2, 2, 2, 3, 3, 4])
        if depth >= 3:
            g.features.add("stmt_depth%d" % depth)
        body = [g.stmt(depth) for _ in range(k)]
        sep = rng.choice(["\n  ", " ", "\n\n   "])
        src = c18gen.program(host, sep.join(body), extra=EXTRA, prelude=pre)
        out.append(("rand/%s/%s/%d" % (mode, host, i), src, mode, sorted(g.features), ports))
    return out


# ---- the PARSER's share of the sugar --------------------------------------------------
# Three builders on the parser side decide what the desugarer is given: the grammar actions of
# `E ==> L` / `E --> L` (destination and value swapped, lang.lalrpop ParseSubstitution),
# ast_shortcuts::split_declaration_into_single_nodes[_and_multi_substitution] (declarations of several
# symbols, with one initialiser each or one tuple initialiser) and the named inputs of an anonymous
# component (`names`).  Each pair below is a statement in that spelling and the SAME statement in the plain
# spelling; lib/props/C18.py (parser_oracle) states what the AST of the first must be in terms of the AST of
# the second (metas erased).
OPTEXT = {"<==": "acs", "<--": "as", "=": "av"}


def parser_pairs(rng, n):
    """-> list of dicts: label, kind, sugared / reference (sources), host, expect (how to build the expected AST)."""
    out = []
    for i in range(n):
        host = "T" if rng.random() < 0.8 else "F"
        g = Gen(rng, host, "valid")
        kind = rng.choice(["rev", "rev", "decltuple", "decltuple", "decllist", "decllist", "named", "named"])
        wrap = "{S}"       # the statement stands at the top level of the body: the oracle finds it by position
        exp = {}
        if kind == "rev":
            arrow, plain = rng.choice([("==>", "<=="), ("-->", "<--")])
            cnt = rng.choice([1, 1, 2, 3, 4])
            if cnt == 1:
                lhs, rhs = g.lvalue(), g.value(3, 1)
                if lhs == "_":
                    lhs = "o"
            else:
                lhs, rhs = g.ltuple(rng.randrange(1, 4), cnt), g.value(rng.randrange(1, 4), cnt)
            sug = "%s %s %s;" % (rhs, arrow, lhs)
            ref = "%s %s %s;" % (lhs, plain, rhs)
        elif kind == "decltuple":
            kw, xt, ops = rng.choice([("var", "var", ["="]), ("signal", "(sig mid)", ["<==", "<--"]),
                                      ("signal input", "(sig in)", ["<==", "<--"]), ("signal output {tg}", "(sig out tg)", ["<==", "<--"]),
                                      ("component", "comp", ["="])])
            k = rng.randrange(1, 5)
            names = [g.name() for _ in range(k)]
            dims = [rng.choice([[], [], [], ["2"], ["3", "2"]]) for _ in range(k)]
            syms = ", ".join(nm + "".join("[%s]" % d for d in ds) for nm, ds in zip(names, dims))
            exp = {"xtype": xt, "decls": list(zip(names, dims))}
            if rng.random() < 0.8:
                op = rng.choice(ops)
                rhs = g.value(rng.randrange(1, 4), max(k, 2)) if k > 1 or rng.random() < 0.5 else g.value(2, 1)
                sug = "%s (%s) %s %s;" % (kw, syms, op, rhs)
                # the reference statement holds the same right-hand side under the same operator; the destination
                # tuple `(n1, .., nk)` is built by the oracle (a one-element parenthesis is not a tuple in an expression)
                ref = "(o, p) %s %s;" % (op, rhs)
                exp["init"] = True
                exp["op"] = OPTEXT[op]
            else:
                sug = "%s (%s);" % (kw, syms)
                ref = "v++;"
                exp["init"] = False
        elif kind == "decllist":
            kw, xt, op = rng.choice([("var", "var", "="), ("signal", "(sig mid)", "<=="), ("signal", "(sig mid)", "<--"),
                                     ("signal output", "(sig out)", "<=="), ("signal input {t1, t2}", "(sig in t1 t2)", "<--"),
                                     ("component", "comp", "=")])
            k = rng.randrange(1, 5)
            names = [g.name() for _ in range(k)]
            dims = [rng.choice([[], [], [], ["2"], ["3", "2"]]) for _ in range(k)]
            inits = [None if (op != "<--" and rng.random() < 0.35) else
                     (rng.choice(["A1()", "P1(2)"]) if kw == "component" else g.value(2, 1)) for _ in range(k)]
            sug = "%s %s;" % (kw, ", ".join(nm + "".join("[%s]" % d for d in ds) + ((" %s %s" % (op, e)) if e is not None else "")
                                            for nm, ds, e in zip(names, dims, inits)))
            ref = " ".join("%s %s %s;" % (nm, op, e) for nm, e in zip(names, inits) if e is not None) or "v++;"
            exp = {"xtype": xt, "decls": list(zip(names, dims)), "inits": [e is not None for e in inits]}
        else:
            t = rng.choice([x for x in TEMPLATES if TEMPLATES[x][0]])
            ins, outs, has_param = TEMPLATES[t]
            k = len(ins) if rng.random() < 0.8 else rng.randrange(1, 4)
            args = [g.value(2, 1) for _ in range(k)]
            names = [rng.choice(ins + ["zz", "x9"]) if rng.random() < 0.15 else (ins[j] if j < len(ins) else "x%d" % (j + 1)) for j in range(k)]
            ops = [rng.choice(OPS) for _ in range(k)]
            order = list(range(k))
            rng.shuffle(order)
            par = "parallel " if rng.random() < 0.15 else ""
            params = g.plain(1) if has_param else ""
            call_named = "%s%s(%s)(%s)" % (par, t, params, ", ".join("%s %s %s" % (names[j], ops[j], args[j]) for j in order))
            call_plain = "%s%s(%s)(%s)" % (par, t, params, ", ".join(args[j] for j in order))
            lv = rng.choice(["o <==", "v =", "(o, p) <--", "arr[0] <==", "_ <=="])
            sug, ref = "%s %s;" % (lv, call_named), "%s %s;" % (lv, call_plain)
            exp = {"names": [(OPTEXT[ops[j]], names[j]) for j in order]}
        out.append({"label": "parser/%s/%d" % (kind, i), "kind": kind, "host": host, "expect": exp,
                    "statement": sug, "reference_statement": ref,
                    "sugared": c18gen.program(host, wrap.format(S=sug), extra=EXTRA),
                    "reference": c18gen.program(host, wrap.format(S=ref), extra=EXTRA)})
    return out


# ---- wiring: which expression reaches which port ------------------------------------------------------------
# One anonymous component call with pairwise DISTINCT argument expressions and destinations, on drawn callee
# templates.  The generator states the wiring the property text demands - input port k of the DECLARATION order gets
# the k-th positional argument under `<==`, or the argument written with its name under the operator written with
# it; destination j of the tuple gets output port j of the declaration order, `_` drops it - without building any
# expansion.  lib/props/C18.py (wiring_oracle) reads the wiring back from the desugared template.
ARG_POOL = [("a", "(var a (acc))"), ("b", "(var b (acc))"), ("c", "(var c (acc))"), ("v", "(var v (acc))"), ("w", "(var w (acc))"),
            ("n", "(var n (acc))"), ("1", "(num 1)"), ("2", "(num 2)"), ("3", "(num 3)"), ("arr[0]", "(var arr (acc (aa (num 0))))"),
            ("arr[1]", "(var arr (acc (aa (num 1))))"), ("cc.y", "(var cc (acc (ca y)))")]
DEST_POOL = [("o", "o (acc)"), ("p", "p (acc)"), ("q", "q (acc)"), ("arr[2]", "arr (acc (aa (num 2)))"),
             ("arr2[0][1]", "arr2 (acc (aa (num 0)) (aa (num 1)))"), ("varr[1]", "varr (acc (aa (num 1)))")]


def wiring_programs(rng, n):
    out = []
    for i in range(n):
        feats = set()
        pre, table, ports = prelude(rng, feats)
        t = rng.choice(list(table))
        ins, outs, has_param = table[t]
        args = rng.sample(ARG_POOL, len(ins))
        named = bool(ins) and rng.random() < 0.6
        ops = [rng.choice(OPS) if named else "<==" for _ in ins]
        order = list(range(len(ins)))
        if named:
            rng.shuffle(order)
            call_args = ", ".join("%s %s %s" % (ins[k], ops[k], args[k][0]) for k in order)
        else:
            call_args = ", ".join(a[0] for a in args)
        call = "%s%s(%s)(%s)" % ("parallel " if rng.random() < 0.1 else "", t, "2" if has_param else "", call_args)
        op = rng.choice(OPS)
        dests = [d if rng.random() < 0.75 else ("_", None) for d in rng.sample(DEST_POOL, len(outs))]
        if len(outs) == 0:
            stmt = "%s;" % call
        elif len(outs) == 1:
            stmt = "%s %s %s;" % (dests[0][0], op, call) if rng.random() < 0.7 else "%s %s %s;" % (call, "==>" if op != "<--" else "-->", dests[0][0])
            if "==>" in stmt:
                op = "<=="
            elif "-->" in stmt:
                op = "<--"
        else:
            stmt = "(%s) %s %s;" % (", ".join(d[0] for d in dests), op, call)
        wrap = rng.choice(["{S}", "{S}", "if (v == 0) {{ {S} }}", "for (var i = 0; i < 2; i++) {{ {S} }}",
                           "for (var i = 0; i < 2; i++) {{ while (w < 2) {{ {S} w++; }} }}", "{{ {S} }}"])
        src = c18gen.program("T", wrap.format(S=stmt), extra=EXTRA, prelude=pre)
        if i % 4 == 0:
            src = c18gen.split_program(src, i % 8 == 0) or src
        out.append({"label": "wiring/%d" % i, "src": src, "statement": stmt, "template": t,
                    # port -> (operator, expression reaching it)
                    "inputs": {ins[k]: (OPTEXT[ops[k]], args[k][1]) for k in range(len(ins))},
                    # destination -> (operator, port read)
                    "outputs": {dests[j][1]: (OPTEXT[op], outs[j]) for j in range(len(outs)) if dests[j][1] is not None}})
    return out


# Fixed programs for shapes that a matrix of ONE form in ONE position cannot hold
# (each was drawn by hand from the review's list; the random generator covers
# their neighbourhood).
DEEP = [
    ("ldepth3", "(o, (p, (q, v))) <== (a, (b, B12()(c)));"),
    ("rdepth3_leak", "(o, p, q) <== (a, (b, (c, a)));"),
    ("rdepth3", "(o, p, q, v) <== (a, (b, (c, a)));"),
    ("ldepth3_only", "(o, (p, (q, v))) <== (a, b, c, a);"),
    ("rdepth4", "(o, p, q, v, w) <== (a, (b, (c, (a, b))));"),
    ("ldepth4", "(o, (p, (q, (v, w)))) <== (a, b, c, a, b);"),
    ("both4", "(((( o, p), q), v), w) <== (a, (b, (c, (a, b))));"),
    ("anon_in_t_in_t", "(o, p, q) <== (a, (b, A1()(c)));"),
    ("anon2_in_t_in_t", "(o, p, q, v) <== (a, (b, B12()(c)));"),
    ("anon3_in_t_in_t_in_t", "(o, p, q, v, w) <== (a, (b, (B23()(c, a))));"),
    ("anon3_in_t3", "(o, (p, q), (v, (w, _))) <== (a, (b, (c, B23()(c, a))));"),
    ("anon0_in_t_in_t", "(o, p) <== (a, (b, B00()()));"),
    ("rev_depth3", "(a, (b, (c, B12()(a)))) ==> (o, (p, (q, (v, w))));"),
    ("decl_depth3", "var (x, y, z, u) = (1, (2, (3, 4)));"),
    ("decl_s_depth3", "signal (x, y, z, u) <== (a, (b, B12()(c)));"),
    ("under_depth3", "(_, (_, (o, _))) <== (a, (b, (c, a)));"),
    ("loop_depth3", "for (var i = 0; i < 2; i++) { (arr[i], (p, (arr2[i][0], _))) <== (a, (b, B12()(c))); }"),
    ("named_in_depth3", "(o, (p, (q, v))) <== (a, (b, B22()(x2 <-- b, x1 = a)));"),
    ("log_depth3", "log((a, (b, (c, a))));"),
    ("log_depth4", "log(\"s\", (a, ((b, c), (a, (b, (c, 1))))), 1);"),
    ("log_depth3_anon", "log((a, (b, (c, A1()(a)))));"),
    ("read_idx_tuple", "o <== arr[(0, 1)];"),
    ("read_idx_anon", "o <== arr[A1()(a)];"),
    ("read_idx_tuple_deep", "o <== 1 + arr2[0][(a, b)];"),
    ("read_idx_cond", "if (arr[A1()(a)] == 0) { v = 1; }"),
    ("read_idx_assert", "assert(arr[(0, 1)] == 0);"),
    ("read_idx_call", "v = f1(varr[(0, 1)]);"),
    ("read_idx_log", "log(arr[A0()()]);"),
    ("read_idx_return", "return varr[(v, w)];"),
    ("read_idx_comp", "o <== cs[(0, 1)].y;"),
    ("read_idx_in_idx", "o <== arr[arr[(0, 1)]];"),
    ("read_idx_in_anon_arg", "o <== A1()(arr[(0, 1)]);"),
    ("read_idx_in_tuple", "(o, p) <== (arr[(0, 1)], b);"),
    ("read_idx_while", "while (varr[A0()()] < 2) { v++; }"),
    ("read_idx_ceq", "a === arr[(0, 1)];"),
    ("read_idx_switch", "v = varr[(0, 1)] ? 1 : 2;"),
    ("read_idx_array", "varr = [varr[(0, 1)], 1];"),
    ("read_idx_decl_dim", "var x[varr[(1, 2)]];"),
    ("read_idx_lhs_in_idx", "arr[varr[(0, 1)]] <== a;"),
    ("read_idx_msub_lhs", "(arr[varr[A0()()]], p) <== (a, b);"),
]


def deep():
    out = []
    for hl in ("T", "F"):
        for lab, body in DEEP:
            out.append(("%s/deep/%s" % (hl, lab), c18gen.program(hl, body, extra=EXTRA)))
    return out
