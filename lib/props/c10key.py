"""C10 LINT (outside the proof obligations): reads `Environment::version_key`
from the text of program_structure/src/control_flow_graph/ssa_impl.rs.

The function is private, so the key of the SSA version maps cannot be run. What
the property needs is observed behaviourally (lib/props/C10.py `ssa_failures`:
two (name, suffix) pairs that share a key share a version counter), and the
theorem C10_ssa_keys_injective is about the transcription
Model.UniqueVars.ssa_key. This reader adds a textual cross-check and never
decides an obligation:

* it turns the two cases of the function (a `match name.suffix()` or an
  `if let Some(..) = name.suffix()`; arms with or without braces; `format!` with
  `{}`, positional `{0}` or inline `{ident}` holes; `.to_string()` & co.) into
  piece lists (name / suffix / literal bytes);
* verdict `separating`: the extracted decision Model.UniqueVars.key_format_ok
  accepts the format (the class C10_separating_key_formats_injective is about);
  `colliding`: rendering the format over a pool of identifiers and suffixes
  gives two different (name, suffix) pairs with one key (the pair is reported;
  C10.py turns it into a VIOLATION without input only if no generated program
  exposed the shared counter); `outside the proved class`: neither; `not
  understood`: the reader could not read the function (a warning, counted in
  the evidence, never a violation: a harmless rewrite must not alarm);
* the identifiers that are themselves the key of a suffixed `x` under the format
  read (`x_v0`, `x_v10` .. for `"{}_v{}"`) are handed to the generator
  (`lookalikes`), and the bytes of the literal join the alphabet of the
  collision search: a literal that starts with an identifier byte is `colliding`;
* it counts the accesses to the version maps and how many visibly go through
  `version_key` (information only).
"""
import os
import re

import common

SRC = "program_structure/src/control_flow_graph/ssa_impl.rs"
MAPS = ("scoped_versions", "global_versions")


def cstr(s):
    s = "".join(c if 32 <= ord(c) <= 126 else "?" for c in s)
    return '"' + s.replace('"', '""') + '"'


def strip_comments(src):
    """Removes // and /* */ comments outside string literals."""
    out, i, n = [], 0, len(src)
    while i < n:
        c = src[i]
        if c == '"':
            j = i + 1
            while j < n and src[j] != '"':
                j += 2 if src[j] == "\\" else 1
            out.append(src[i:j + 1])
            i = j + 1
        elif src.startswith("//", i):
            j = src.find("\n", i)
            i = n if j < 0 else j
        elif src.startswith("/*", i):
            j = src.find("*/", i + 2)
            i = n if j < 0 else j + 2
        else:
            out.append(c)
            i += 1
    return "".join(out)


def braced(src, start):
    """src[start] == '{' -> (text between the braces, index after the closing brace)."""
    depth, i, n = 0, start, len(src)
    while i < n:
        c = src[i]
        if c == '"':
            i += 1
            while i < n and src[i] != '"':
                i += 2 if src[i] == "\\" else 1
        elif c == "{":
            depth += 1
        elif c == "}":
            depth -= 1
            if depth == 0:
                return src[start + 1:i], i + 1
        i += 1
    return None, n


def functions(src):
    """-> [(name, signature, body)] of every `fn` of the file (nested ones included in the outer body)."""
    out = []
    for m in re.finditer(r"\bfn\s+(\w+)\s*(?:<[^>{]*>)?\s*\(", src):
        j = src.find("{", m.end())
        semi = src.find(";", m.end())
        if j < 0 or (0 <= semi < j):
            continue
        body, _ = braced(src, j)
        if body is not None:
            out.append((m.group(1), " ".join(src[m.start():j].split()), body))
    return out


def norm(s):
    return " ".join(s.split())


def split_args(s):
    """Splits at top-level commas."""
    out, depth, cur, i = [], 0, [], 0
    while i < len(s):
        c = s[i]
        if c == '"':
            j = i + 1
            while j < len(s) and s[j] != '"':
                j += 2 if s[j] == "\\" else 1
            cur.append(s[i:j + 1])
            i = j + 1
            continue
        if c in "([{":
            depth += 1
        elif c in ")]}":
            depth -= 1
        if c == "," and depth == 0:
            out.append("".join(cur).strip())
            cur = []
        else:
            cur.append(c)
        i += 1
    if "".join(cur).strip():
        out.append("".join(cur).strip())
    return out


def unescape(lit):
    """Rust string literal body -> bytes, or None."""
    out, i = [], 0
    while i < len(lit):
        c = lit[i]
        if c == "\\":
            if i + 1 >= len(lit):
                return None
            e = lit[i + 1]
            simple = {"n": "\n", "t": "\t", "\\": "\\", '"': '"', "'": "'", "0": "\0", "r": "\r"}
            if e not in simple:
                return None
            out.append(simple[e])
            i += 2
        else:
            out.append(c)
            i += 1
    return "".join(out).encode()



def display_is_bare_name(repo):
    """`impl fmt::Display for VariableName` writes the bare name (so `{name}` in a
    format string of version_key is the name)?"""
    try:
        src = strip_comments(open(os.path.join(repo, "program_structure/src/intermediate_representation/ir.rs"),
                                  encoding="utf-8", errors="replace").read())
    except OSError:
        return False
    m = re.search(r"impl\s+(?:std::)?fmt::Display\s+for\s+VariableName\s*\{", src)
    if not m:
        return False
    body, _ = braced(src, m.end() - 1)
    return body is not None and re.search(r'write!\s*\(\s*f\s*,\s*"\{\}"\s*,\s*self\.name\s*\)', body) is not None and body.count("write!") == 1


def name_piece(e, suffix_var, param, bare):
    e = e.replace(" ", "")
    for pre in ("&", "*"):
        if e.startswith(pre):
            e = e[1:]
    for tail in (".as_str()", ".clone()", ".to_string()", ".to_owned()"):
        if e.endswith(tail):
            e = e[:-len(tail)]
    if e in (param + ".name()", param + ".name"):
        return ("name",)
    if e == param and bare:
        return ("name",)
    if suffix_var and e == suffix_var:
        return ("suffix",)
    return ("other", e)


def pieces_of(expr, suffix_var, param, bare):
    """The string an arm evaluates to, as pieces; ('other', text) for what is not understood."""
    e = expr.strip().rstrip(",;").strip()
    while e.startswith("{") and braced(e, 0)[1] == len(e):        # braces round an arm body
        e = e[1:-1].strip().rstrip(";").strip()
    if e.startswith("return "):
        e = e[7:].strip()
    compact = e.replace(" ", "")
    if not compact.startswith("format!"):
        for tail in (".to_string()", ".clone()", ".to_owned()", ".into()"):
            if compact.endswith(tail):
                return [name_piece(compact[:-len(tail)], suffix_var, param, bare)]
        if compact.startswith("String::from(") and compact.endswith(")"):
            return [name_piece(compact[13:-1], suffix_var, param, bare)]
    m = re.match(r'^format!\s*[\(\[{]\s*"((?:[^"\\]|\\.)*)"\s*(.*)[\)\]}]$', e, re.S)
    if not m:
        return [("other", norm(e))]
    fmt = unescape(m.group(1))
    if fmt is None:
        return [("other", norm(e))]
    fmt = fmt.decode()
    args = split_args(m.group(2).lstrip(",")) if m.group(2).strip() else []
    named = {}
    pos = []
    for a in args:
        mm = re.match(r"^(\w+)\s*=\s*(.*)$", a, re.S)
        if mm and not a.replace(" ", "").startswith(mm.group(1) + "=="):
            named[mm.group(1)] = mm.group(2)
        else:
            pos.append(a)
    out, lit, i, k = [], [], 0, 0

    def flush():
        if lit:
            out.append(("lit", "".join(lit).encode()))
            del lit[:]
    while i < len(fmt):
        c = fmt[i]
        if fmt.startswith("{{", i) or fmt.startswith("}}", i):
            lit.append(c)
            i += 2
        elif c == "{":
            j = fmt.find("}", i)
            if j < 0:
                return [("other", norm(e))]
            spec = fmt[i + 1:j]
            flush()
            if ":" in spec:
                return [("other", "{" + spec + "}")]        # {:?} and friends: another printed form
            if spec == "":
                if k >= len(pos):
                    return [("other", norm(e))]
                out.append(name_piece(pos[k], suffix_var, param, bare))
                k += 1
            elif spec.isdigit():
                if int(spec) >= len(pos):
                    return [("other", norm(e))]
                out.append(name_piece(pos[int(spec)], suffix_var, param, bare))
            elif re.match(r"^\w+$", spec):
                out.append(name_piece(named[spec], suffix_var, param, bare) if spec in named
                           else name_piece(spec, suffix_var, param, bare))
            else:
                out.append(("other", "{" + spec + "}"))
            i = j + 1
        elif c == "}":
            return [("other", norm(e))]
        else:
            lit.append(c)
            i += 1
    flush()
    return out


def split_arms(text):
    """Match arms `pattern => body`: a body in braces ends at its closing brace
    (a comma may follow), any other at the next top-level comma."""
    arms, i, n = [], 0, len(text)
    while i < n:
        j = text.find("=>", i)
        if j < 0:
            if text[i:].strip().strip(","):
                arms.append(text[i:].strip())
            break
        k = j + 2
        while k < n and text[k] == " ":
            k += 1
        if k < n and text[k] == "{":
            body, e = braced(text, k)
            if body is None:
                arms.append(text[i:].strip())
                break
            arms.append(text[i:e].strip())
            i = e
            while i < n and text[i] in " ,":
                i += 1
        else:
            rest = split_args(text[k:])
            first = rest[0] if rest else ""
            e = text.find(first, k) + len(first) if first else k
            arms.append(text[i:e].strip())
            i = e
            while i < n and text[i] in " ,":
                i += 1
    return arms


def read_version_key(src, bare):
    """-> (pieces of the Some case, pieces of the None case, note)"""
    fns = [f for f in functions(src) if f[0] == "version_key"]
    if len(fns) != 1:
        return None, None, "version_key: %d definitions" % len(fns)
    _, sig, body = fns[0]
    m = re.match(r"^(?:pub(?:\([a-z]+\))?\s+)?fn version_key\s*\(\s*(\w+)\s*:\s*&\s*VariableName\s*\)\s*->\s*String$", sig)
    if not m:
        return None, None, "signature: " + sig
    param = m.group(1)
    b = norm(body).rstrip(";").strip()
    if b.startswith("return "):
        b = b[7:].strip()
    subject = r"%s\s*\.\s*suffix\s*\(\s*\)(?:\s*\.\s*as_ref\s*\(\s*\))?" % re.escape(param)
    m = re.match(r"^match\s+&?\s*%s\s*\{(.*)\}$" % subject, b)
    if m:
        some = none = None
        for a in split_arms(m.group(1)):
            ma = re.match(r"^&?\s*Some\s*\(\s*(?:ref\s+)?(\w+)\s*\)\s*=>\s*(.*)$", a, re.S)
            if ma and some is None:
                some = pieces_of(ma.group(2), ma.group(1), param, bare)
                continue
            mb = re.match(r"^(?:&?\s*None|_)\s*=>\s*(.*)$", a, re.S)
            if mb and none is None:
                none = pieces_of(mb.group(1), None, param, bare)
                continue
            return None, None, "unexpected arm: " + a
        if some is None or none is None:
            return None, None, "an arm is missing"
        return some, none, "ok"
    m = re.match(r"^if let\s+&?\s*Some\s*\(\s*(?:ref\s+)?(\w+)\s*\)\s*=\s*&?\s*%s\s*(\{.*)$" % subject, b)
    if m:
        rest = m.group(2)
        then, j = braced(rest, 0)
        tail = rest[j:].strip()
        if then is None or not tail.startswith("else"):
            return None, None, "if let without else"
        tail = tail[4:].strip()
        els, j2 = braced(tail, 0) if tail.startswith("{") else (None, 0)
        if els is None or tail[j2:].strip():
            return None, None, "if let: else branch"
        return pieces_of(then, m.group(1), param, bare), pieces_of(els, None, param, bare), "ok"
    return None, None, "neither a match nor an if let on %s.suffix()" % param


def read_accesses(src):
    """Every symbol-keyed access (`*variable*` methods of environment.rs) to one of the version maps, file-wide:
    (function, map, method, key expression, keyed) -- keyed: the key expression is
    `&Self::version_key(..)` or a local bound by `let <id> = Self::version_key(..);`
    (information only)."""
    out = []
    for fname, _, body in functions(src):
        for m in re.finditer(r"\b(?:self\s*\.\s*)?(%s)\s*\.\s*(\w*variable\w*)\s*\(" % "|".join(MAPS), body):
            if m.group(2) in ("add_variable_block", "remove_variable_block", "variable_iter"):
                continue        # no symbol argument
            depth, j = 1, m.end()
            while j < len(body) and depth > 0:
                depth += body[j] in "([{"
                depth -= body[j] in ")]}"
                j += 1
            args = split_args(body[m.end():j - 1])
            key = norm(args[0]).replace(" ", "") if args else ""
            before = norm(body[:m.start()])
            keyed = bool(re.match(r"^&(?:Self|Environment)::version_key\(", key))
            mk = re.match(r"^&(\w+)$", key)
            if mk:
                binds = re.findall(r"let (?:mut )?%s\b[^;]*;" % re.escape(mk.group(1)), before)
                keyed = bool(binds) and re.match(r"^let(?:mut)?%s(?::String)?=(?:Self|Environment)::version_key\(" % re.escape(mk.group(1)),
                                                 binds[-1].replace(" ", "")) is not None
            out.append((fname, m.group(1), m.group(2), key, keyed))
    return out


def show_piece(p):
    if p[0] == "name":
        return "n"
    if p[0] == "suffix":
        return "s"
    if p[0] == "lit":
        return "l:" + p[1].hex()
    return "?" + p[1][:80]


def render(ps, n, s):
    return b"".join(n if p[0] == "name" else s if p[0] == "suffix" else p[1] for p in ps)


def lookalikes(some, bases=("x",), suffixes=("0", "1", "2", "10", "11", "12")):
    """Identifiers that ARE the key of a suffixed name under the format `some`
    (x + literal + 0 ..): fed into the name pools of the generator, so that a
    shared version counter is exposed by into_ssa whatever the literal is."""
    out = []
    for n in bases:
        for sfx in suffixes:
            try:
                k = render(some, n.encode(), sfx.encode()).decode()
            except UnicodeDecodeError:
                continue
            if re.match(r"^[$_]*[a-zA-Z][a-zA-Z$_0-9]*$", k) and k != n and k not in out:
                out.append(k)
    return out


def collision(some, none):
    """Two different (name, suffix) pairs with the same key, searched over identifiers
    made of x _ $ 0 1 (up to 4 bytes, starting like an identifier) and suffixes 0..11."""
    import itertools
    ident = re.compile(rb"^[$_]*[a-zA-Z][a-zA-Z$_0-9]*$")
    # the alphabet: x _ $ 0 1 and the bytes of the literals of the format itself (a
    # separator made of identifier letters, `_v`, collides only with names that contain it)
    alpha = bytearray(b"x_$01")
    for p in some + none:
        if p[0] == "lit":
            for b in p[1]:
                if b not in alpha and len(alpha) < 9:
                    alpha.append(b)
    names = []
    for l in range(1, 5):
        for t in itertools.product(bytes(alpha), repeat=l):
            w = bytes(t)
            if ident.match(w):
                names.append(w)
    # and, whatever their length, the keys of suffixed names that are identifiers themselves
    for w in lookalikes(some):
        if w.encode() not in names:
            names.append(w.encode())
    seen = {}
    for n in names:
        for s in [None] + [str(i).encode() for i in range(12)]:
            k = render(none, n, b"") if s is None else render(some, n, s)
            if k in seen and seen[k] != (n, s):
                a, b = seen[k], (n, s)
                return [[a[0].decode(), a[1].decode() if a[1] is not None else None],
                        [b[0].decode(), b[1].decode() if b[1] is not None else None], k.decode(errors="replace")]
            seen[k] = (n, s)
    return None


def lint(repo, decide):
    """-> dict for the evidence. `decide(line)`: the extracted key_format_ok (model driver, mode keyfmt)."""
    path = os.path.join(repo, SRC)
    try:
        src = strip_comments(open(path, encoding="utf-8", errors="replace").read())
    except OSError as e:
        return {"verdict": "not understood", "reader": "unreadable: %r" % (e,)}
    bare = display_is_bare_name(repo)
    some, none, note = read_version_key(src, bare)
    acc = read_accesses(src)
    info = {"reader": note, "accesses": len(acc), "accesses_visibly_keyed": sum(1 for a in acc if a[4]),
            "role": "lint outside the proof obligations; `not understood` / `outside the proved class` are warnings"}
    if some is None or any(p[0] == "other" for p in some + none):
        info["verdict"] = "not understood"
        if some is not None:
            info["some"], info["none"] = [show_piece(p) for p in some], [show_piece(p) for p in none]
        return info
    info["some"], info["none"] = [show_piece(p) for p in some], [show_piece(p) for p in none]
    info["lookalikes_fed_to_the_generator"] = lookalikes(some)
    info["pieces"] = {"some": [[p[0], p[1].hex() if p[0] == "lit" else None] for p in some],
                      "none": [[p[0], p[1].hex() if p[0] == "lit" else None] for p in none]}
    ok = decide(" ".join(info["some"]) + " ; " + " ".join(info["none"]))
    col = collision(some, none)
    if col is not None:
        info["verdict"] = "colliding"
        info["colliding_pairs"] = col
    elif ok == "1":
        info["verdict"] = "separating"
    else:
        info["verdict"] = "outside the proved class"
    info["key_format_ok"] = ok
    return info
