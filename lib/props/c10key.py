"""C10: regenerates coq/gen/SsaKey.v from the text of
program_structure/src/control_flow_graph/ssa_impl.rs.

`Environment::version_key` is private, so the Gallina `ssa_key` of
Model.UniqueVars cannot be run against it. Instead its definition is READ from
the source on every run: the two match arms of the function become two lists
of pieces (`KName`, `KSuffix`, `KLit bytes`), and every access to the version
maps in the file is listed with the expression used as key. Model.UniqueVars
renders `ssa_key` from the generated pieces; props/C10.v proves injectivity for
exactly the generated format (C10_ssa_key_format_separates is the decision,
C10_ssa_keys_injective the theorem) and that every map access goes through
`version_key` (C10_ssa_maps_keyed_by_version_key). Anything in the function
this reader does not understand becomes a `KOther "text"` piece, for which
nothing can be proved: an edit of the Rust function either changes the pieces
(and the obligations are re-checked against the new format) or breaks them.
"""
import os
import re

import common

SRC = "program_structure/src/control_flow_graph/ssa_impl.rs"
MAPS = ("scoped_versions", "global_versions")


def cstr(s):
    s = "".join(c if 32 <= ord(c) <= 126 else "?" for c in s)
    return '"' + s.replace('"', '""') + '"'


def strip_comments(src):
    """Removes // and /* */ comments outside string literals."""
    out, i, n = [], 0, len(src)
    while i < n:
        c = src[i]
        if c == '"':
            j = i + 1
            while j < n and src[j] != '"':
                j += 2 if src[j] == "\\" else 1
            out.append(src[i:j + 1])
            i = j + 1
        elif src.startswith("//", i):
            j = src.find("\n", i)
            i = n if j < 0 else j
        elif src.startswith("/*", i):
            j = src.find("*/", i + 2)
            i = n if j < 0 else j + 2
        else:
            out.append(c)
            i += 1
    return "".join(out)


def braced(src, start):
    """src[start] == '{' -> (text between the braces, index after the closing brace)."""
    depth, i, n = 0, start, len(src)
    while i < n:
        c = src[i]
        if c == '"':
            i += 1
            while i < n and src[i] != '"':
                i += 2 if src[i] == "\\" else 1
        elif c == "{":
            depth += 1
        elif c == "}":
            depth -= 1
            if depth == 0:
                return src[start + 1:i], i + 1
        i += 1
    return None, n


def functions(src):
    """-> [(name, signature, body)] of every `fn` of the file (nested ones included in the outer body)."""
    out = []
    for m in re.finditer(r"\bfn\s+(\w+)\s*(?:<[^>{]*>)?\s*\(", src):
        j = src.find("{", m.end())
        semi = src.find(";", m.end())
        if j < 0 or (0 <= semi < j):
            continue
        body, _ = braced(src, j)
        if body is not None:
            out.append((m.group(1), " ".join(src[m.start():j].split()), body))
    return out


def norm(s):
    return " ".join(s.split())


def split_args(s):
    """Splits at top-level commas."""
    out, depth, cur, i = [], 0, [], 0
    while i < len(s):
        c = s[i]
        if c == '"':
            j = i + 1
            while j < len(s) and s[j] != '"':
                j += 2 if s[j] == "\\" else 1
            cur.append(s[i:j + 1])
            i = j + 1
            continue
        if c in "([{":
            depth += 1
        elif c in ")]}":
            depth -= 1
        if c == "," and depth == 0:
            out.append("".join(cur).strip())
            cur = []
        else:
            cur.append(c)
        i += 1
    if "".join(cur).strip():
        out.append("".join(cur).strip())
    return out


def unescape(lit):
    """Rust string literal body -> bytes, or None."""
    out, i = [], 0
    while i < len(lit):
        c = lit[i]
        if c == "\\":
            if i + 1 >= len(lit):
                return None
            e = lit[i + 1]
            simple = {"n": "\n", "t": "\t", "\\": "\\", '"': '"', "'": "'", "0": "\0", "r": "\r"}
            if e not in simple:
                return None
            out.append(simple[e])
            i += 2
        else:
            out.append(c)
            i += 1
    return "".join(out).encode()


def name_piece(e, suffix_var):
    e = e.replace(" ", "")
    if e in ("name.name()", "&name.name()", "name.name", "&name.name"):
        return ("name",)
    if suffix_var and e in (suffix_var, "&" + suffix_var, "*" + suffix_var):
        return ("suffix",)
    return ("other", e)


def pieces_of(expr, suffix_var):
    """The string an arm evaluates to, as pieces; ('other', text) for what is not understood."""
    e = expr.strip().rstrip(",").strip()
    compact = e.replace(" ", "")
    for tail in (".to_string()", ".clone()", ".to_owned()", ".into()"):
        if compact.endswith(tail) and not compact.startswith("format!"):
            p = name_piece(compact[:-len(tail)], suffix_var)
            return [p]
    m = re.match(r'^format!\s*\(\s*"((?:[^"\\]|\\.)*)"\s*(.*)\)$', e, re.S)
    if not m:
        return [("other", norm(e))]
    fmt = unescape(m.group(1))
    if fmt is None:
        return [("other", norm(e))]
    fmt = fmt.decode()
    args = split_args(m.group(2).lstrip(",")) if m.group(2).strip() else []
    out, lit, i, k = [], [], 0, 0

    def flush():
        if lit:
            out.append(("lit", "".join(lit).encode()))
            del lit[:]
    while i < len(fmt):
        c = fmt[i]
        if fmt.startswith("{{", i) or fmt.startswith("}}", i):
            lit.append(c)
            i += 2
        elif c == "{":
            j = fmt.find("}", i)
            if j < 0:
                return [("other", norm(e))]
            spec = fmt[i + 1:j]
            flush()
            if spec == "":
                if k >= len(args):
                    return [("other", norm(e))]
                out.append(name_piece(args[k], suffix_var))
                k += 1
            elif re.match(r"^\w+$", spec) and not spec.isdigit():
                out.append(("suffix",) if spec == suffix_var else ("other", "{" + spec + "}"))
            else:
                out.append(("other", "{" + spec + "}"))
            i = j + 1
        elif c == "}":
            return [("other", norm(e))]
        else:
            lit.append(c)
            i += 1
    flush()
    if k != len(args):
        return [("other", norm(e))]
    return out


def read_version_key(src):
    """-> (pieces of the Some arm, pieces of the None arm, note)"""
    fns = [f for f in functions(src) if f[0] == "version_key"]
    if len(fns) != 1:
        return [("other", "version_key: %d definitions" % len(fns))], [("other", "version_key: %d definitions" % len(fns))], "not found"
    _, sig, body = fns[0]
    if not re.match(r"^fn version_key\s*\(\s*name\s*:\s*&VariableName\s*\)\s*->\s*String$", sig):
        return [("other", sig)], [("other", sig)], "signature"
    b = norm(body)
    m = re.match(r"^match name\.suffix\(\) \{(.*)\}$", b)
    if not m:
        return [("other", b)], [("other", b)], "not a match on name.suffix()"
    arms = split_args(m.group(1))
    some = none = None
    for a in arms:
        ma = re.match(r"^Some\s*\(\s*(?:ref\s+)?(\w+)\s*\)\s*=>\s*(.*)$", a, re.S)
        if ma and some is None:
            some = pieces_of(ma.group(2), ma.group(1))
            continue
        mb = re.match(r"^None\s*=>\s*(.*)$", a, re.S)
        if mb and none is None:
            none = pieces_of(mb.group(1), None)
            continue
        return [("other", b)], [("other", b)], "unexpected arm: " + a
    if some is None or none is None:
        return [("other", b)], [("other", b)], "an arm is missing"
    return some, none, "ok"


def read_accesses(src):
    """Every symbol-keyed access (`*variable*` methods of environment.rs) to one of the version maps, file-wide:
    (function, map, method, key expression, keyed) -- keyed iff the key is the
    local `name` bound by `let name = Self::version_key(name);` earlier in the
    same function."""
    out = []
    for fname, _, body in functions(src):
        for m in re.finditer(r"\b(?:self\s*\.\s*)?(%s)\s*\.\s*(\w*variable\w*)\s*\(" % "|".join(MAPS), body):
            if m.group(2) in ("add_variable_block", "remove_variable_block", "variable_iter"):
                continue        # no symbol argument
            depth, j = 1, m.end()
            while j < len(body) and depth > 0:
                depth += body[j] in "([{"
                depth -= body[j] in ")]}"
                j += 1
            args = split_args(body[m.end():j - 1])
            key = norm(args[0]) if args else ""
            before = norm(body[:m.start()])
            binds = re.findall(r"let (?:mut )?name\b[^;]*;", before)
            keyed = key.replace(" ", "") == "&name" and bool(binds) and \
                binds[-1].replace(" ", "") == "letname=Self::version_key(name);"
            out.append((fname, m.group(1), m.group(2), key, keyed))
    # nested fns are listed under both the outer and the inner name: keep one entry per text position is
    # not needed here (ssa_impl.rs has no nested fns); duplicates would only repeat a row
    return out


def show_piece(p):
    if p[0] == "name":
        return "KName"
    if p[0] == "suffix":
        return "KSuffix"
    if p[0] == "lit":
        return "KLit [%s]" % "; ".join("%d%%N" % b for b in p[1])
    return "KOther " + cstr(p[1][:200])


def fragment(repo):
    path = os.path.join(repo, SRC)
    try:
        src = strip_comments(open(path, encoding="utf-8", errors="replace").read())
    except OSError as e:
        src = ""
        note0 = "unreadable: %r" % (e,)
    else:
        note0 = None
    some, none, note = read_version_key(src)
    acc = read_accesses(src)
    t = ("(* GENERATED by lib/props/c10key.py from the text of %s\n"
         "   (fn Environment::version_key and every access to the version maps).\n"
         "   Do not edit: rewritten on every run of ./check C10.  Reader: %s *)\n" % (SRC, note0 or note))
    t += "From Coq Require Import String List NArith.\nImport ListNotations.\nLocal Open Scope string_scope.\n\n"
    t += ("(* a piece of the key string: the name, the suffix, literal bytes of the format\n"
          "   string, or source text the reader does not understand *)\n"
          "Inductive kpiece := KName | KSuffix | KLit (bytes : list N) | KOther (text : string).\n\n")
    t += "(* match name.suffix() { Some(suffix) => <this>, .. } *)\n"
    t += "Definition version_key_some : list kpiece := [%s].\n" % "; ".join(show_piece(p) for p in some)
    t += "(* match name.suffix() { .., None => <this> } *)\n"
    t += "Definition version_key_none : list kpiece := [%s].\n\n" % "; ".join(show_piece(p) for p in none)
    t += ("(* every get_variable / add_variable on scoped_versions / global_versions in the file:\n"
          "   (function, (map.method(key expression), keyed)) -- keyed: the key is the local `name`\n"
          "   bound by `let name = Self::version_key(name);` *)\n")
    rows = ["(%s, (%s, %s))" % (cstr(f), cstr("%s.%s(%s)" % (mp, meth, key)), "true" if k else "false") for f, mp, meth, key, k in acc]
    t += "Definition version_map_accesses : list (string * (string * bool)) :=\n  [%s].\n" % ";\n   ".join(rows)
    return t, {"some": [show_piece(p) for p in some], "none": [show_piece(p) for p in none],
               "accesses": len(acc), "accesses_keyed": sum(1 for a in acc if a[4]), "reader": note0 or note}


def gen(repo=None):
    t, info = fragment(repo or common.REPO)
    common.write_if_changed(os.path.join(common.COQ, "gen", "SsaKey.v"), t)
    return info
