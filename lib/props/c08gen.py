"""Generator of Circom files for C08 that records, while writing the text,
the ground truth the property speaks about:

* `assigns`: one record per `<--` / `-->` assignment the text contains
  (`anchor` = byte range the finding must be anchored at, `key` = the assigned
  signal as (name, access) with loop variables resolved to their declaring
  loop, `form` = how it was written);
* `constraints`: one record per constraint statement (`===`, `<==`, `==>`,
  constraint-assigned inputs of anonymous components) with its byte range and
  the set of signal keys it mentions.

Offsets are BYTE offsets of the UTF-8 text (the Writer counts encoded bytes;
comments may hold non-ASCII characters, everything outside comments is ASCII).
The generator knows nothing about the IR: keys are built from the emitted text
only.  "A constraint statement mentions the signal (name, access)" is decided
here as an OCCURRENCE in the written statement: every signal reference the
statement contains, wherever it stands - operand, left-hand side, or inside an
index expression of another reference (`t[s] === y` mentions `t[s]` and `s`;
`c.in1[s] <== e` mentions `c.in1[s]` and `s`) - is recorded with its own
(name, access text).  `Gen.inside` maps a key to the keys occurring inside its
index expressions; it is a function of the key text alone.

Round 6: `generate` also returns `main_line` (`component main = T(3);`): the
check analyses every file WITHOUT it (template library) and WITH it (program
archive) - the two front-end paths build their TemplateData at different call
sites - and demands the same findings in both.

Deliberate shapes (each counted in the coverage of the check, each the only
witness of some realistic edit):

* template headers `template T`, `template parallel T`, `template custom G`,
  `template custom parallel G` (the grammar fixes the order custom, parallel),
  `pragma custom_templates;` present or not, `parallel` in front of component
  instantiations and anonymous calls.  A `parallel` template is an ordinary
  template for C08 (`kind` = "template", `parallel` = True): every `<--` in it
  needs its finding; a custom template needs none.
* `dup`: the SAME target (`dup` = "scalar", "port", "elem-const" or
  "elem-loop": the same array element indexed by the enclosing loop variable)
  assigned with `<--`/`-->` in both branches of an if/else, optionally once
  more in a following `if` — statements that differ in nothing but their
  location (and right-hand side), the witness of an assignment identity that
  forgets the location.
* class `decl-tuple-dup-name` (known finding C08-decl-tuple-duplicate-name):
  `signal (t, t) <-- (e1, e2)` names one signal twice.
* third audit: signals, never-reassigned locals (`u0`, `u1`), `SIGNAL + 1` and
  nested references inside index expressions, on both sides (`a0[s1] <-- e`,
  `t[s] === y`, `c.in1[s]`, `cs[x0].out1`); signal tags on every kind of
  declaration (`signal input {binary} x0;`, `signal {t} a0[4];`,
  `signal {t} t3 <-- e`); a 3-dimensional signal `q0[2][2][2]`; a 2-dimensional
  component array `cm[2][2]`; a component whose input port is an array
  (`ca.in1[..]`); non-ASCII text (which contains `<--`) in line and block
  comments.  `idx_mention`: `S <-- e;` followed by a constraint statement in
  which S occurs ONLY inside an index (`A[S] === e2`, `A[S] <== e2`,
  `ca.in1[S] <== e2`, `e2 === cs[S].out1`): the only witness of an edit that
  stops collecting the signals read by index expressions.
* fourth audit: WHOLE-ARRAY and PARTIALLY INDEXED references, on both sides:
  `a0 <-- [e, e, e, e];`, `a0 <-- fa(4, e);`, `[..] --> m0[1];`,
  `q0[1] <-- [[e, e], [e, e]];`, `q0[1][0] <== [e, e];`, `ca.in1 <-- [e, e];`,
  `m0[1] === [e, e, e];`, `a0 === xs;`, `q0 === [[[..]]];`.  An access is the
  list of its components (`[..]` groups and `.port`); `rest` = the dimensions
  a reference leaves unindexed.

THE RULE "a constraint statement mentions the assigned signal" (fourth audit;
decided on the written text, never by asking the implementation): the
statement contains a reference with the SAME NAME whose access A' and the
access A of the assignment target are PREFIX-COMPATIBLE - A = A', A a proper
prefix of A' (the statement uses an element / sub-array of the assigned array:
`q0[1] <-- ..` and `q0[1][0] === x`), or A' a proper prefix of A (the statement
uses an array that contains the assigned signal: `q0[1] <-- ..` and `q0 ===
[[..]]`; `o[0] <-- e` and `o === p`).  Components are compared as texts, as
before (`q0[0][0]` does not mention `q0[1]`).  On fully indexed references (all
that was generated before) this is the old rule: equal name, equal access.
`mentions(key, constraint, exact=True)` is the old rule on everything - what
signal_assignments.rs implemented up to /repo 517e7a0 (`signal_use.access() ==
access`; repaired by 4f017e8 + 96648cc, which implement THE RULE); the class of
assignments on which the two differ is `partial-access-mention` (kept to tell
"the equality output" from anything else when a failure is reported)."""

NONQUAD_BIN = ["/", "\\", "%", ">>", "<<", "&", "|", "^", "<", ">", "==", "**"]
QUAD_BIN = ["+", "-", "*"]

PRELUDE = """pragma circom 2.1.4;
template Sub() {
    signal input in1;
    signal input in2;
    signal output out;
    out <== in1 * in2;
}
template Sub2() {
    signal input in1;
    signal output out1;
    signal output out2;
    out1 <== in1;
    out2 <== in1 * in1;
}
template Sub0() {
    signal input in1;
    in1 * in1 === in1;
}
template SubA() {
    signal input in1[2];
    signal output out;
    out <== in1[0] * in1[1];
}
function fa(n, a) {
    var r[n];
    for (var i = 0; i < n; i++) {
        r[i] = a + i;
    }
    return r;
}
"""

# comments: non-ASCII (2-, 3- and 4-byte characters), and text that looks like what the property counts
COMMENTS_LINE = ["// \u00e9t\u00e9 s0 <-- x0;", "// \u2200 x \u2208 \U0001d53d: a0[0] <-- 1 \u00b7 x0;", "// s1 --> \u00fc"]
COMMENTS_BLOCK = ["/* \u00e9 <-- */", "/* \u2200\U0001d53d */", "/* s0 <-- \u00df; */"]

SUBS = {"Sub": (["in1", "in2"], ["out"]), "Sub2": (["in1"], ["out1", "out2"]), "Sub0": (["in1"], [])}   # anonymous calls


def split_access(acc):
    """The components of an access text: `[i#3][s0 + 1].in1[0]` -> ['[i#3]', '[s0 + 1]', '.in1', '[0]']."""
    out, i, n = [], 0, len(acc)
    while i < n:
        if acc[i] == "[":
            depth, j = 0, i
            while j < n:
                if acc[j] == "[":
                    depth += 1
                elif acc[j] == "]":
                    depth -= 1
                    if depth == 0:
                        break
                j += 1
            out.append(acc[i:j + 1])
            i = j + 1
        elif acc[i] == ".":
            j = i + 1
            while j < n and (acc[j].isalnum() or acc[j] == "_"):
                j += 1
            out.append(acc[i:j])
            i = j
        else:       # not an access text this module writes
            out.append(acc[i:])
            break
    return out


def prefix_compatible(acc1, acc2):
    """One access is a prefix of the other (or they are equal), component by component."""
    a, b = split_access(acc1), split_access(acc2)
    n = min(len(a), len(b))
    return a[:n] == b[:n]


def mentions(key, con, exact=False):
    """THE RULE (see the module text): does the constraint record `con` mention the assignment target `key`?
    exact=True: equal name and equal access only (what the implementation's `==` on access vectors decides)."""
    name, acc = key[0], key[1]
    for m in con["mentions"]:
        if m[0] == name and (m[1] == acc or (not exact and prefix_compatible(m[1], acc))):
            return True
    # What the implementation does besides (needed only to recognise EXACTLY its output for the known-finding class):
    # for `T[i] <== e` the pass records the constraint `T === e` with the bare variable T as left-hand side
    # (signal_assignments.rs visit_statement: `Expression::Variable { name: var }`) next to the Update node that holds
    # the access - so under `==` on accesses a constraint assignment to an element of T also "uses" T with no access.
    if exact and acc == "" and con.get("lhs") and con["lhs"][0] == name:
        return True
    return False


def partial_only(key, con):
    """The constraint mentions the target, but by no reference with an equal access."""
    return mentions(key, con) and not mentions(key, con, exact=True)


class Writer:
    def __init__(self):
        self.parts = []
        self.pos = 0

    def put(self, s):
        start = self.pos
        self.parts.append(s)
        self.pos += len(s.encode("utf-8"))
        return (start, self.pos)

    def text(self):
        return "".join(self.parts)


class Gen:
    def __init__(self, rng, size):
        self.rng = rng
        self.size = size
        self.w = Writer()
        self.defs = []          # per definition: dict(kind, name, assigns, constraints, other)
        self.loop_id = 0
        self.features = set()
        self.emit_known = True   # also write the shapes of the listed known-finding classes
        self.inside = {}          # key (name, access text) -> set of keys occurring inside its index expressions
        self.comp_men = {}        # one access component `[..]` (key text) -> set of keys occurring inside it

    # ---------------------------------------------------------------- helpers
    def ch(self, xs):
        return xs[self.rng.randrange(len(xs))]

    def p(self, x):
        return self.rng.random() < x

    # ---------------------------------------------------------------- expressions
    # an expression is (text, mentions) where mentions is a set of signal keys
    def men(self, key):
        """What a written reference with this key mentions: itself and every
        signal reference inside its index expressions."""
        return {key} | self.inside.get(key, set())

    def index(self, sc, dim, depth=0):
        """Index expression: (text, key text, set of signal keys occurring in it).
        Constants, loop variables (never reassigned inside the loop body),
        `i + 1`; third audit: a signal (scalar, or - one level deep - any
        reference), `SIGNAL + 1`, a local that is never reassigned (`u0`)."""
        loops = sc["loops"]
        r = self.rng.random()
        if depth == 0 and r < 0.16 and sc.get("idxsigs"):
            # a signal inside the index; a previously `<--`-assigned scalar preferred
            cands = [k for k, _, rest in sc["assigned"] if k[1] == "" and not rest and not k[0].startswith("<")
                     and any(g["name"] == k[0] for g in sc["readable"])]
            if cands and self.p(0.5):
                k = self.ch(cands)
                t = k[0]
            elif self.p(0.75):
                g = self.ch(sc["idxsigs"])
                t, k = g["name"], (g["name"], "")
            else:
                t, k = self.sig_ref(sc, self.ch(sc["readable"]), depth=1)
            self.features.add("index-signal")
            if self.p(0.2):
                return "%s + 1" % t, "%s + 1" % (k[0] + k[1]), self.men(k)
            return t, k[0] + k[1], self.men(k)
        if depth == 0 and r < 0.24 and sc.get("ixlocals"):
            u = self.ch(sc["ixlocals"])
            self.features.add("index-local")
            return u, u, set()
        if loops and self.p(0.75):
            name, lid = self.ch(loops)
            form = self.rng.randrange(4)
            if form == 0 and dim > 1:
                return "%s + 1" % name, "%s#%d + 1" % (name, lid), set()
            return name, "%s#%d" % (name, lid), set()
        c = self.rng.randrange(dim)
        return str(c), str(c), set()

    def indices(self, sc, dims, depth=0):
        """`[i][j]..` for the given dimensions: (text, key text, mentions)."""
        t, k, m = "", "", set()
        for d in dims:
            ti, ki, mi = self.index(sc, d, depth)
            t += "[%s]" % ti
            k += "[%s]" % ki
            m |= mi
            if mi:
                self.comp_men.setdefault("[%s]" % ki, set()).update(mi)
        return t, k, m

    def sig_ref(self, sc, sig, depth=0, port=None):
        """Reference to a declared signal-like thing: (text, key); the keys
        inside its indices are remembered in self.inside[key]."""
        t, k, m = self.indices(sc, sig.get("dims", []), depth)
        if sig["kind"] in ("comp", "comparr", "compmat"):
            pname, pdims = port or self.ch(sig["ports"])
            tp, kp, mp = self.indices(sc, pdims, depth)
            t, k, m = "%s.%s%s" % (t, pname, tp), "%s.%s%s" % (k, pname, kp), m | mp
        key = (sig["name"], k)
        if m:
            self.inside.setdefault(key, set()).update(m)
        return sig["name"] + t, key

    def leaf(self, sc, want=None):
        r = self.rng.random()
        if want is not None and r < 0.6:
            return want[0], self.men(want[1])
        if r < 0.55 and sc["readable"]:
            t, k = self.sig_ref(sc, self.ch(sc["readable"]))
            return t, self.men(k)
        if r < 0.65 and sc["compouts"]:
            c = self.ch(sc["compouts"])
            t, k, m = self.indices(sc, c.get("dims", []))
            return "%s%s.%s" % (c["name"], t, self.ch(c["outs"])), set(m)
        if r < 0.75 and sc["locals"]:
            return self.ch(sc["locals"]), set()
        if r < 0.82 and sc["loops"]:
            return self.ch(sc["loops"])[0], set()
        if r < 0.88 and sc["params"]:
            return self.ch(sc["params"]), set()
        return str(self.rng.randrange(0, 9)), set()

    def expr(self, sc, depth, nonquad=None, want=None):
        """Random expression; `want` = (text, key) of a signal reference to
        include with high probability (used to make constraints hit targets)."""
        if nonquad is None:
            nonquad = self.p(0.5)
        if depth <= 0:
            return self.leaf(sc, want)
        r = self.rng.random()
        if r < 0.55:
            op = self.ch(NONQUAD_BIN) if nonquad and self.p(0.6) else self.ch(QUAD_BIN)
            a, ma = self.expr(sc, depth - 1, nonquad, want)
            b, mb = self.expr(sc, depth - 1, nonquad, None if self.p(0.7) else want)
            return "%s %s %s" % (self.atom(a), op, self.atom(b)), ma | mb
        if r < 0.65:
            op = self.ch(["-", "!", "~"])
            a, ma = self.expr(sc, depth - 1, nonquad, want)
            return "%s%s" % (op, self.atom(a)), ma
        if r < 0.72:
            c, mc = self.expr(sc, depth - 1, nonquad, None)
            a, ma = self.expr(sc, depth - 1, nonquad, want)
            b, mb = self.expr(sc, depth - 1, nonquad, None)
            return "%s ? %s : %s" % (self.atom(c), self.atom(a), self.atom(b)), mc | ma | mb
        if r < 0.78 and sc["functions"]:
            a, ma = self.expr(sc, depth - 1, nonquad, want)
            return "%s(%s)" % (self.ch(sc["functions"]), a), ma
        return self.leaf(sc, want)

    @staticmethod
    def atom(t):
        if all(c.isalnum() or c in "_.[]#" for c in t):
            return t
        return "(" + t + ")"

    # ---------------------------------------------------------------- statements
    def target(self, sc):
        """A signal that may be assigned: (text, key)."""
        return self.sig_ref(sc, self.ch(sc["targets"]))

    def rec_assign(self, sc, anchor, key, form, extra=None, rest=()):
        rec = {"anchor": list(anchor), "key": list(key), "form": form}
        if rest:
            rec["rest"] = list(rest)      # the dimensions the target leaves unindexed (whole array / partial access)
        if key[0] in sc.get("tagged", ()):
            rec["tagged"] = True
        if self.inside.get(tuple(key)):
            rec["index_signal"] = True
        if any(u in key[1] for u in sc.get("ixlocals", ())):
            rec["index_local"] = True
        if extra:
            rec.update(extra)
        sc["def"]["assigns"].append(rec)
        if not key[0].startswith("<") and not (extra and extra.get("kf")):
            sc["assigned"].append((key, [l for l in sc["loops"]], list(rest)))
        self.features.add(form)

    def rec_constraint(self, sc, rng, mentions, form, only_in_index=None, lhs=None):
        rec = {"range": list(rng), "mentions": sorted(list(m) for m in mentions), "form": form}
        if only_in_index:
            # keys this statement mentions ONLY inside an index expression (idx_mention)
            rec["only_in_index"] = [list(k) for k in only_in_index]
        if lhs is not None:
            rec["lhs"] = list(lhs)     # `T <== e` / `e ==> T`: the constraint-assigned reference T
        sc["def"]["constraints"].append(rec)

    def wanted(self, sc):
        """Pick a previously `<--`-assigned target whose key is expressible in
        the current scope (all its loop variables are the enclosing ones)."""
        cands = [(key, rest) for key, _, rest in self.expressible(sc)]
        if not cands or self.p(0.25):
            return None
        key, rest = self.ch(cands)
        if rest:
            # the assigned signal is an array: a scalar context can only mention one of its ELEMENTS
            # (fourth audit: the access of the mention properly extends the access of the target)
            t, k, m = self.indices(sc, rest)
            ext = (key[0], key[1] + k)
            self.inside.setdefault(ext, set()).update(self.inside.get(key, set()) | m)
            self.features.add("mention-extends-target")
            return (self.text_of(key) + t, ext)
        return (self.text_of(key), key)

    @staticmethod
    def text_of(key):
        import re
        return re.sub(r"#\d+", "", key[0] + key[1])

    def expressible(self, sc):
        """The `<--`-assigned targets whose key can be written in the current scope: (key, loops, rest)."""
        out = []
        cur = set(sc["loops"])
        names = {g["name"] for g in sc["readable"]}
        for key, loops, rest in sc["assigned"]:
            key = tuple(key)
            if all(l in cur for l in loops if ("%s#%d" % l) in key[1]) and key[0] in names \
                    and all(m[0] in names for m in self.inside.get(key, ())):
                out.append((key, loops, rest))
        return out

    def indent(self, sc):
        self.w.put("    " * sc["depth"])

    def stmt(self, sc, budget):
        w = self.w
        r = self.rng.random()
        d = 2 if self.p(0.7) else 1
        if self.p(0.06):
            self.comment(sc)
        self.indent(sc)
        if self.p(0.04):
            w.put(self.ch(COMMENTS_BLOCK) + " ")
            self.features.add("non-ASCII comment")
        if self.p(0.07) and sc["depth"] < 4:
            self.idx_mention(sc)
            return
        if self.p(0.06) and sc["depth"] < 4 and self.partial_mention(sc):
            return
        if self.p(0.10) and self.arr_stmt(sc):
            return
        if r < 0.22:                                   # T <-- E;
            t, k = self.target(sc)
            e, _ = self.expr(sc, d)
            a = w.put("%s <-- %s" % (t, e))
            w.put(";\n")
            self.rec_assign(sc, a, k, "larrow")
        elif r < 0.30:                                 # E --> T;
            t, k = self.target(sc)
            e, _ = self.expr(sc, d)
            a = w.put("%s --> %s" % (self.atom(e), t))
            w.put(";\n")
            self.rec_assign(sc, a, k, "rarrow")
        elif r < 0.40:                                 # T <== E;  /  E ==> T;
            t, k = self.target(sc)
            e, m = self.expr(sc, d, want=self.wanted(sc))
            if self.p(0.7):
                a = w.put("%s <== %s" % (t, e))
            else:
                a = w.put("%s ==> %s" % (self.atom(e), t))
            w.put(";\n")
            self.rec_constraint(sc, a, m | self.men(k), "cassign", lhs=k)
        elif r < 0.55:                                 # L === R;
            want = self.wanted(sc)
            l, ml = self.expr(sc, d, want=want)
            rr, mr = self.expr(sc, 1, want=None if self.p(0.8) else want)
            s = w.pos
            w.put("%s === %s;" % (l, rr))
            self.rec_constraint(sc, (s, w.pos), ml | mr, "ceq")
            w.put("\n")
        elif r < 0.60 and sc["depth"] < 4:              # the same target in both branches
            self.dup_branch(sc)
        elif r < 0.64:                                 # tuples
            n = self.rng.randrange(2, 4)
            op = self.ch(["<--", "<--", "<==", "-->", "==>"])
            elems = []
            for _ in range(n):
                if self.p(0.15):
                    elems.append(("_", None))
                else:
                    elems.append(self.target(sc))
            vals = [self.expr(sc, 1, want=self.wanted(sc) if op in ("<==", "==>") else None) for _ in range(n)]
            if op in ("<--", "<=="):
                w.put("(")
                ranges = []
                for i, (t, k) in enumerate(elems):
                    if i:
                        w.put(", ")
                    ranges.append(w.put(t))
                w.put(") %s (%s);\n" % (op, ", ".join(v[0] for v in vals)))
            else:
                w.put("(%s) %s (" % (", ".join(v[0] for v in vals), op))
                ranges = []
                for i, (t, k) in enumerate(elems):
                    if i:
                        w.put(", ")
                    ranges.append(w.put(t))
                w.put(");\n")
            for (t, k), rg, (e, m) in zip(elems, ranges, vals):
                if k is None:
                    continue
                if op in ("<--", "-->"):
                    self.rec_assign(sc, rg, k, "tuple")
                else:
                    self.rec_constraint(sc, rg, m | self.men(k), "tuple-cassign", lhs=k)
        elif r < 0.70:                                 # signal declarations with initialisers
            form = self.rng.randrange(3)
            op = self.ch(["<--", "<--", "<=="])
            n = self.rng.randrange(1, 4)
            names = []
            for _ in range(n):
                names.append("t%d" % sc["fresh"][0])
                sc["fresh"][0] += 1
            vals = [self.expr(sc, 1, want=self.wanted(sc) if op == "<==" else None) for _ in range(n)]
            dupname = None
            if form == 2 and n >= 2 and op == "<--" and self.emit_known and self.p(0.12):
                # `signal (t, t) <-- (e1, e2)`: one signal named twice (known finding)
                names[1] = names[0]
                dupname = names[0]
                self.features.add("decl-tuple-dup-name")
            s = w.pos
            tg = self.tags()
            if tg:
                sc["tagged"].update(names)
            if form < 2 or n == 1:
                w.put("signal " + tg + ", ".join("%s %s %s" % (nm, op, v[0]) for nm, v in zip(names, vals)))
                fname = "decl-init"
            else:
                w.put("signal %s(%s) %s (%s)" % (tg, ", ".join(names), op, ", ".join(v[0] for v in vals)))
                fname = "decl-tuple"
            rg = (s, w.pos)
            w.put(";\n")
            for nm, (e, m) in zip(names, vals):
                if op == "<--":
                    extra = {"kf": "decl-tuple-dup-name", "dup_group": s} if nm == dupname else None
                    self.rec_assign(sc, rg, (nm, ""), fname, extra)
                else:
                    self.rec_constraint(sc, rg, m | {(nm, "")}, fname + "-cassign")
            # the new signals are in scope for the rest of this block only: readable there
            for nm in dict.fromkeys(names):
                if nm == dupname:
                    continue    # which of the two declarations a later mention resolves to is not the generator's business
                sc["readable"].append({"kind": "scalar", "name": nm})
                sc["block_signals"].append(nm)
        elif r < 0.80:                                 # anonymous components
            if sc["loops"]:
                self.features.add("anon-in-loop")
            self.anon(sc)
        elif r < 0.84:                                 # local variable
            nm = "v%d" % sc["fresh"][0]
            sc["fresh"][0] += 1
            e, _ = self.expr(sc, 1)
            w.put("var %s = %s;\n" % (nm, e))
            sc["locals"].append(nm)
            sc["block_locals"].append(nm)
        elif r < 0.87 and sc["locals"]:
            e, _ = self.expr(sc, 1)
            lv = self.ch(sc["locals"])
            if any(lv == l[0] for l in sc["loops"]):
                w.put("assert(%s == %s);\n" % (lv, lv))
            else:
                w.put("%s = %s;\n" % (lv, e))
        elif r < 0.89:
            e, _ = self.expr(sc, 1)
            w.put(self.ch(["assert(%s);\n", "log(%s);\n"]) % e)
        elif r < 0.95 and budget > 1 and sc["depth"] < 4:   # loop
            self.loop_id += 1
            lid = self.loop_id
            isfor = self.p(0.8)
            nm = self.ch(["i", "j", "k", "i%d" % lid]) if isfor else "w%d" % lid
            if any(nm == l[0] for l in sc["loops"]):
                nm = "i%d" % lid
            bound = self.ch(["2", "3", sc["params"][0] if sc["params"] else "2"])
            if isfor:
                w.put("for (var %s = 0; %s < %s; %s++) {\n" % (nm, nm, bound, nm))
                self.block(sc, budget - 1, loop=(nm, lid))
                self.indent(sc)
                w.put("}\n")
                self.features.add("for")
            else:
                w.put("var %s = 0;\n" % nm)
                self.indent(sc)
                w.put("while (%s < %s) {\n" % (nm, bound))
                self.block(sc, budget - 1, loop=(nm, lid), tail="%s++;\n" % nm)
                self.indent(sc)
                w.put("}\n")
                # the counter stays in scope but is never used after the loop
                sc["shadow"].append(nm)
                self.features.add("while")
        elif budget > 1 and sc["depth"] < 4:           # branch
            c, _ = self.expr(sc, 1)
            w.put("if (%s) {\n" % c)
            self.block(sc, budget - 1)
            self.indent(sc)
            if self.p(0.5):
                w.put("} else {\n")
                self.block(sc, budget - 1)
                self.indent(sc)
            w.put("}\n")
            self.features.add("if")
        else:
            e, _ = self.expr(sc, 1)
            w.put("log(%s);\n" % e)

    def comment(self, sc):
        """A line comment with non-ASCII text that looks like an assignment."""
        self.indent(sc)
        self.w.put(self.ch(COMMENTS_LINE) + "\n")
        self.features.add("non-ASCII comment")

    def idx_mention(self, sc):
        """`S <-- e;` then a constraint statement in which S occurs ONLY inside
        an index expression.  The current line is already indented."""
        w = self.w
        scal = [g for g in sc["targets"] if g["kind"] == "scalar"]
        arrs = [g for g in sc["readable"] if g["kind"] in ("array", "matrix", "tensor")]
        if not scal or not arrs:
            w.put("log(0);\n")
            return
        g = self.ch(scal)
        key = (g["name"], "")
        e, _ = self.expr(sc, 1, nonquad=True)
        a = w.put("%s <-- %s" % (g["name"], e))
        w.put(";\n")
        self.rec_assign(sc, a, key, "larrow", {"idx_mention": True})
        self.indent(sc)
        # the reference whose index is S: an array element, an array port, an output of a component array
        forms = ["arr-lhs-ceq", "arr-rhs-ceq"]
        if [t for t in arrs if t in sc["targets"]]:
            forms.append("arr-cassign")
        ports = [c for c in sc["targets"] if c["kind"] == "comp" and any(pd for _, pd in c["ports"])]
        if ports:
            forms.append("port-cassign")
        couts = [c for c in sc["compouts"] if c["kind"] == "comparr"]
        if couts:
            forms.append("compout-ceq")
        form = self.ch(forms)
        S = g["name"]
        def elem(arr):
            rest = "".join("[%d]" % self.rng.randrange(dd) for dd in arr["dims"][1:])
            k = (arr["name"], "[%s]%s" % (S, rest))
            self.comp_men.setdefault("[%s]" % S, set()).add(key)
            self.inside.setdefault(k, set()).add(key)
            return "%s[%s]%s" % (arr["name"], S, rest), k
        e2, m2 = self.expr(sc, 1)
        only = [key] if key not in m2 else None
        if form in ("arr-lhs-ceq", "arr-rhs-ceq"):
            t, k = elem(self.ch(arrs))
            s0 = w.pos
            w.put("%s === %s;" % ((t, self.atom(e2)) if form == "arr-lhs-ceq" else (self.atom(e2), t)))
            self.rec_constraint(sc, (s0, w.pos), m2 | self.men(k), "ceq", only)
            w.put("\n")
        elif form == "arr-cassign":
            t, k = elem(self.ch([t for t in arrs if t in sc["targets"]]))
            a = w.put("%s <== %s" % (t, e2))
            w.put(";\n")
            self.rec_constraint(sc, a, m2 | self.men(k), "cassign", only, lhs=k)
        elif form == "port-cassign":
            c = self.ch(ports)
            pname = [pn for pn, pd in c["ports"] if pd][0]
            k = (c["name"], ".%s[%s]" % (pname, S))
            self.comp_men.setdefault("[%s]" % S, set()).add(key)
            self.inside.setdefault(k, set()).add(key)
            a = w.put("%s.%s[%s] <== %s" % (c["name"], pname, S, e2))
            w.put(";\n")
            self.rec_constraint(sc, a, m2 | self.men(k), "cassign", only, lhs=k)
        else:
            c = self.ch(couts)
            s0 = w.pos
            w.put("%s === %s[%s].%s;" % (self.atom(e2), c["name"], S, self.ch(c["outs"])))
            self.rec_constraint(sc, (s0, w.pos), m2 | {key}, "ceq", only)
            w.put("\n")
        self.features.add("idx-mention")
        self.features.add("idx-mention:" + form)

    # ---------------------------------------------------------------- arrays as wholes (fourth audit)
    ARRAY_KINDS = ("array", "matrix", "tensor")

    def has_rest(self, g):
        return g["kind"] in self.ARRAY_KINDS or (g["kind"] in ("comp", "compmat") and any(pd for _, pd in g["ports"]))

    def note_inside(self, key):
        """Record what a key assembled from components written before mentions inside its indices."""
        m = set()
        for c in split_access(key[1]):
            m |= self.comp_men.get(c, set())
        if m:
            self.inside.setdefault(tuple(key), set()).update(m)

    def part_ref(self, sc, sig, keep=None):
        """A reference that leaves at least one dimension unindexed: (text, key, rest dims).  `a0`, `m0[1]`, `q0[i][0]`,
        `ca.in1`, `cm[0][1].in1`: for a component the component itself is fully indexed, the port partially."""
        if sig["kind"] in self.ARRAY_KINDS:
            dims = sig["dims"]
            n = self.rng.randrange(len(dims)) if keep is None else keep
            t, k, m = self.indices(sc, dims[:n])
            rest = dims[n:]
        else:
            pname, pdims = self.ch([pp for pp in sig["ports"] if pp[1]])
            t, k, m = self.indices(sc, sig.get("dims", []))
            n = self.rng.randrange(len(pdims)) if keep is None else keep
            tp, kp, mp = self.indices(sc, pdims[:n])
            t, k, m = "%s.%s%s" % (t, pname, tp), "%s.%s%s" % (k, pname, kp), m | mp
            rest = pdims[n:]
        key = (sig["name"], k)
        if m:
            self.inside.setdefault(key, set()).update(m)
        return sig["name"] + t, key, list(rest)

    def prefix_of(self, sc, key, rest):
        """A reference whose access is a PROPER PREFIX of the given assigned key (the array, or sub-array, that
        contains the assigned signal), or - for a target that is itself an array - possibly the key itself:
        (text, key', rest') or None.  Components of a component ARRAY are never dropped (`cs.in1` is no reference)."""
        sig = next((g for g in sc["readable"] if g["name"] == key[0]), None)
        if sig is None or not self.has_rest(sig):
            return None
        comps = split_access(key[1])
        if sig["kind"] in self.ARRAY_KINDS:
            dims, fixed = sig["dims"], 0
        else:
            port = next((i for i, c in enumerate(comps) if c.startswith(".")), None)
            if port is None:
                return None
            pd = [pd for pn, pd in sig["ports"] if "." + pn == comps[port]]
            if not pd or not pd[0]:
                return None
            dims, fixed = [None] * (port + 1) + list(pd[0]), port + 1
        lo, hi = fixed, len(comps) - (0 if rest else 1)
        if hi < lo:
            return None
        n = self.rng.randrange(lo, hi + 1)
        k2 = (key[0], "".join(comps[:n]))
        self.note_inside(k2)
        return self.text_of(k2), k2, list(dims[n:])

    def arr_expr(self, sc, dims, want=None):
        """An array-valued expression of the given dimensions: (text, mentions)."""
        if not dims:
            return self.expr(sc, 1, want=want)
        r = self.rng.random()
        if len(dims) == 1 and r < 0.15:
            e, m = self.expr(sc, 1, want=want)
            self.features.add("array-valued call")
            return "fa(%d, %s)" % (dims[0], e), m
        if r < 0.35:
            same = [g for g in sc["readable"] if g["kind"] in self.ARRAY_KINDS
                    and any(g["dims"][i:] == list(dims) for i in range(len(g["dims"])))]
            if same:
                g = self.ch(same)
                keep = [i for i in range(len(g["dims"])) if g["dims"][i:] == list(dims)]
                t, k, rest = self.part_ref(sc, g, keep=self.ch(keep))
                self.features.add("array-valued reference")
                return t, self.men(k)
        pick = self.rng.randrange(dims[0])
        parts = [self.arr_expr(sc, dims[1:], want if i == pick else None) for i in range(dims[0])]
        ms = set()
        for _, m in parts:
            ms |= m
        return "[%s]" % ", ".join(t for t, _ in parts), ms

    def arr_stmt(self, sc):
        """One statement between arrays: `T <-- AE;`, `AE --> T;`, `T <== AE;`, `AE ==> T;`, `AL === AR;` where T / AL
        leave dimensions unindexed.  The current line is already indented.  False when the scope has no array."""
        w = self.w
        tgts = [g for g in sc["targets"] if self.has_rest(g)]
        if not tgts:
            return False
        r = self.rng.random()
        if r < 0.45:
            t, k, rest = self.part_ref(sc, self.ch(tgts))
            e, _ = self.arr_expr(sc, rest)
            if self.p(0.75):
                a = w.put("%s <-- %s" % (t, e))
                form = "larrow"
            else:
                a = w.put("%s --> %s" % (e, t))
                form = "rarrow"
            w.put(";\n")
            self.rec_assign(sc, a, k, form, {"partial": "whole" if k[1] == "" else "partial"}, rest=rest)
            self.features.add("arrow to " + ("a whole array" if k[1] == "" else "a partially indexed array"))
            return True
        # a constraint statement; its array side prefers a prefix of (or the very) assigned target
        left = None
        cands = self.expressible(sc)
        self.rng.shuffle(cands)
        for key, _, rest in cands:
            if self.p(0.8):
                left = self.prefix_of(sc, key, rest)
                if left:
                    break
        mode = "prefix-of-target" if left else "free"
        if not left:
            pool = [g for g in sc["readable"] if self.has_rest(g)] if r >= 0.7 else tgts
            left = self.part_ref(sc, self.ch(pool))
        t, k, rest = left
        want = self.wanted(sc)
        e, m = self.arr_expr(sc, rest, want=want)
        if r < 0.7 and any(g["name"] == k[0] for g in tgts):
            if self.p(0.7):
                a = w.put("%s <== %s" % (t, e))
            else:
                a = w.put("%s ==> %s" % (e, t))
            w.put(";\n")
            self.rec_constraint(sc, a, m | self.men(k), "cassign-array", lhs=k)
        else:
            s0 = w.pos
            w.put("%s === %s;" % ((t, e) if self.p(0.6) else (e, t)))
            self.rec_constraint(sc, (s0, w.pos), m | self.men(k), "ceq-array")
            w.put("\n")
        self.features.add("array constraint: " + mode)
        return True

    def partial_mention(self, sc):
        """`T <-- E;` followed at once by a constraint statement that mentions T ONLY through an access that is a
        proper extension or a proper prefix of T's: the only witness of an edit of the access comparison that
        differs on partial accesses alone.  The current line is already indented."""
        w = self.w
        arrs = [g for g in sc["targets"] if g["kind"] in self.ARRAY_KINDS]
        if not arrs:
            return False
        g = self.ch(arrs)
        form = self.ch(["extends", "extends", "prefix", "prefix", "prefix-of-element"])
        if form == "prefix-of-element":
            t, k = self.sig_ref(sc, g)
            rest = []
            e, _ = self.expr(sc, 1, nonquad=True)
        else:
            lo = 1 if form == "prefix" and len(g["dims"]) > 1 else 0
            t, k, rest = self.part_ref(sc, g, keep=self.rng.randrange(lo, len(g["dims"])))
            if form == "prefix" and k[1] == "":
                form = "extends"
            e, _ = self.arr_expr(sc, rest)
        a = w.put("%s <-- %s" % (t, e))
        w.put(";\n")
        self.rec_assign(sc, a, k, "larrow", {"partial_mention": form}, rest=rest)
        self.indent(sc)
        if form == "extends":
            ti, ki, mi = self.indices(sc, rest[:self.rng.randrange(1, len(rest) + 1)])
            k2 = (k[0], k[1] + ki)
            rest2 = rest[len(split_access(ki)):]
            t2 = t + ti
        else:
            comps = split_access(k[1])
            n = self.rng.randrange(0, len(comps))
            k2 = (k[0], "".join(comps[:n]))
            rest2 = g["dims"][n:]
            t2 = self.text_of(k2)
        self.note_inside(k2)
        e2, m2 = self.arr_expr(sc, rest2)
        if self.p(0.3):
            a2 = w.put("%s <== %s" % (t2, e2))
            w.put(";\n")
            self.rec_constraint(sc, a2, m2 | self.men(k2), "cassign-array" if rest2 else "cassign", None, lhs=k2)
        else:
            s0 = w.pos
            e2 = e2 if rest2 else self.atom(e2)
            w.put("%s === %s;" % ((t2, e2) if self.p(0.5) else (e2, t2)))
            self.rec_constraint(sc, (s0, w.pos), m2 | self.men(k2), "ceq-array" if rest2 else "ceq", None)
            w.put("\n")
        self.features.add("partial-mention")
        self.features.add("partial-mention:" + form)
        return True

    def arrow(self, sc, t, k, extra):
        """One `T <-- E;` or `E --> T;` line for the given target."""
        w = self.w
        e, _ = self.expr(sc, 2 if self.p(0.5) else 1)
        self.indent(sc)
        if self.p(0.75):
            a = w.put("%s <-- %s" % (t, e))
            form = "larrow"
        else:
            a = w.put("%s --> %s" % (self.atom(e), t))
            form = "rarrow"
        w.put(";\n")
        self.rec_assign(sc, a, k, form, extra)

    def inner(self, sc, loop=None):
        """The scope of a nested block (what `block` builds)."""
        inner = dict(sc)
        inner["depth"] = sc["depth"] + 1
        inner["loops"] = sc["loops"] + ([loop] if loop else [])
        inner["locals"] = list(sc["locals"])
        inner["readable"] = list(sc["readable"])
        inner["block_signals"] = []
        inner["block_locals"] = []
        return inner

    def dup_branch(self, sc):
        """The same signal (scalar, component port, array element — inside a
        loop: the element indexed by the loop variable) assigned with `<--` in
        both branches of an if/else, as Circom allows when the condition is
        known at compile time; optionally a third time in a following `if`.
        The current line is already indented."""
        w = self.w
        arrays = [t for t in sc["targets"] if t["kind"] in ("array", "matrix", "tensor", "comparr", "compmat")]
        closer = None
        if not sc["loops"] and arrays and self.p(0.5):
            # build the loop here so that the element is indexed by its variable
            self.loop_id += 1
            lid = self.loop_id
            nm = self.ch(["i", "j", "k"])
            w.put("for (var %s = 0; %s < %s; %s++) {\n" % (nm, nm, self.ch(["2", "3"]), nm))
            closer = sc
            sc = self.inner(sc, loop=(nm, lid))
            self.indent(sc)
            self.features.add("for")
        if sc["loops"] and arrays and self.p(0.8):
            sig = self.ch(arrays)
            name, lid = sc["loops"][-1]
            it, ik = name, "%s#%d" % (name, lid)
            # the first dimension is indexed by the loop variable, the others by constants
            rest = [str(self.rng.randrange(d)) for d in sig["dims"][1:]]
            t = "[%s]" % it + "".join("[%s]" % c for c in rest)
            k = "[%s]" % ik + "".join("[%s]" % c for c in rest)
            if sig["kind"] in ("comparr", "compmat"):
                pname, pdims = self.ch(sig["ports"])
                pc = "".join("[%d]" % self.rng.randrange(d) for d in pdims)
                t, k = "%s.%s%s" % (t, pname, pc), "%s.%s%s" % (k, pname, pc)
            t, k = sig["name"] + t, (sig["name"], k)
            shape = "elem-loop"
        else:
            sig = self.ch(sc["targets"])
            t, k = self.sig_ref(sc, sig)
            shape = {"scalar": "scalar", "comp": "port"}.get(sig["kind"], "elem-loop" if "#" in k[1] else "elem-const")
        if sc["loops"] and self.p(0.7):
            cond = "%s %% 2 == 0" % sc["loops"][-1][0]
        elif sc["params"] and self.p(0.7):
            cond = "%s == %d" % (sc["params"][0], self.rng.randrange(3))
        else:
            cond = self.expr(sc, 1)[0]
        extra = {"dup": shape}
        body = self.inner(sc)
        w.put("if (%s) {\n" % cond)
        self.arrow(body, t, k, extra)
        self.indent(sc)
        w.put("} else {\n")
        self.arrow(self.inner(sc), t, k, extra)
        self.indent(sc)
        w.put("}\n")
        if self.p(0.3):
            self.indent(sc)
            w.put("if (%s) {\n" % self.expr(sc, 1)[0])
            self.arrow(self.inner(sc), t, k, extra)
            self.indent(sc)
            w.put("}\n")
        if closer is not None:
            self.indent(closer)
            w.put("}\n")
        self.features.add("if")
        self.features.add("dup-" + shape)

    def anon(self, sc):
        w = self.w
        sub = self.ch(["Sub", "Sub", "Sub2", "Sub0"])
        ins, outs = SUBS[sub]
        named = self.p(0.8)
        order = list(ins)
        if named and self.p(0.4):
            order.reverse()
        ops = [self.ch(["<--", "<--", "<=="]) for _ in order] if named else ["<=="] * len(order)
        vals = [self.expr(sc, 1, want=self.wanted(sc) if op == "<==" else None) for op in ops]
        if named:
            args = ", ".join("%s %s %s" % (nm, op, v[0]) for nm, op, v in zip(order, ops, vals))
        else:
            args = ", ".join(v[0] for v in vals)
        call = "%s()(%s)" % (sub, args)
        # `parallel Sub()(..)`: the findings for the inputs stay anchored at the call proper
        par = "parallel " if self.p(0.2) else ""
        if par:
            self.features.add("anon-parallel")
        s0 = w.pos
        outer = None
        if len(outs) == 1:
            t, k = self.target(sc)
            oop = self.ch(["<==", "<==", "<--"])
            w.put("%s %s %s" % (t, oop, par))
            cr = w.put(call)
            outer = [(oop, k, (s0, w.pos))]
        elif len(outs) == 2:
            oop = self.ch(["<==", "<--"])
            w.put("(")
            (t1, k1) = self.target(sc)
            r1 = w.put(t1)
            w.put(", ")
            (t2, k2) = self.target(sc)
            r2 = w.put(t2)
            w.put(") %s %s" % (oop, par))
            cr = w.put(call)
            outer = [(oop, k1, r1), (oop, k2, r2)]
        else:
            w.put(par)
            cr = w.put(call)
            outer = []
        w.put(";\n")
        for nm, op, (e, m) in zip(order, ops, vals):
            if op == "<--":
                # the assigned signal is an input of a component the user cannot name
                extra = None
                if named and len(order) == 1:
                    self.features.add("anon-single-named-arrow")
                self.rec_assign(sc, cr, ("<anon %d>" % cr[0], "." + nm), "anon-input", extra)
            else:
                self.rec_constraint(sc, cr, m, "anon-cinput")
        for oop, k, rg in outer:
            if oop == "<--":
                self.rec_assign(sc, rg, k, "anon-output")
            else:
                self.rec_constraint(sc, rg, self.men(k), "anon-output-cassign", lhs=k)
        self.features.add("anon")

    def block(self, sc, budget, loop=None, tail=None):
        inner = self.inner(sc, loop)
        n = self.rng.randrange(1, 2 + budget)
        for _ in range(n):
            self.stmt(inner, budget)
        if tail:
            self.indent(inner)
            self.w.put(tail)

    # ---------------------------------------------------------------- definitions
    def tags(self):
        """`{binary} ` etc. in front of the declared names, or nothing."""
        if not self.p(0.3):
            return ""
        self.features.add("signal tags")
        return self.ch(["{binary} ", "{maxbit} ", "{binary, maxbit} ", "{t} "])

    def template(self, name, custom=False, parallel=False):
        """`template [custom] [parallel] NAME(..)` — the order the grammar fixes.
        Only `custom` takes a template out of the property; a `parallel`
        template is an ordinary template."""
        w = self.w
        d = {"kind": "custom" if custom else "template", "name": name, "assigns": [], "constraints": [],
             "parallel": parallel, "header": "template %s%s" % ("custom " if custom else "", "parallel " if parallel else "")}
        self.defs.append(d)
        params = ["n"] if self.p(0.7) else []
        d["params"] = list(params)
        w.put("%s%s(%s) {\n" % (d["header"], name, ", ".join(params)))
        self.features.add("header:" + d["header"].strip())
        sc = {"def": d, "depth": 1, "loops": [], "locals": [], "params": params, "fresh": [0], "assigned": [],
              "functions": self.functions, "shadow": [], "block_signals": [], "block_locals": []}
        readable, targets, compouts = [], [], []
        for i in range(self.rng.randrange(1, 4)):
            w.put("    signal input %sx%d;\n" % (self.tags(), i))
            readable.append({"kind": "scalar", "name": "x%d" % i})
        if self.p(0.6):
            w.put("    signal input %sxs[4];\n" % self.tags())
            readable.append({"kind": "array", "name": "xs", "dims": [4]})
        for i in range(self.rng.randrange(1, 5)):
            kind = self.ch(["output ", "", ""])
            tg = self.tags()
            w.put("    signal %s%ss%d;\n" % (kind, tg, i))
            targets.append({"kind": "scalar", "name": "s%d" % i, "tagged": bool(tg)})
        if self.p(0.8):
            tg = self.tags()
            w.put("    signal output %sa0[4];\n" % tg)
            targets.append({"kind": "array", "name": "a0", "dims": [4], "tagged": bool(tg)})
        if self.p(0.4):
            tg = self.tags()
            w.put("    signal %sm0[3][3];\n" % tg)
            targets.append({"kind": "matrix", "name": "m0", "dims": [3, 3], "tagged": bool(tg)})
        if self.p(0.3):
            tg = self.tags()
            w.put("    signal %sq0[2][2][2];\n" % tg)
            targets.append({"kind": "tensor", "name": "q0", "dims": [2, 2, 2], "tagged": bool(tg)})
            self.features.add("3-D signal")
        ixlocals = []
        for i in range(self.ch([0, 1, 1, 2])):
            # locals that are never reassigned: usable inside indices with one SSA version everywhere
            w.put("    var u%d = %d;\n" % (i, self.rng.randrange(2)))
            ixlocals.append("u%d" % i)
        if not custom:
            if self.p(0.6):
                w.put("    component c0 = %sSub();\n" % ("parallel " if self.p(0.25) else ""))
                targets.append({"kind": "comp", "name": "c0", "ports": [("in1", []), ("in2", [])]})
                compouts.append({"kind": "comp", "name": "c0", "outs": ["out"]})
            if self.p(0.3):
                w.put("    component ca = SubA();\n")
                targets.append({"kind": "comp", "name": "ca", "ports": [("in1", [2])]})
                compouts.append({"kind": "comp", "name": "ca", "outs": ["out"]})
                self.features.add("array port")
            if self.p(0.4):
                w.put("    component cs[3];\n    for (var q = 0; q < 3; q++) {\n        cs[q] = Sub2();\n    }\n")
                targets.append({"kind": "comparr", "name": "cs", "dims": [3], "ports": [("in1", [])]})
                compouts.append({"kind": "comparr", "name": "cs", "dims": [3], "outs": ["out1", "out2"]})
            if self.p(0.25):
                w.put("    component cm[2][2];\n    for (var q = 0; q < 2; q++) {\n        for (var r = 0; r < 2; r++) {\n"
                      "            cm[q][r] = %s();\n        }\n    }\n" % self.ch(["Sub2", "SubA"]))
                isa = w.parts[-1].find("SubA") >= 0
                targets.append({"kind": "compmat", "name": "cm", "dims": [2, 2], "ports": [("in1", [2] if isa else [])]})
                compouts.append({"kind": "compmat", "name": "cm", "dims": [2, 2], "outs": ["out"] if isa else ["out1", "out2"]})
                self.features.add("2-D component array")
        sc["ixlocals"] = ixlocals
        sc["tagged"] = {g["name"] for g in targets if g.get("tagged")}
        sc["idxsigs"] = [g for g in readable + targets if g["kind"] == "scalar"]
        sc["readable"] = readable + targets
        sc["targets"] = targets
        sc["compouts"] = compouts
        n = self.rng.randrange(1, self.size + 1)
        for _ in range(n):
            self.stmt(sc, 3)
        w.put("}\n")

    def function(self, name):
        w = self.w
        d = {"kind": "function", "name": name, "assigns": [], "constraints": []}
        self.defs.append(d)
        w.put("function %s(a) {\n    var r = a + 1;\n" % name)
        if self.p(0.5):
            w.put("    for (var i = 0; i < 3; i++) {\n        r = r * a;\n    }\n")
        if self.p(0.6):
            # `<--` on a variable in a function: parses, lifts, and must not be reported
            w.put("    r <-- a * a * a;\n")
            d["arrow_in_function"] = True
            self.features.add("arrow-in-function")
        w.put("    return r;\n}\n")

    def file(self):
        ncustom = self.ch([0, 0, 1, 1, 2])
        pragma, rest = PRELUDE.split("\n", 1)
        self.w.put(pragma + "\n")
        if ncustom and self.p(0.5):
            self.w.put("pragma custom_templates;\n")
            self.features.add("pragma-custom-templates")
        self.w.put(rest)
        for nm in ("Sub", "Sub2", "Sub0", "SubA"):
            self.defs.append({"kind": "template", "name": nm, "assigns": [], "constraints": []})
        self.defs.append({"kind": "function", "name": "fa", "assigns": [], "constraints": []})
        # the constraints of the prelude are irrelevant (no `<--` there)
        self.functions = []
        nf = self.rng.randrange(0, 3)
        for i in range(nf):
            self.function("f%d" % i)
            self.functions.append("f%d" % i)
        # ordinary, parallel and custom templates in any order
        nt = self.rng.randrange(1, 4)
        plan = [("T%d" % i, False, self.p(0.35)) for i in range(nt)]
        for i in range(ncustom):
            self.features.add("custom")
            plan.insert(self.rng.randrange(len(plan) + 1), ("G%d" % i, True, self.p(0.4)))
        for name, custom, parallel in plan:
            self.template(name, custom=custom, parallel=parallel)
        # round 6: the ONE main component that turns the file into a PROGRAM (ParseResult::Program -> ProgramArchive::new
        # -> Merger::add_definitions) instead of a template library (TemplateLibrary::new).  It is NOT part of `src`:
        # the check analyses `src` (library mode) and `src + main_line` (program mode); appended at the end, it moves no
        # recorded range.  The instantiated template is an ordinary or a parallel one, never a custom one.
        hosts = [d for d in self.defs if d["kind"] == "template" and "header" in d]
        host = self.ch(hosts)
        public = " {public [x0]}" if self.p(0.3) else ""
        main_line = "component main%s = %s(%s);\n" % (public, host["name"], ", ".join("3" for _ in host["params"]))
        return {"src": self.w.text(), "defs": self.defs, "features": sorted(self.features), "main_line": main_line}


def generate(rng, size=8):
    return Gen(rng, size).file()


def expected(defn, known=(), keep=None):
    """The findings the property demands for one definition: a list of
    (anchor, secondaries-if-CS0005) — none for functions and custom templates.
    With `partial-access-mention` in `known` the secondaries are those of equal accesses only.
    With `known` (names of known-finding classes) the expectation is what the
    defective code produces for exactly those classes; an assignment record may
    carry `kf` (class name) and `alt_constraint` (what it is mistaken for).
    Class `decl-tuple-dup-name` (`signal (t, t) <-- (e1, e2)`): the records of
    one `dup_group` stand for statements with the same location, name and
    access; the defective code reports `keep[group]` of them (1 when their
    degree claims agree, more when they differ)."""
    if defn["kind"] != "template":
        return []
    constraints = list(defn["constraints"])
    assigns = []
    seen = {}
    for a in defn["assigns"]:
        if a.get("kf") and a["kf"] in known and "alt_constraint" in a:
            constraints.append(a["alt_constraint"])
        elif a.get("kf") and a["kf"] in known and "dup_group" in a:
            # the elements of one group collapse into `keep[group]` findings (at least one)
            seen[a["dup_group"]] = seen.get(a["dup_group"], 0) + 1
            if seen[a["dup_group"]] <= max(1, (keep or {}).get(a["dup_group"], 1)):
                assigns.append(a)
        else:
            assigns.append(a)
    out = []
    for a in assigns:
        key = a["key"]
        exact = PARTIAL_CLASS in known
        secs = sorted({tuple(c["range"]) for c in constraints if mentions(key, c, exact=exact)})
        out.append((tuple(a["anchor"]), secs))
    return sorted(out)


PARTIAL_CLASS = "partial-access-mention"


def partial_assigns(defn):
    """The `<--` assignments of a template on which THE RULE and equality of accesses demand different secondary
    locations (class `partial-access-mention`): some constraint statement mentions the target only through a
    properly longer or properly shorter access."""
    if defn["kind"] != "template":
        return []
    return [a for a in defn["assigns"] if any(partial_only(a["key"], c) for c in defn["constraints"])]


def dup_groups(defn):
    """dup_group -> number of records."""
    out = {}
    for a in defn["assigns"]:
        if "dup_group" in a:
            out[a["dup_group"]] = out.get(a["dup_group"], 0) + 1
    return out


def known_classes(defn):
    """The known-finding classes one definition falls in (syntactic, decided by the generator)."""
    out = {a["kf"] for a in defn["assigns"] if a.get("kf")}
    if partial_assigns(defn):
        out.add(PARTIAL_CLASS)
    return out
