"""C19 — includes: each file once, cycles terminate, only named files reported on.

Engine `includes`.  A generated project (directories, files abstracted to their
include lists, file and directory symlinks, `-L` libraries, a choice of named
files) is
  * materialised in a scratch directory under .cache/work and given to the real
    code twice: in process (`parser::parse_files` through harness binary
    `includes`, debug log captured) and through the CLI binary (RUST_LOG=debug);
  * described as abstract data (spelling -> canonical path table, directory
    listings, include lists with their source ranges; all read off the real
    file system with realpath/isdir/scandir, never off the implementation) and
    given to the extracted Gallina mirror `Model.Includes.run_project`;
  * judged by an independent oracle for the property text (Python, realpath).
"""
import concurrent.futures
import itertools
import json
import os
import re
import shutil

import common

PRAGMA = "pragma circom 2.0.0;\n"


# --------------------------------------------------------------------------
# path functions of the implementation's platform (Unix PathBuf), mirrored
# --------------------------------------------------------------------------

def pjoin(a, b):
    """PathBuf::push / Path::join."""
    if b.startswith("/"):
        return b
    if a == "" or a.endswith("/"):
        return a + b
    return a + "/" + b


def file_name(p):
    q = p.rstrip("/")
    name = q.rsplit("/", 1)[-1]
    return None if name in ("", "..") else name


def ext_is_circom(p):
    name = file_name(p)
    if name is None:
        return False
    i = name.rfind(".")
    return i > 0 and name[i + 1:] == "circom"


# --------------------------------------------------------------------------
# projects
# --------------------------------------------------------------------------
# proj = {"dirs": [rel], "files": {rel: {"incs": [str], "bad": bool}},
#         "links": {rel: target string}, "extra": [rel], "argv": [str], "libs": [str]}
# A spelling starting with "@/" stands for the absolute path <root>/...

def subst(s, root):
    return root + s[1:] if s.startswith("@/") else s


def template_names(proj):
    return {rel: "T%d" % i for i, rel in enumerate(sorted(proj["files"]))}


def source_of(proj, rel, root):
    """(text, [(include string, start, end of ';', start of next token)])"""
    spec = proj["files"][rel]
    text = PRAGMA
    spans = []
    for inc in spec["incs"]:
        stmt = 'include "%s";' % subst(inc, root)
        spans.append((subst(inc, root), len(text), len(text) + len(stmt), len(text) + len(stmt) + 1))
        text += stmt + "\n"
    if spec.get("bad"):
        text += "template {\n"
    else:
        text += "template %s() { signal input a; signal output b; b <-- a; }\n" % template_names(proj)[rel]
    return text, spans


def materialise(proj, root):
    if os.path.exists(root):
        shutil.rmtree(root)
    os.makedirs(root)
    for d in proj["dirs"]:
        os.makedirs(os.path.join(root, d), exist_ok=True)
    for rel in proj["files"]:
        os.makedirs(os.path.dirname(os.path.join(root, rel)), exist_ok=True)
        with open(os.path.join(root, rel), "w") as f:
            f.write(source_of(proj, rel, root)[0])
    for rel in proj.get("extra", []):
        with open(os.path.join(root, rel), "w") as f:
            f.write("not circom\n")
    for rel, target in proj.get("links", {}).items():
        os.symlink(subst(target, root), os.path.join(root, rel))


def rp(root, p):
    """canonical path of spelling p (relative to root), or None."""
    q = p if p.startswith("/") else os.path.join(root, p)
    return os.path.realpath(q) if os.path.exists(q) else None


def real_to_rel(proj, root):
    return {os.path.join(root, rel): rel for rel in proj["files"]}


# --------------------------------------------------------------------------
# the oracle: the property text, decided with realpath on the real file system
# --------------------------------------------------------------------------

def expand_named(root, argv):
    """canonical paths of the files named on the command line: a named path
    that is not a directory is an input whatever its suffix; a named directory
    stands for the .circom files below it."""
    out = []

    def go(p, depth):
        q = p if p.startswith("/") else os.path.join(root, p)
        if os.path.isdir(q):
            if depth < 40:
                for e in sorted(os.listdir(q)):
                    go(pjoin(p, e), depth + 1)
        elif (depth == 0 or ext_is_circom(p)) and os.path.exists(q):
            out.append(os.path.realpath(q))
    for a in argv:
        go(a, 0)
    return out


def classify_libs(root, libs):
    out = []
    for lib in libs:
        q = lib if lib.startswith("/") else os.path.join(root, lib)
        if os.path.isdir(q):
            out.append(("dir", lib))
        elif ext_is_circom(lib) and os.path.exists(q):
            out.append(("file", os.path.realpath(q)))
    return out


def resolve(root, cfile, inc, libs):
    """The include `inc` of canonical file `cfile`: relative to the including
    file first, then the -L libraries in the order given (a directory library
    for names not starting with '.', a file library for single-component
    names equal to its file name).  Only a file can be included: a path that
    exists but is not a regular file does not count as found."""
    cand = pjoin(os.path.dirname(cfile), inc)
    if os.path.isfile(cand):
        return os.path.realpath(cand)
    for kind, lib in libs:
        if kind == "dir":
            if inc.startswith("."):
                continue
            cand = pjoin(lib, inc)
            cand = cand if cand.startswith("/") else os.path.join(root, cand)
            if os.path.isfile(cand):
                return os.path.realpath(cand)
        else:
            if "/" not in inc and os.path.basename(lib) == inc:
                return lib
    return None


def oracle(proj, root, impl, cli):
    """List of failures of the property text on this run (empty = holds)."""
    fails = []
    if impl.get("timeout"):
        return [{"clause": "cycles terminate", "detail": "parse_files did not return within 10 s"}]
    if impl.get("kind") in ("panic", "panic-outside", "bad-line", "bad-root"):
        return [{"clause": "terminates normally", "detail": "parse_files: " + impl.get("kind")}]
    argv = [subst(a, root) for a in proj["argv"]]
    libs = classify_libs(root, [subst(x, root) for x in proj["libs"]])
    named = set(expand_named(root, argv))
    rel_of = real_to_rel(proj, root)
    # reachable closure per the resolution rule
    seen, order, todo, unresolved, nonfile = set(), [], list(named), [], []
    while todo:
        c = todo.pop()
        if c in seen:
            continue
        seen.add(c)
        order.append(c)
        rel = rel_of.get(c)
        if rel is None or proj["files"][rel].get("bad"):
            continue
        for inc, s, e1, e2 in source_of(proj, rel, root)[1]:
            t = resolve(root, c, inc, libs)
            if t is None:
                unresolved.append((c, inc, s, e1, e2))
            elif not os.path.isfile(t):
                nonfile.append((c, inc, s, e1, e2, t))
            else:
                todo.append(t)
    # 1. each canonical file read exactly once
    read_real = [os.path.realpath(p if p.startswith("/") else os.path.join(root, p)) for p in impl["read"]]
    dup = sorted({p for p in read_real if read_real.count(p) > 1})
    if dup:
        fails.append({"clause": "each distinct file is read and parsed once", "detail": "read more than once: %s (log: %s)" % (dup, impl["read"])})
    # 2. exactly the reachable files (resolution order)
    got = {p for p in read_real if os.path.isfile(p)}
    if got != seen:
        fails.append({"clause": "exactly the named files and the files reachable from them are read (resolution relative to the including file, then -L libraries in order)",
                      "detail": "files read %s, reachable per the rule %s" % (sorted(got), sorted(seen))})
    # 3. unresolved include -> error located at the include statement
    errs = []
    for r in impl["reports"]:
        m = re.match(r"Failed to open file `(.*)`\.$", r["msg"])
        if m and r["labels"]:
            fid, s, e = r["labels"][0]
            name = impl["files"][fid][0] if fid < len(impl["files"]) else "?"
            errs.append((os.path.realpath(name if name.startswith("/") else os.path.join(root, name)), m.group(1), s, e))
    want = sorted((c, inc, s) for c, inc, s, e1, e2 in unresolved)
    have = sorted((c, inc, s) for c, inc, s, e in errs)
    if want != have:
        fails.append({"clause": "an unresolved include produces an error located at the include statement",
                      "detail": "expected (file, include, offset) %s, reported %s" % (want, have)})
    else:
        ends = {(c, inc, s): (e1, e2) for c, inc, s, e1, e2 in unresolved}
        for c, inc, s, e in errs:
            e1, e2 = ends[(c, inc, s)]
            if not e1 <= e <= e2:
                fails.append({"clause": "an unresolved include produces an error located at the include statement",
                              "detail": "range of %s in %s ends at %d, statement ends at %d" % (inc, c, e, e1)})
    for c, inc, s, e1, e2, t in nonfile:
        if (c, inc, s) not in have:
            fails.append({"clause": "an unresolved include produces an error located at the include statement",
                          "class": "include-resolves-to-directory",
                          "detail": "include \"%s\" in %s resolves to %s which is not a file; no error located at the statement" % (inc, c, t)})
    # 4. the user set is the set of named files
    for name, user in impl["files"]:
        c = os.path.realpath(name if name.startswith("/") else os.path.join(root, name))
        if user != (c in named):
            fails.append({"clause": "only named files are user inputs",
                          "detail": "%s: is_user_input=%s, named=%s" % (name, user, c in named)})
    # 5. CLI: analysis and findings only for named files
    if cli is not None:
        if cli.get("timeout"):
            fails.append({"clause": "cycles terminate", "detail": "CLI did not finish within 10 s"})
        else:
            tn = template_names(proj)
            parsed_ok = {c for c in got if c in rel_of and not proj["files"][rel_of[c]].get("bad")}
            want_t = sorted(tn[rel_of[c]] for c in parsed_ok if c in named)
            if sorted(cli["analyzing"]) != want_t and not dup:
                fails.append({"clause": "only named files are analysed",
                              "detail": "analysed %s, templates of named files %s" % (sorted(cli["analyzing"]), want_t)})
            found_in = set()
            for f in cli["finding_files"]:
                c = os.path.realpath(f if f.startswith("/") else os.path.join(root, f))
                found_in.add(c)
                if c not in named:
                    fails.append({"clause": "included-only files produce no findings", "detail": "finding located in " + f})
            # the other side of the file filter: the template generated for
            # every file has findings of its own (`b <-- a`), so every named
            # file that parses is reported on — whichever named file was
            # parsed first and whether or not another named file includes it
            if sorted(cli["analyzing"]) == want_t and not dup and not cli.get("panicked"):
                for c in sorted(parsed_ok):
                    if c in named and c not in found_in:
                        fails.append({"clause": "named files are reported on",
                                      "detail": "no finding located in the named file %s (findings in %s)" % (c, sorted(found_in))})
            cli_real = [os.path.realpath(p if p.startswith("/") else os.path.join(root, p)) for p in cli["read"]]
            if sorted(cli_real) != sorted(read_real):
                fails.append({"clause": "each distinct file is read and parsed once",
                              "detail": "CLI read %s, in-process run read %s" % (cli["read"], impl["read"])})
    return fails


# --------------------------------------------------------------------------
# abstract data for the model
# --------------------------------------------------------------------------

def abstract(proj, root):
    """The model's input line: argv, libs, canon table, directory listings,
    contents — computed from the real file system."""
    argv = [subst(a, root) for a in proj["argv"]]
    libs = [subst(x, root) for x in proj["libs"]]
    incs = set()
    for rel in proj["files"]:
        for inc, s, e1, e2 in source_of(proj, rel, root)[1]:
            incs.add(inc)
    canon = {}
    dirs = {}

    def absq(p):
        return p if p.startswith("/") else os.path.join(root, p)

    def note(p):
        q = absq(p)
        canon[p] = os.path.realpath(q) if os.path.exists(q) else None

    def walk(p, depth):
        note(p)
        q = absq(p)
        if os.path.isdir(q) and depth < 40:
            try:
                names = [e.name for e in os.scandir(q)]
            except OSError:
                return
            dirs[p] = names
            for n in names:
                walk(pjoin(p, n), depth + 1)
    for a in argv:
        walk(a, 0)
    for lib in libs:
        note(lib)
        if os.path.isdir(absq(lib)):
            dirs.setdefault(lib, None)
    # every object below root: its canonical path, and its parent as a base
    bases = set(x for x in libs if os.path.isdir(absq(x)))
    for d, ds, fs in os.walk(root):
        for n in ds + fs:
            c = os.path.realpath(os.path.join(d, n))
            bases.add(os.path.dirname(c))
    bases.add(root)
    for b in sorted(bases):
        for s in sorted(incs):
            note(pjoin(b, s))
    for c in [v for v in canon.values() if v]:
        canon.setdefault(c, c)
    rel_of = real_to_rel(proj, root)
    contents = []
    for c in sorted({v for v in canon.values() if v}):
        if c in rel_of:
            rel = rel_of[c]
            if proj["files"][rel].get("bad"):
                contents.append(c + ",E")
            else:
                contents.append(",".join([c, "P"] + ["%s@%d@%d" % (inc, s, e1) for inc, s, e1, e2 in source_of(proj, rel, root)[1]]))
        elif os.path.isfile(c):
            contents.append(c + ",E")      # a readable file that is not Circom
        else:
            contents.append(c + ",U")
    def lst(xs):
        return ";".join(xs) if xs else "-"
    return "\t".join([
        lst(argv), lst(libs),
        lst(["%s,%s" % (k, v if v else "-") for k, v in sorted(canon.items())]),
        lst([",".join([k] + (v or [])) for k, v in sorted(dirs.items())]),
        lst(sorted({v for v in canon.values() if v and os.path.isfile(v)})),
        lst(contents)])


# --------------------------------------------------------------------------
# generators
# --------------------------------------------------------------------------

def F(*incs, **kw):
    d = {"incs": list(incs)}
    d.update(kw)
    return d


def shapes():
    """Fixed small projects; every non-empty choice of named files is run."""
    out = []
    out.append(("chain", {"dirs": ["src"], "files": {"src/a.circom": F("b.circom"), "src/b.circom": F("./c.circom"),
                                                     "src/c.circom": F()}, "libs": []}))
    out.append(("diamond", {"dirs": ["src", "src/sub"],
                            "files": {"src/a.circom": F("b.circom", "sub/c.circom"), "src/b.circom": F("./d.circom"),
                                      "src/sub/c.circom": F("../d.circom", "../../src/d.circom"), "src/d.circom": F()}, "libs": []}))
    out.append(("cycle", {"dirs": ["src"], "files": {"src/a.circom": F("b.circom", "a.circom"), "src/b.circom": F("c.circom"),
                                                     "src/c.circom": F("../src/a.circom", "./c.circom")}, "libs": []}))
    out.append(("libdir", {"dirs": ["src", "lib1", "lib1/sub"],
                           "files": {"src/a.circom": F("x.circom", "sub/y.circom", "./x.circom"),
                                     "lib1/x.circom": F("../src/a.circom", "sub/y.circom"),
                                     "lib1/sub/y.circom": F("x.circom", "a.circom")}, "libs": ["lib1"]}))
    out.append(("d23", {"dirs": ["p", "lib"], "files": {"p/main.circom": F("x.circom", "../lib/x.circom"), "lib/x.circom": F()},
                        "libs": ["lib"]}))
    out.append(("d23-cycle", {"dirs": ["p", "l1", "l2"],
                              "files": {"p/m.circom": F("a.circom", "../l1/a.circom"), "l1/a.circom": F("b.circom"),
                                        "l2/b.circom": F("a.circom", "../l2/b.circom")}, "libs": ["l1", "./l2"]}))
    out.append(("libfile", {"dirs": ["src", "lib2"],
                            "files": {"src/a.circom": F("y.circom", "b.circom"), "src/b.circom": F("./y.circom", "lib2/y.circom"),
                                      "lib2/y.circom": F("a.circom")}, "libs": ["lib2/y.circom"]}))
    out.append(("symlink", {"dirs": ["src", "other"],
                            "files": {"src/a.circom": F("l.circom", "../other/t.circom", "../dl/a.circom"),
                                      "other/t.circom": F("a.circom", "u.circom"), "other/u.circom": F("../src/l.circom")},
                            "links": {"src/l.circom": "../other/t.circom", "dl": "src"}, "libs": []}))
    for name, order in (("liborder12", ["lib1", "lib2"]), ("liborder21", ["lib2", "lib1"])):
        out.append((name, {"dirs": ["src", "lib1", "lib2"],
                           "files": {"src/a.circom": F("z.circom", "w.circom"), "src/w.circom": F(), "lib1/z.circom": F("w.circom"),
                                     "lib2/z.circom": F(), "lib2/w.circom": F()}, "libs": order}))
    out.append(("unresolved", {"dirs": ["src", "lib1"],
                               "files": {"src/a.circom": F("nothere.circom", "./x.circom", "b.circom", "sub/x.circom"),
                                         "src/b.circom": F("@/src/nope.circom", "x.circom"), "lib1/x.circom": F()}, "libs": ["lib1"]}))
    res = []
    for name, p in out:
        p.setdefault("links", {})
        p.setdefault("extra", [])
        cands = sorted(p["files"]) + sorted(k for k in p["links"] if k.endswith(".circom"))
        for r in range(1, len(cands) + 1):
            for sub in itertools.combinations(cands, r):
                # every ORDER of the named files too (which file's stack entry is
                # popped first depends on it); subsets of more than
                # MAX_PERMUTED files only in sorted order
                orders = itertools.permutations(sub) if r <= MAX_PERMUTED else [sub]
                for order in orders:
                    q = json.loads(json.dumps(p))
                    q["argv"] = list(order)
                    q["shape"] = name
                    res.append(q)
    return res


MAX_PERMUTED = 4


def spell(rng, rel, links_to_dirs):
    k = rng.randrange(6)
    if k == 0:
        return "./" + rel
    if k == 1:
        return "@/" + rel
    if k == 2 and "/" in rel:
        d, b = rel.split("/", 1)
        return d + "/../" + d + "/" + b
    if k == 3:
        for ln, target in links_to_dirs.items():
            if rel.startswith(target + "/"):
                return ln + rel[len(target):]
    return rel


def gen_random(rng):
    dirs = ["src"] + [d for d in ["src/sub", "other", "lib1", "lib1/sub", "lib2"] if rng.random() < 0.6]
    pool = ["a", "b", "c", "x", "y"]
    files = {}
    for _ in range(rng.randint(1, 6)):
        files[rng.choice(dirs) + "/" + rng.choice(pool) + ".circom"] = None
    links = {}
    dirlinks = {}
    rels = sorted(files)
    for i in range(rng.choice([0, 0, 1, 2])):
        if rng.random() < 0.6:
            d = rng.choice(dirs)
            t = rng.choice(rels)
            name = d + "/" + rng.choice(["l%d" % i, rng.choice(pool)]) + rng.choice([".circom", ".circom", ".txt"])
            if name not in files and name not in links:
                links[name] = rng.choice([os.path.relpath(t, d), "@/" + t])
        else:
            t = rng.choice(dirs)
            links["dl%d" % i] = t
            dirlinks["dl%d" % i] = t
    extra = ["notes.txt"] if rng.random() < 0.3 else []
    allnames = rels + [k for k in links if k not in dirlinks]
    libdirs = [d for d in dirs if d.startswith("lib") or d == "other"]
    for rel in rels:
        d = os.path.dirname(rel)
        incs = []
        for _ in range(rng.choice([0, 1, 1, 2, 2, 3])):
            k = rng.randrange(10)
            t = rng.choice(allnames)
            r = os.path.relpath(t, d)
            if k == 0:
                incs.append("./" + r)
            elif k == 1:
                incs.append("../" + os.path.basename(d) + "/" + r if "/" not in d else "../" + os.path.basename(d) + "/" + r)
            elif k == 2:
                incs.append("@/" + t)
            elif k in (3, 4):
                incs.append(os.path.basename(t))
            elif k == 5:
                ls = [x for x in libdirs if t.startswith(x + "/")]
                incs.append(os.path.relpath(t, rng.choice(ls)) if ls else r)
            elif k == 6:
                incs.append(rng.choice(["missing.circom", "./missing.circom", "nodir/x.circom", "../missing.circom",
                                        ".hidden.circom", os.path.basename(rel),
                                        os.path.relpath(rng.choice(dirs), d), os.path.basename(rng.choice(dirs))]))
            elif k == 7:
                incs.append(spell(rng, t, dirlinks) if False else os.path.relpath(t, d))
            else:
                incs.append(r)
        files[rel] = {"incs": incs, "bad": rng.random() < 0.05}
    libs = []
    for _ in range(rng.choice([0, 1, 1, 2, 3])):
        k = rng.randrange(10)
        if k < 5 and libdirs:
            libs.append(spell(rng, rng.choice(libdirs), dirlinks))
        elif k < 8:
            libs.append(spell(rng, rng.choice(allnames), dirlinks))
        else:
            libs.append(rng.choice(["nolib", "nolib.circom", "notes.txt", "src"]))
    argv = []
    for _ in range(rng.choice([1, 1, 2, 3])):
        k = rng.randrange(12)
        if k < 9:
            argv.append(spell(rng, rng.choice(allnames), dirlinks))
        elif k == 9:
            argv.append(rng.choice(dirs + list(dirlinks) + ["."]))
        else:
            argv.append(rng.choice(["notes.txt", "ghost.circom", "src/ghost.circom"]))
    return {"dirs": dirs, "files": files, "links": links, "extra": extra, "argv": argv, "libs": libs, "shape": "random"}


# --------------------------------------------------------------------------
# running the implementation and the model
# --------------------------------------------------------------------------

def run_harness(binary, lines):
    """One JSON result per line; a hanging case ends the process, which is
    restarted on the rest."""
    out = []
    rest = list(lines)
    while rest:
        rc, o, err = common.sh([binary], inp="\n".join(rest) + "\n", timeout=600)
        got = [json.loads(x) for x in o.splitlines() if x.strip()]
        if not got and rc != 0:
            raise common.BuildError("harness includes failed rc=%d" % rc, err[-2000:])
        out.extend(got)
        rest = rest[len(got):]
        if rest and not (got and got[-1].get("timeout")):
            if rc == 0:
                raise common.BuildError("harness includes printed too few lines", err[-2000:])
            out.append({"kind": "panic-outside"})
            rest = rest[1:]
    return out


def run_cli(cli_bin, proj, root):
    cmd = [cli_bin]
    for lib in proj["libs"]:
        cmd += ["-L", subst(lib, root)]
    cmd += [subst(a, root) for a in proj["argv"]]
    env = dict(os.environ)
    env["RUST_LOG"] = "debug"
    rc, out, err = common.sh(cmd, cwd=root, env=env, timeout=10)
    if rc == 124:
        return {"timeout": True}
    return {"rc": rc,
            "analyzing": re.findall(r"analyzing (?:template|function) '([^']+)'", out),
            "finding_files": re.findall(r"┌─ (.+?):\d+:\d+", out),
            "read": re.findall(r"reading file `([^`]*)`", err),
            "panicked": "panicked at" in err}


def normalise(impl, dropped=None):
    """The implementation's result in the model's output form.  The model speaks
    about P1000 reports only (file not found / include not resolved / parse error);
    every report that does not enter the comparison is counted in `dropped`
    (code -> number; second audit: they used to be dropped without a trace)."""
    if impl.get("timeout"):
        return {"status": "timeout"}
    if impl.get("kind") not in ("program", "library"):
        return {"status": impl.get("kind")}
    reps = []
    for r in impl["reports"]:
        if r["code"] != "P1000":
            if dropped is not None:
                dropped[r["code"]] = dropped.get(r["code"], 0) + 1
            continue
        m = re.match(r"Failed to open file `(.*)`\.$", r["msg"])
        if m and not r["labels"]:
            reps.append(["os", m.group(1)])
        elif m:
            reps.append(["inc", m.group(1)] + r["labels"][0])
        elif r["labels"]:
            reps.append(["perr", r["labels"][0][0]])
        elif dropped is not None:
            dropped["P1000 (neither `Failed to open file` nor labelled)"] = dropped.get("P1000 (neither `Failed to open file` nor labelled)", 0) + 1
    return {"status": "ok", "read": impl["read"], "files": [[n, bool(u)] for n, u in impl["files"]], "reports": reps}


def front_report_counts(res):
    """What the comparison of the front end's reports with the model keeps and what it drops, per report code."""
    kept, dropped, projects = {}, {}, 0
    for r in res:
        for x in r["norm"].get("reports", []):
            kept[x[0]] = kept.get(x[0], 0) + 1
        for code, n in r.get("dropped", {}).items():
            dropped[code] = dropped.get(code, 0) + n
        projects += 1 if r.get("dropped") else 0
    return {"compared_with_the_model(P1000 by kind)": kept, "dropped_by_code": dropped, "reports_dropped": sum(dropped.values()),
            "projects_with_a_dropped_report": projects,
            "rule": "Model.Includes speaks about P1000 reports (os = file not opened, inc = include not resolved, perr = parse "
                    "error); every other report of parse_files (and a P1000 of no known form) is left out of the model "
                    "comparison and counted here per code; the oracle of the property reads the unfiltered reports"}


def nontrivial_key(proj, impl):
    n = normalise(impl)
    return (proj.get("shape"), len(n.get("read", [])), len(proj["libs"]), len(proj.get("links", {})),
            tuple(sorted(r[0] for r in n.get("reports", []))), sum(1 for f in n.get("files", []) if f[1]))


def load_corpus():
    d = os.path.join(common.VERIF, "corpus", "C19")
    out = []
    if os.path.isdir(d):
        for f in sorted(os.listdir(d)):
            if f.endswith(".json"):
                p = json.load(open(os.path.join(d, f)))
                p["shape"] = "corpus:" + f[:-5]
                out.append(p)
    return out


def evaluate(ctx, projs, base, with_model=True, with_cli=True):
    """Materialises, runs implementation (+CLI, +model), applies the oracle.
    Returns list of dicts per project."""
    HARNESS_BIN = common.build_harness("includes")
    CLI = common.build_cli() if with_cli else None
    MODEL_BIN = common.build_model("includes") if with_model else None
    roots = []
    for i, p in enumerate(projs):
        root = os.path.join(base, "p%04d" % i)
        materialise(p, root)
        roots.append(root)
    lines = ["\t".join([root, ";".join(subst(a, root) for a in p["argv"]) or "-",
                        ";".join(subst(x, root) for x in p["libs"]) or "-"]) for p, root in zip(projs, roots)]
    nsh = max(1, min(common.NPROC, len(lines) // 8))
    chunks = [lines[i::nsh] for i in range(nsh)]
    with concurrent.futures.ThreadPoolExecutor(max_workers=nsh) as ex:
        outs = list(ex.map(lambda ch: run_harness(HARNESS_BIN, ch), chunks))
    impl = [None] * len(lines)
    for k, o in enumerate(outs):
        for j, r in enumerate(o):
            impl[k + j * nsh] = r
    clis = [None] * len(projs)
    if with_cli:
        with concurrent.futures.ThreadPoolExecutor(max_workers=common.NPROC) as ex:
            clis = list(ex.map(lambda pr: run_cli(CLI, pr[0], pr[1]), zip(projs, roots)))
    models = [None] * len(projs)
    if with_model:
        mlines = [abstract(p, root) for p, root in zip(projs, roots)]
        mo = common.run_lines(MODEL_BIN, ["run"], mlines, shards=common.NPROC)
        models = [json.loads(x) for x in mo]
    res = []
    for p, root, im, cl, mo in zip(projs, roots, impl, clis, models):
        idem = mo.pop("canon_idempotent", None) if isinstance(mo, dict) else None
        dropped = {}
        res.append({"proj": p, "root": root, "impl": im, "cli": cl, "model": mo,
                    "norm": normalise(im, dropped), "fails": oracle(p, root, im, cl),
                    "canon_idempotent": idem, "dropped": dropped})
    return res


def strip_root(x, root):
    return json.loads(json.dumps(x).replace(root, "@"))


def run(ctx, proofs):
    quick = ctx.tier == "quick"
    base = os.path.join(ctx.work, "run_%d_%d" % (ctx.seed, os.getpid()))
    os.makedirs(base, exist_ok=True)
    try:
        projs = load_corpus() + shapes()
        nrand = 300 if quick else 3000
        projs += [gen_random(ctx.rng) for _ in range(nrand)]
        res = evaluate(ctx, projs, base)
        disagreements, failing = [], []
        keys = set()
        shapes_count = {}
        for r in res:
            keys.add(nontrivial_key(r["proj"], r["impl"]))
            shapes_count[r["proj"].get("shape")] = shapes_count.get(r["proj"].get("shape"), 0) + 1
            if r["model"] != r["norm"]:
                disagreements.append(r)
            if r["fails"]:
                failing.append(r)
        for r in failing[:5]:
            f = r["fails"][0]
            ctx.violation("include handling violates the property (%s): %s" % (f["clause"], f["detail"].replace(r["root"], "@")[:400]),
                          {"input": r["proj"], "impl": strip_root(r["impl"], r["root"]), "spec": strip_root(r["fails"], r["root"]),
                           "cli": strip_root(r["cli"], r["root"])})
        if not failing:
            if disagreements:
                d = disagreements[0]
                ctx.violation("correspondence Model.Includes.run_project vs parser::parse_files broken (%d projects); the property "
                              "text held on every explored project" % len(disagreements),
                              {"broken": "correspondence includes (Model.Includes.run_project)", "count": len(disagreements),
                               "first": {"input": d["proj"], "impl": strip_root(d["norm"], d["root"]),
                                         "model": strip_root(d["model"], d["root"])}}, no_input=True)
            elif proofs["failures"]:
                ctx.violation("proof obligations of C19 no longer check: " + "; ".join(proofs["failures"])[:500],
                              {"broken": "props/C19.v", "failures": proofs["failures"]}, no_input=True)
        nread = [len(r["norm"].get("read", [])) for r in res]
        ctx.coverage.update({
            "evaluations": len(res),
            "distinct_nontrivial": len(keys),
            "rule": "a project counts once per (shape, number of files read, number of -L options, number of symlinks, "
                    "multiset of include/OS/parse error kinds, number of user-input files)",
            "exhaustive": False,
            "exhaustive_part": "for each of the %d fixed shapes (chain, diamond, cycle with self-includes, library directory, "
                               "D23 witnesses, library file, symlinks, library order, unresolved) every non-empty subset of its "
                               "files is named on the command line, subsets of up to %d files in every order: %d projects"
                               % (len({p.get('shape') for p in shapes()}), MAX_PERMUTED, len(shapes())),
            "samples": [strip_root({"input": r["proj"], "impl": r["norm"]}, r["root"]) for r in (disagreements[:1] or res[-2:])],
            "projects_by_shape": shapes_count,
            "files_read_histogram": {str(k): nread.count(k) for k in sorted(set(nread))},
            "projects_with_include_error": sum(1 for r in res if any(x[0] == "inc" for x in r["norm"].get("reports", []))),
            "projects_with_library_resolution": sum(1 for r in res if any("from directory" in a or "from file" in a for a in (r["impl"].get("adds") or []))),
            "projects_with_symlinks": sum(1 for r in res if r["proj"].get("links")),
            "disagreements_model_vs_impl": len(disagreements),
            "spec_failures": len(failing),
            "projects_including_a_directory": sum(1 for r in res if r["proj"].get("shape") == "random" and any(
                os.path.basename(i) in ("src", "sub", "other", "lib1", "lib2", ".", "..") for f in r["proj"]["files"].values() for i in f["incs"])),
            "tables_with_idempotent_canon": sum(1 for r in res if r["canon_idempotent"]),
            "front_comparison_reports": front_report_counts(res),
        })
        ctx.assumptions += [
            "the abstract file system of the theorems (canon, is_dir, read_dir, join, parent, file_name) is a Section parameter; "
            "the closed theorems carry the premises `canon` idempotent (a canonical path canonicalises to itself) and finitely "
            "many canonical paths; the real fs::canonicalize, symlink races and permissions are observed, not proved",
            "file contents are abstracted to their include lists (path, byte range) or a parse error; the parser proper is C04/C05/C18's",
            "directory expansion of named directories is modelled with fuel (nesting depth); directory symlink cycles are left to the OS limit",
            "the report filter: C19_included_only_report_never_displayed / C19_displayed_findings_come_from_named_files compose "
            "Model.Includes with C03's Model.Runner (filter_by_file, analysis of user definitions only) through "
            "Model.IncludesRunner.file_library_user_inputs, a three-line mirror of FileLibrary::add_file; that Model.Runner is main.rs "
            "is C03's correspondence, that FileLibrary numbers files in call order is read off the source, and the CLI output "
            "(analysing lines, finding locations, every named file reported on) is observed here on every project",
            "the tie between the hand mirror of include_logic.rs and the code, and between the tables and the real fs::canonicalize / "
            "symlink resolution, is differential only (every fixed shape with every subset of named files, subsets of up to 4 in every "
            "order; random projects with symlinks, `../` and cycles); nothing about the operating system is proved",
        ]
    finally:
        shutil.rmtree(base, ignore_errors=True)


def replay(ctx, rep):
    proj = rep.get("input")
    if not proj:
        print("replay names a broken obligation, not an input:", rep.get("broken"))
        return 1
    base = os.path.join(ctx.work, "replay_%d" % os.getpid())
    try:
        r = evaluate(ctx, [proj], base, with_model=False)[0]
        print("implementation:", json.dumps(strip_root(r["impl"], r["root"])))
        print("cli           :", json.dumps(strip_root(r["cli"], r["root"])))
        print("oracle        :", json.dumps(strip_root(r["fails"], r["root"])) if r["fails"] else "property holds")
        return 1 if r["fails"] else 0
    finally:
        shutil.rmtree(base, ignore_errors=True)
