"""C19 — includes: each file once, cycles terminate, only named files reported on.

Engine `includes`.  A generated project (directories, files abstracted to their
include lists, file and directory symlinks, `-L` libraries, a choice of named
files) is
  * materialised in a scratch directory under .cache/work and given to the real
    code twice: in process (`parser::parse_files` through harness binary
    `includes`, debug log captured) and through the CLI binary (RUST_LOG=debug);
  * described as abstract data (spelling -> canonical path table, directory
    listings, include lists with their source ranges; all read off the real
    file system with realpath/isdir/scandir, never off the implementation) and
    given to the extracted Gallina mirror `Model.Includes.run_project`;
  * judged by an independent oracle for the property text (Python, realpath).

Third audit: files carry pragma variants (none / too new / too old), templates
instantiate templates of other files, files may end in `component main`, the
tool may be started in a subdirectory, symlinks may dangle or loop; the oracle
also checks that the definitions of every file read reach the analysis (in
process: names handed over; CLI: CS0018 results of the SARIF output); the
premises of the theorems about run_project (canon_idempotent_b, depth_ok_b)
and the completeness of the table are evaluated for every project and an unmet
one is a violation; the files read are cross-checked with the FileLibrary and
a changed log line / message wording is reported as a reader problem.
"""
import concurrent.futures
import itertools
import json
import os
import re
import shutil

import common

PRAGMA = "pragma circom 2.0.0;\n"
DEFAULT_PRAGMA = "2.0.0"
# what the generators choose from (the tool supports 2.0.0 .. 2.1.4): the usual
# one, none at all, the newest supported, three too new, one too old
PRAGMAS_TOO_NEW = ["2.1.5", "2.2.0", "3.0.0"]
PRAGMAS_OTHER = [None, "2.1.4", "1.9.9"]
WALK_LIMIT = 100    # directory nesting followed by the table builder and the oracle (the kernel stops symlink loops at 40)


# --------------------------------------------------------------------------
# path functions of the implementation's platform (Unix PathBuf), mirrored
# --------------------------------------------------------------------------

def pjoin(a, b):
    """PathBuf::push / Path::join."""
    if b.startswith("/"):
        return b
    if a == "" or a.endswith("/"):
        return a + b
    return a + "/" + b


def file_name(p):
    q = p.rstrip("/")
    name = q.rsplit("/", 1)[-1]
    return None if name in ("", "..") else name


def ext_is_circom(p):
    name = file_name(p)
    if name is None:
        return False
    i = name.rfind(".")
    return i > 0 and name[i + 1:] == "circom"


# --------------------------------------------------------------------------
# projects
# --------------------------------------------------------------------------
# proj = {"dirs": [rel], "files": {rel: {"incs": [str], "bad": bool, "pragma": str|None,
#                                        "uses": [rel], "main": bool}},
#         "links": {rel: target string}, "extra": [rel], "argv": [str], "libs": [str], "cwd": rel}
# A spelling starting with "@/" stands for the absolute path <root>/...
# "pragma": the version of the file's pragma (absent key: 2.0.0; None: no pragma);
# "uses": files whose template this file's template instantiates (one component
# per line, its output left unused, so that the tool's unused-output finding
# CS0018 at that line says whether the other file's definition was known);
# "main": the file ends in `component main = <its template>();`;
# "cwd": the directory (relative to root) the tool is started in; relative
# argv/-L spellings are relative to it.

def subst(s, root):
    return root + s[1:] if s.startswith("@/") else s


def cwd_of(proj, root):
    c = proj.get("cwd") or ""
    return os.path.join(root, c) if c else root


def unusable(spec):
    """the file yields no includes and no definitions: a parse error, or bytes that are not UTF-8"""
    return bool(spec.get("bad") or spec.get("raw"))


def template_names(proj):
    return {rel: "T%d" % i for i, rel in enumerate(sorted(proj["files"]))}


def source_parts(proj, rel, root):
    """(text, [(include string, start, end of ';', start of next token)],
        [(used rel, 1-based line of its `component` statement)])"""
    spec = proj["files"][rel]
    v = spec.get("pragma", DEFAULT_PRAGMA)
    text = "" if v is None else "pragma circom %s;\n" % v
    spans = []
    for inc in spec["incs"]:
        stmt = 'include "%s";' % subst(inc, root)
        spans.append((subst(inc, root), len(text), len(text) + len(stmt), len(text) + len(stmt) + 1))
        text += stmt + "\n"
    use_lines = []
    if spec.get("bad"):
        text += "template {\n"
    else:
        tn = template_names(proj)
        uses = [u for u in spec.get("uses", []) if u in tn]
        if not uses:
            text += "template %s() { signal input a; signal output b; b <-- a; }\n" % tn[rel]
        else:
            text += "template %s() { signal input a; signal output b; b <-- a;\n" % tn[rel]
            for k, u in enumerate(uses):
                use_lines.append((u, text.count("\n") + 1))
                text += "  component c%d = %s();\n" % (k, tn[u])
                text += "  c%d.a <== a;\n" % k
            text += "}\n"
        if spec.get("main"):
            text += "component main = %s();\n" % tn[rel]
    return text, spans, use_lines


def source_of(proj, rel, root):
    """(text, [(include string, start, end of ';', start of next token)])"""
    return source_parts(proj, rel, root)[:2]


def materialise(proj, root):
    if os.path.exists(root):
        shutil.rmtree(root)
    os.makedirs(root)
    for d in proj["dirs"]:
        os.makedirs(os.path.join(root, d), exist_ok=True)
    for rel in proj["files"]:
        os.makedirs(os.path.dirname(os.path.join(root, rel)), exist_ok=True)
        if proj["files"][rel].get("raw"):
            # not UTF-8: read_to_string fails, the tool reports the file as not opened
            with open(os.path.join(root, rel), "wb") as f:
                f.write(b"\xff\xfe" + source_of(proj, rel, root)[0].encode())
            continue
        with open(os.path.join(root, rel), "w") as f:
            f.write(source_of(proj, rel, root)[0])
    for rel in proj.get("extra", []):
        with open(os.path.join(root, rel), "w") as f:
            f.write("not circom\n")
    for rel, target in proj.get("links", {}).items():
        os.symlink(subst(target, root), os.path.join(root, rel))


def rp(root, p):
    """canonical path of spelling p (relative to root), or None."""
    q = p if p.startswith("/") else os.path.join(root, p)
    return os.path.realpath(q) if os.path.exists(q) else None


def real_to_rel(proj, root):
    return {os.path.join(root, rel): rel for rel in proj["files"]}


# --------------------------------------------------------------------------
# the oracle: the property text, decided with realpath on the real file system
# --------------------------------------------------------------------------

def expand_named(cw, argv):
    """canonical paths of the files named on the command line (relative
    spellings are relative to the working directory cw): a named path
    that is not a directory is an input whatever its suffix; a named directory
    stands for the .circom files below it.  A directory is a set of entries
    whatever spelling leads to it: the closure is computed over canonical
    directories (a link back to the directory or to a parent adds nothing),
    in no particular order — the order-free reading of the property, not the
    tool's traversal."""
    out = []
    seen_dirs = set()

    def go(p, top):
        q = p if p.startswith("/") else os.path.join(cw, p)
        if os.path.isdir(q):
            d = os.path.realpath(q)
            if d in seen_dirs:
                return
            seen_dirs.add(d)
            try:
                names = sorted(os.listdir(q))
            except OSError:
                names = []
            for e in names:
                go(pjoin(p, e), False)
        elif (top or ext_is_circom(p)) and os.path.exists(q):
            out.append(os.path.realpath(q))
    for a in argv:
        go(a, True)
    return out


def classify_libs(cw, libs):
    out = []
    for lib in libs:
        q = lib if lib.startswith("/") else os.path.join(cw, lib)
        if os.path.isdir(q):
            out.append(("dir", lib))
        elif ext_is_circom(lib) and os.path.exists(q):
            out.append(("file", os.path.realpath(q)))
    return out


def resolve(cw, cfile, inc, libs):
    """The include `inc` of canonical file `cfile`: relative to the including
    file first, then the -L libraries in the order given (a directory library
    for names not starting with '.', a file library for single-component
    names equal to its file name).  Only a file can be included: a path that
    exists but is not a regular file does not count as found."""
    cand = pjoin(os.path.dirname(cfile), inc)
    if os.path.isfile(cand):
        return os.path.realpath(cand)
    for kind, lib in libs:
        if kind == "dir":
            if inc.startswith("."):
                continue
            cand = pjoin(lib, inc)
            cand = cand if cand.startswith("/") else os.path.join(cw, cand)
            if os.path.isfile(cand):
                return os.path.realpath(cand)
        else:
            if "/" not in inc and os.path.basename(lib) == inc:
                return lib
    return None


def quoted(msg):
    """the texts a message quotes between backticks"""
    return re.findall(r"`([^`]*)`", msg)


def absolute(cw, p):
    return os.path.realpath(p if p.startswith("/") else os.path.join(cw, p))


def files_read(impl):
    """(the paths parse_file was called on, where that was read from, problems
    of the readers).  Primary source: the `reading file` debug lines of the
    parser crate.  Independent source: the FileLibrary (one entry per file that
    was opened, in call order, whatever the log says).  When the two disagree
    in a way only a changed log line explains — the library has entries the
    log does not mention although the logger delivered lines, or nothing was
    logged at all — the library is used and the reader is named as broken; a
    re-worded line must not turn into a failure of the property with a bogus
    input (third audit)."""
    log = list(impl.get("read") or [])
    lib = [n for n, _u in (impl.get("files") or [])]
    if all(n in log for n in lib):
        return log, "debug log", []
    why = ("the FileLibrary holds %d files of which %d are not in the `reading file` debug lines (%d debug lines captured)"
           % (len(lib), sum(1 for n in lib if n not in log), impl.get("nlog", 0)))
    return lib, "file library", ["reader of `reading file` debug lines (harness/src/bin/includes.rs dump): " + why]


def oracle(proj, root, impl, cli):
    """List of failures of the property text on this run (empty = holds).
    Problems of the readers (not of the tool) are collected in impl["reader_problems"]."""
    fails = []
    problems = impl.setdefault("reader_problems", []) if isinstance(impl, dict) else []
    if impl.get("timeout"):
        return [{"clause": "cycles terminate", "detail": "parse_files did not return within 10 s"}]
    if impl.get("kind") in ("panic", "panic-outside", "bad-line", "bad-root"):
        return [{"clause": "terminates normally", "detail": "parse_files: " + impl.get("kind")}]
    cw = cwd_of(proj, root)
    argv = [subst(a, root) for a in proj["argv"]]
    libs = classify_libs(cw, [subst(x, root) for x in proj["libs"]])
    named = set(expand_named(cw, argv))
    rel_of = real_to_rel(proj, root)
    # reachable closure per the resolution rule
    seen, order, todo, unresolved, nonfile = set(), [], list(named), [], []
    while todo:
        c = todo.pop()
        if c in seen:
            continue
        seen.add(c)
        order.append(c)
        rel = rel_of.get(c)
        if rel is None or unusable(proj["files"][rel]):
            continue
        for inc, s, e1, e2 in source_of(proj, rel, root)[1]:
            t = resolve(cw, c, inc, libs)
            if t is None:
                unresolved.append((c, inc, s, e1, e2))
            elif not os.path.isfile(t):
                nonfile.append((c, inc, s, e1, e2, t))
            else:
                todo.append(t)
    # 1. each canonical file read exactly once (debug log, and the FileLibrary
    #    which has one entry per file opened)
    read, source, probs = files_read(impl)
    problems.extend(probs)
    impl["read_used"] = read
    read_real = [absolute(cw, p) for p in read]
    lib_real = [absolute(cw, n) for n, _u in impl["files"]]
    dup = sorted({p for p in read_real if read_real.count(p) > 1} | {p for p in lib_real if lib_real.count(p) > 1})
    if dup:
        fails.append({"clause": "each distinct file is read and parsed once",
                      "detail": "read more than once: %s (%s: %s; file library: %s)" % (dup, source, read, [n for n, _u in impl["files"]])})
    # 2. exactly the reachable files (resolution order)
    got = {p for p in read_real if os.path.isfile(p)}
    if got != seen:
        fails.append({"clause": "exactly the named files and the files reachable from them are read (resolution relative to the including file, then -L libraries in order)",
                      "detail": "files read %s, reachable per the rule %s" % (sorted(got), sorted(seen))})
    # 3. unresolved include -> error located at the include statement.  An
    #    include error is recognised by its code and its place (a P1000 error
    #    with a primary label in a file that parses: the only other labelled
    #    P1000 is the parse error, which a file that parses does not have), not
    #    by the wording of its message
    bad_real = {c for c, rel in rel_of.items() if unusable(proj["files"][rel])}
    errs = []
    for r in impl["reports"]:
        if r["code"] == "P1000" and r["labels"]:
            fid, s, e = r["labels"][0]
            name = impl["files"][fid][0] if fid < len(impl["files"]) else "?"
            c = absolute(cw, name)
            if c in rel_of and c not in bad_real:
                errs.append((c, s, e, r["msg"]))
    want = sorted((c, s) for c, inc, s, e1, e2 in unresolved)
    have = sorted((c, s) for c, s, e, m in errs)
    if want != have:
        fails.append({"clause": "an unresolved include produces an error located at the include statement",
                      "detail": "expected (file, offset) %s, reported %s" % (
                          sorted((c, inc, s) for c, inc, s, e1, e2 in unresolved), sorted((c, s, m) for c, s, e, m in errs))})
    else:
        ends = {(c, s): (inc, e1, e2) for c, inc, s, e1, e2 in unresolved}
        for c, s, e, m in errs:
            inc, e1, e2 = ends[(c, s)]
            if not e1 <= e <= e2:
                fails.append({"clause": "an unresolved include produces an error located at the include statement",
                              "detail": "range of %s in %s ends at %d, statement ends at %d" % (inc, c, e, e1)})
    for c, inc, s, e1, e2, t in nonfile:
        if (c, s) not in have:
            fails.append({"clause": "an unresolved include produces an error located at the include statement",
                          "class": "include-resolves-to-directory",
                          "detail": "include \"%s\" in %s resolves to %s which is not a file; no error located at the statement" % (inc, c, t)})
    # 4. the user set is the set of named files
    for name, user in impl["files"]:
        c = absolute(cw, name)
        if user != (c in named):
            fails.append({"clause": "only named files are user inputs",
                          "detail": "%s: is_user_input=%s, named=%s" % (name, user, c in named)})
    # 4b. included definitions inform the analysis: what parse_files hands to
    #     the analysis (ProgramArchive::new with a main component,
    #     TemplateLibrary::new without) holds the definitions of every file
    #     that was read and parses, named or only included, whatever its pragma
    tn = template_names(proj)
    defined = {c for c in seen if c in rel_of and c not in bad_real}
    want_defs = sorted(tn[rel_of[c]] for c in defined)
    if "defs" in impl and sorted(impl["defs"]) != want_defs and not dup and got == seen:
        fails.append({"clause": "definitions from included files inform the analysis of the named files",
                      "detail": "definitions handed to the analysis (%s) %s, definitions of the files read that parse %s"
                                % (impl.get("kind"), sorted(impl["defs"]), want_defs)})
    # 5. CLI: analysis and findings only for named files
    if cli is not None:
        if cli.get("timeout"):
            fails.append({"clause": "cycles terminate", "detail": "CLI did not finish within 10 s"})
        else:
            parsed_ok = {c for c in got if c in rel_of and not unusable(proj["files"][rel_of[c]])}
            want_t = sorted(tn[rel_of[c]] for c in parsed_ok if c in named)
            found_in = set()
            for f in cli["finding_files"]:
                found_in.add(absolute(cw, f))
            analyzing = cli["analyzing"]
            analysis_findings = {absolute(cw, x[1]) for x in (cli.get("sarif") or []) if x[1] and str(x[0]).startswith("CS")}
            if not analyzing and want_t and (analysis_findings & named) and not cli.get("panicked"):
                # findings of analysis passes (rule ids CS...) are displayed for named files but no `analyzing ...` line was recognised
                problems.append("reader of the CLI's `analyzing template/function '<name>'` lines (C19.py run_cli): none recognised "
                                "although findings of analysis passes in named files are in the SARIF output")
                analyzing = want_t
            if sorted(analyzing) != want_t and not dup:
                fails.append({"clause": "only named files are analysed",
                              "detail": "analysed %s, templates of named files %s" % (sorted(analyzing), want_t)})
            for c in sorted(found_in):
                if c not in named:
                    fails.append({"clause": "included-only files produce no findings", "detail": "finding located in " + c})
            # the other side of the file filter: the template generated for
            # every file has findings of its own (`b <-- a`), so every named
            # file that parses is reported on — whichever named file was
            # parsed first and whether or not another named file includes it
            settled = sorted(analyzing) == want_t and not dup and not cli.get("panicked")
            if settled:
                for c in sorted(parsed_ok):
                    if c in named and c not in found_in:
                        fails.append({"clause": "named files are reported on",
                                      "detail": "no finding located in the named file %s (findings in %s)" % (c, sorted(found_in))})
            # included definitions inform the analysis, end to end: a component
            # whose output is left unused is reported (CS0018) exactly when the
            # instantiated template is defined in a file that was read and
            # parses — named or only included.  Read from the SARIF output
            # (rule id, file, line), not from message texts
            if settled and got == seen:
                if cli.get("sarif") is None:
                    problems.append("reader of the CLI's SARIF output (C19.py run_cli): " + str(cli.get("sarif_error")))
                else:
                    want_u, have_u = set(), set()
                    for c in parsed_ok:
                        if c in named:
                            for u, line in source_parts(proj, rel_of[c], root)[2]:
                                if os.path.join(root, u) in defined:
                                    want_u.add((c, line))
                    for x in cli["sarif"]:
                        if x[0] == "CS0018" and x[1] is not None:
                            have_u.add((absolute(cw, x[1]), x[2]))
                    if want_u != have_u:
                        fails.append({"clause": "definitions from included files inform the analysis of the named files",
                                      "detail": "unused-output findings (CS0018) at (file, line) %s; components whose template is defined in a "
                                                "file that was read: %s" % (sorted(have_u), sorted(want_u))})
            if cli.get("sarif") is not None and not cli.get("panicked"):
                rows = cli["sarif"]
                # (a) the SARIF side of "only named files are reported on"
                for x in rows:
                    if x[1] and absolute(cw, x[1]) not in named:
                        fails.append({"clause": "included-only files produce no findings (SARIF output)",
                                      "detail": "SARIF result %s located in %s" % (x[0], x[1])})
                # (b) an unresolvable include of a NAMED file is displayed at its
                #     statement; the one of an included-only file is not (the
                #     per-file filter: its only primary label lies in that file)
                want_loc, want_hidden = set(), set()
                for c, inc, s0, e1, e2 in unresolved:
                    line = source_of(proj, rel_of[c], root)[0][:s0].count("\n") + 1
                    (want_loc if c in named else want_hidden).add((c, line))
                have_loc = {(absolute(cw, x[1]), x[2]) for x in rows if x[0] == "P1000" and x[1]}
                have_loc = {y for y in have_loc if y[0] in rel_of and y[0] not in bad_real}
                if want == have and have_loc != want_loc:
                    fails.append({"clause": "an unresolved include of a named file is displayed, located at the include statement",
                                  "detail": "P1000 results at (file, line) %s; unresolved includes of named files at %s "
                                            "(of included-only files, not to be displayed: %s)" % (sorted(have_loc), sorted(want_loc), sorted(want_hidden))})
                impl["cli_include_errors"] = {"displayed": len(have_loc & want_loc), "hidden": len(want_hidden - have_loc)}
                # (c) reports WITHOUT a primary label (file not opened, unsupported
                #     or missing pragma, several main components) are about a
                #     file but not located in it: the CLI displays every one of
                #     them, also when the file was only included (C03's reading:
                #     only reports located solely in included files are hidden)
                want_free = sorted((r["code"], r["msg"]) for r in impl["reports"]
                                   if not r["labels"] and r["cat"] in ("error", "warning"))
                have_free = sorted((x[0], x[3]) for x in rows if not x[1])
                if want_free != have_free:
                    fails.append({"clause": "reports without a location are displayed (also about included-only files)",
                                  "detail": "label-less reports of parse_files %s, label-less SARIF results %s" % (want_free, have_free)})
                about_included = 0
                for code, msg in want_free:
                    qs = [absolute(cw, q) for q in quoted(msg)[:1]]
                    if qs and qs[0] in seen and qs[0] not in named:
                        about_included += 1
                impl["label_less"] = {"displayed": len(have_free), "about_included_only_files": about_included}
            cli_real = [absolute(cw, p) for p in cli["read"]]
            if not cli["read"] and read:
                problems.append("reader of the CLI's `reading file` debug lines on stderr (C19.py run_cli): none recognised, "
                                "the in-process run read %d files" % len(read))
            elif source == "debug log" and sorted(cli_real) != sorted(read_real):
                fails.append({"clause": "each distinct file is read and parsed once",
                              "detail": "CLI read %s, in-process run read %s" % (cli["read"], read)})
    return fails


# --------------------------------------------------------------------------
# abstract data for the model
# --------------------------------------------------------------------------

def abstract(proj, root, info=None):
    """The model's input line: argv, libs, canon table, directory listings,
    contents — computed from the real file system.  `info` (a dict) receives
    the table's key sets and whether a directory walk was cut short."""
    cw = cwd_of(proj, root)
    argv = [subst(a, root) for a in proj["argv"]]
    libs = [subst(x, root) for x in proj["libs"]]
    incs = set()
    for rel in proj["files"]:
        for inc, s, e1, e2 in source_of(proj, rel, root)[1]:
            incs.add(inc)
    canon = {}
    dirs = {}
    truncated = []

    def absq(p):
        return p if p.startswith("/") else os.path.join(cw, p)

    def note(p):
        q = absq(p)
        canon[p] = os.path.realpath(q) if os.path.exists(q) else None

    visited = set()

    def walk(p, depth):
        # the spellings the mirror of `add_files` (fix 517e7a0) can look up: the
        # entries of every directory in OS order; a directory whose canonical
        # path was listed before is recorded as a directory (with its entries)
        # but not descended into again
        note(p)
        q = absq(p)
        if os.path.isdir(q):
            if depth >= WALK_LIMIT:
                truncated.append(p)
                return
            try:
                names = [e.name for e in os.scandir(q)]
            except OSError:
                return
            dirs[p] = names
            d = os.path.realpath(q)
            if d in visited:
                return
            visited.add(d)
            for n in names:
                walk(pjoin(p, n), depth + 1)
    for a in argv:
        walk(a, 0)
    for lib in libs:
        note(lib)
        if os.path.isdir(absq(lib)):
            dirs.setdefault(lib, None)
    # every object below root: its canonical path, and its parent as a base
    bases = set(x for x in libs if os.path.isdir(absq(x)))
    for d, ds, fs in os.walk(root):
        for n in ds + fs:
            c = os.path.realpath(os.path.join(d, n))
            bases.add(os.path.dirname(c))
    bases.add(root)
    bases.add(cw)
    for b in sorted(bases):
        for s in sorted(incs):
            note(pjoin(b, s))
    for c in [v for v in canon.values() if v]:
        canon.setdefault(c, c)
    rel_of = real_to_rel(proj, root)
    contents = []
    for c in sorted({v for v in canon.values() if v}):
        if c in rel_of:
            rel = rel_of[c]
            if proj["files"][rel].get("raw"):
                contents.append(c + ",U")
            elif proj["files"][rel].get("bad"):
                contents.append(c + ",E")
            else:
                contents.append(",".join([c, "P"] + ["%s@%d@%d" % (inc, s, e1) for inc, s, e1, e2 in source_of(proj, rel, root)[1]]))
        elif os.path.isfile(c):
            contents.append(c + ",E")      # a readable file that is not Circom
        else:
            contents.append(c + ",U")
    if info is not None:
        info.update({"canon_keys": set(canon), "canon": dict(canon), "dirs": dict(dirs), "truncated": truncated,
                     "dir_libs": [x for x in libs if os.path.isdir(absq(x))], "argv": argv, "libs": libs})
    def lst(xs):
        return ";".join(xs) if xs else "-"
    return "\t".join([
        lst(argv), lst(libs),
        lst(["%s,%s" % (k, v if v else "-") for k, v in sorted(canon.items())]),
        lst([",".join([k] + (v or [])) for k, v in sorted(dirs.items())]),
        lst(sorted({v for v in canon.values() if v and os.path.isfile(v)})),
        lst(contents)])


def table_misses(proj, root, info, model):
    """Spellings the mirror looks up on this project that are NOT keys of the
    table `abstract` built (a miss silently reads as "does not exist" in
    d_canon / "not a directory" in d_is_dir).  The looked-up spellings are
    recomputed from the model's own result with the model's path functions
    (s_join = pjoin, s_parent of a canonical path = dirname): the command
    line and library arguments, `parent(file) / include` for every file read
    and each of its include statements, `library / include` for every
    directory library and every include not starting with a dot — a superset of
    what the run really queried.  Third audit: the table's completeness used
    to be taken on trust."""
    misses = []
    if info.get("truncated"):
        misses.append("directory walk cut at depth %d: %s" % (WALK_LIMIT, info["truncated"][:3]))
    if not isinstance(model, dict) or model.get("status") != "ok":
        return misses
    keys = info["canon_keys"]
    for x in info["argv"] + info["libs"]:
        if x not in keys:
            misses.append("argument " + x)
    # the expansion of the arguments, replayed over the TABLE with the rule of
    # add_files_once: every spelling it looks up must be a key (fourth audit:
    # the directory keys were collected and never checked)
    seen = set()
    canon, dirs = info["canon"], info["dirs"]

    def visit(p, depth):
        if p not in keys:
            misses.append("directory entry " + p)
            return
        if p in dirs and depth < 200:
            d = canon.get(p)
            if d is not None:
                if d in seen:
                    return
                seen.add(d)
            for n in dirs[p] or []:
                visit(pjoin(p, n), depth + 1)
    for a in info["argv"]:
        visit(a, 0)
    rel_of = real_to_rel(proj, root)
    for c in model.get("read", []):
        if c not in keys:
            misses.append("file read " + c)
        rel = rel_of.get(c)
        if rel is None or unusable(proj["files"][rel]):
            continue
        for inc, s, e1, e2 in source_of(proj, rel, root)[1]:
            q = pjoin(os.path.dirname(c), inc)
            if q not in keys:
                misses.append("relative " + q)
            if not inc.startswith("."):
                for lib in info["dir_libs"]:
                    q = pjoin(lib, inc)
                    if q not in keys:
                        misses.append("library " + q)
    return misses


# --------------------------------------------------------------------------
# generators
# --------------------------------------------------------------------------

def F(*incs, **kw):
    d = {"incs": list(incs)}
    d.update(kw)
    return d


def shapes():
    """Fixed small projects; every non-empty choice of named files is run."""
    out = []
    out.append(("chain", {"dirs": ["src"], "files": {"src/a.circom": F("b.circom"), "src/b.circom": F("./c.circom"),
                                                     "src/c.circom": F()}, "libs": []}))
    out.append(("diamond", {"dirs": ["src", "src/sub"],
                            "files": {"src/a.circom": F("b.circom", "sub/c.circom"), "src/b.circom": F("./d.circom"),
                                      "src/sub/c.circom": F("../d.circom", "../../src/d.circom"), "src/d.circom": F()}, "libs": []}))
    out.append(("cycle", {"dirs": ["src"], "files": {"src/a.circom": F("b.circom", "a.circom"), "src/b.circom": F("c.circom"),
                                                     "src/c.circom": F("../src/a.circom", "./c.circom")}, "libs": []}))
    out.append(("libdir", {"dirs": ["src", "lib1", "lib1/sub"],
                           "files": {"src/a.circom": F("x.circom", "sub/y.circom", "./x.circom"),
                                     "lib1/x.circom": F("../src/a.circom", "sub/y.circom"),
                                     "lib1/sub/y.circom": F("x.circom", "a.circom")}, "libs": ["lib1"]}))
    out.append(("d23", {"dirs": ["p", "lib"], "files": {"p/main.circom": F("x.circom", "../lib/x.circom"), "lib/x.circom": F()},
                        "libs": ["lib"]}))
    out.append(("d23-cycle", {"dirs": ["p", "l1", "l2"],
                              "files": {"p/m.circom": F("a.circom", "../l1/a.circom"), "l1/a.circom": F("b.circom"),
                                        "l2/b.circom": F("a.circom", "../l2/b.circom")}, "libs": ["l1", "./l2"]}))
    out.append(("libfile", {"dirs": ["src", "lib2"],
                            "files": {"src/a.circom": F("y.circom", "b.circom"), "src/b.circom": F("./y.circom", "lib2/y.circom"),
                                      "lib2/y.circom": F("a.circom")}, "libs": ["lib2/y.circom"]}))
    out.append(("symlink", {"dirs": ["src", "other"],
                            "files": {"src/a.circom": F("l.circom", "../other/t.circom", "../dl/a.circom"),
                                      "other/t.circom": F("a.circom", "u.circom"), "other/u.circom": F("../src/l.circom")},
                            "links": {"src/l.circom": "../other/t.circom", "dl": "src"}, "libs": []}))
    for name, order in (("liborder12", ["lib1", "lib2"]), ("liborder21", ["lib2", "lib1"])):
        out.append((name, {"dirs": ["src", "lib1", "lib2"],
                           "files": {"src/a.circom": F("z.circom", "w.circom"), "src/w.circom": F(), "lib1/z.circom": F("w.circom"),
                                     "lib2/z.circom": F(), "lib2/w.circom": F()}, "libs": order}))
    out.append(("unresolved", {"dirs": ["src", "lib1"],
                               "files": {"src/a.circom": F("nothere.circom", "./x.circom", "b.circom", "sub/x.circom"),
                                         "src/b.circom": F("@/src/nope.circom", "x.circom"), "lib1/x.circom": F()}, "libs": ["lib1"]}))
    # ---- third audit ----
    # pragma variants in files that have includes: a file whose pragma asks
    # for a version the tool does not support (or that has none) is still
    # followed, its definitions are still handed to the analysis; templates
    # instantiate templates of included files
    for name, va, vb in (("pragma-new", "2.0.0", "2.1.5"), ("pragma-new-named", "3.0.0", None), ("pragma-old", None, "1.9.9")):
        out.append((name, {"dirs": ["src"],
                           "files": {"src/a.circom": F("b.circom", pragma=va, uses=["src/b.circom", "src/c.circom"]),
                                     "src/b.circom": F("./c.circom", "d.circom", pragma=vb, uses=["src/c.circom"]),
                                     "src/c.circom": F(pragma="2.2.0"), "src/d.circom": F()}, "libs": []}))
    # a main component (ParseResult::Program, ProgramArchive::new): in the named
    # file, in an included-only file, in two files; instantiated templates come
    # from an included-only file, from a library, from a file that is not read
    for name, mains in (("main-named", ["p/main.circom"]), ("main-included", ["lib/x.circom"]),
                        ("main-two", ["p/main.circom", "p/y.circom"])):
        files = {"p/main.circom": F("x.circom", "y.circom", uses=["lib/x.circom", "p/y.circom", "p/z.circom"]),
                 "lib/x.circom": F("../p/y.circom", uses=["p/y.circom"]), "p/y.circom": F(uses=["p/z.circom"]), "p/z.circom": F()}
        for m in mains:
            files[m]["main"] = True
        out.append((name, {"dirs": ["p", "lib"], "files": files, "libs": ["lib"]}))
    # dangling and looping symlinks: named, included, met in a named directory
    out.append(("dangling", {"dirs": ["src"],
                             "files": {"src/a.circom": F("gone.circom", "l1.circom", "./self.circom", "b.circom", uses=["src/b.circom"]),
                                       "src/b.circom": F("../src/gone.circom")},
                             "links": {"src/gone.circom": "nowhere.circom", "src/l1.circom": "l2.circom", "src/l2.circom": "l1.circom",
                                       "src/self.circom": "self.circom"},
                             "libs": ["src/gone.circom", "src"], "argvs": [["src"], ["."], ["src/gone.circom", "src"]]}))
    # a directory symlink loop below a named directory (the kernel ends it after 40 links)
    out.append(("dirloop", {"dirs": ["src", "src/sub"],
                            "files": {"src/a.circom": F("loop/loop/sub/b.circom", "loop/a.circom"), "src/sub/b.circom": F("../loop/a.circom")},
                            "links": {"src/loop": "."}, "libs": ["src/loop/loop"],
                            "argvs": [["src"], ["."], ["src/loop/loop/sub"], ["src/loop/a.circom", "src"]]}))
    # the tool is started in another directory than the project root: relative
    # argv / -L spellings are relative to it
    out.append(("cwd-src", {"dirs": ["src", "lib1", "lib1/sub"], "cwd": "src",
                            "files": {"src/a.circom": F("x.circom", "sub/y.circom", "./x.circom", uses=["lib1/x.circom"]),
                                      "lib1/x.circom": F("../src/a.circom", "sub/y.circom"),
                                      "lib1/sub/y.circom": F("x.circom", "a.circom")}, "libs": ["../lib1"]}))
    out.append(("cwd-deep", {"dirs": ["src", "other", "other/deep"], "cwd": "other/deep",
                             "files": {"src/a.circom": F("l.circom", "../other/t.circom", "../dl/a.circom"),
                                       "other/t.circom": F("a.circom", "u.circom"), "other/u.circom": F("../src/l.circom")},
                             "links": {"src/l.circom": "../other/t.circom", "dl": "src"}, "libs": [".."],
                             "argvs": [["../../dl"], ["../..", "../t.circom"]]}))
    # ---- fourth audit ----
    # several links from a directory back to itself / its parent (fix 517e7a0:
    # each canonical directory is read once; before it the expansion of a named
    # directory grew as 3^40)
    out.append(("dirloop-many", {"dirs": ["src", "src/sub"],
                                 "files": {"src/a.circom": F("loop/up/src/sub/b.circom", "loop2/a.circom", uses=["src/sub/b.circom"]),
                                           "src/sub/b.circom": F("../loop2/loop/a.circom")},
                                 "links": {"src/loop": ".", "src/loop2": ".", "src/up": "..", "src/sub/back": "..", "src/sub/self": "."},
                                 "libs": ["src/loop/loop2"],
                                 "argvs": [["src"], ["."], ["src/sub", "src"], ["src/loop2/sub/back", "src/a.circom"]]}))
    # includes with inner `./` and `../` that only a library can serve, and
    # dot-leading ones that a library must not serve
    out.append(("libdots", {"dirs": ["src", "lib1", "lib1/sub"],
                            "files": {"src/a.circom": F("sub/../x.circom", "sub/./y.circom", "./x.circom", "../lib1/x.circom", "../src/../lib1/sub/y.circom",
                                                        uses=["lib1/x.circom", "lib1/sub/y.circom"]),
                                      "lib1/x.circom": F("sub/../sub/y.circom"), "lib1/sub/y.circom": F("../sub/./y.circom", "../x.circom")},
                            "libs": ["lib1"]}))
    # a -L argument that is a symbolic link to a directory, and is needed
    out.append(("liblink", {"dirs": ["src", "lib1", "lib1/sub"],
                            "files": {"src/a.circom": F("x.circom", "sub/y.circom", uses=["lib1/x.circom"]),
                                      "lib1/x.circom": F("sub/y.circom"), "lib1/sub/y.circom": F()},
                            "links": {"ll": "lib1", "src/lsub": "../lib1/sub"}, "libs": ["ll", "src/lsub"]}))
    # a file that is not UTF-8 (open_file fails): named, included, below a named directory
    out.append(("nonutf8", {"dirs": ["src"],
                            "files": {"src/a.circom": F("raw.circom", "b.circom", uses=["src/raw.circom", "src/b.circom"]),
                                      "src/raw.circom": F("b.circom", raw=True), "src/b.circom": F()},
                            "libs": [], "argvs": [["src"]]}))
    res = []
    for name, p in out:
        p.setdefault("links", {})
        p.setdefault("extra", [])
        argvs = p.pop("argvs", [])
        cwd = p.get("cwd") or ""
        cands = sorted(p["files"]) + sorted(k for k in p["links"] if k.endswith(".circom"))
        permuted = MAX_PERMUTED if name in FIRST_SHAPES else 2
        for r in range(1, len(cands) + 1):
            for sub in itertools.combinations(cands, r):
                # every ORDER of the named files too (which file's stack entry is
                # popped first depends on it); subsets of more than
                # MAX_PERMUTED files only in sorted order (the shapes added by
                # the third audit: pairs in both orders, larger subsets sorted)
                orders = itertools.permutations(sub) if r <= permuted else [sub]
                for order in orders:
                    q = json.loads(json.dumps(p))
                    q["argv"] = [os.path.relpath(x, cwd) if cwd else x for x in order]
                    q["shape"] = name
                    res.append(q)
        for av in argvs:
            q = json.loads(json.dumps(p))
            q["argv"] = list(av)
            q["shape"] = name
            res.append(q)
    return res


FIRST_SHAPES = ("chain", "diamond", "cycle", "libdir", "d23", "d23-cycle", "libfile", "symlink", "liborder12", "liborder21", "unresolved")


MAX_PERMUTED = 4


def spell(rng, rel, links_to_dirs):
    k = rng.randrange(6)
    if k == 0:
        return "./" + rel
    if k == 1:
        return "@/" + rel
    if k == 2 and "/" in rel:
        d, b = rel.split("/", 1)
        return d + "/../" + d + "/" + b
    if k == 3:
        for ln, target in links_to_dirs.items():
            if rel.startswith(target + "/"):
                return ln + rel[len(target):]
    return rel


def gen_random(rng):
    dirs = ["src"] + [d for d in ["src/sub", "other", "lib1", "lib1/sub", "lib2"] if rng.random() < 0.6]
    pool = ["a", "b", "c", "x", "y"]
    files = {}
    for _ in range(rng.randint(1, 6)):
        files[rng.choice(dirs) + "/" + rng.choice(pool) + ".circom"] = None
    links = {}
    dirlinks = {}
    rels = sorted(files)
    for i in range(rng.choice([0, 0, 1, 2, 3])):
        k = rng.random()
        if k < 0.45:
            d = rng.choice(dirs)
            t = rng.choice(rels)
            name = d + "/" + rng.choice(["l%d" % i, rng.choice(pool)]) + rng.choice([".circom", ".circom", ".txt"])
            if name not in files and name not in links:
                links[name] = rng.choice([os.path.relpath(t, d), "@/" + t])
        elif k < 0.6:
            # a dangling link, a link to itself, or one of a pair pointing at each other
            d = rng.choice(dirs)
            name = d + "/g%d.circom" % i
            kind = rng.randrange(3)
            if kind == 0:
                links[name] = rng.choice(["nowhere.circom", "@/gone/x.circom", "../nodir/x.circom"])
            elif kind == 1:
                links[name] = "g%d.circom" % i
            else:
                links[name] = "h%d.circom" % i
                links[d + "/h%d.circom" % i] = "g%d.circom" % i
        elif k < 0.7:
            # a directory link to the directory it lives in (at most one per
            # directory: two would make the expansion of a named directory
            # exponential in the kernel's limit of 40 links)
            # links from a directory back to itself or to its parent, several
            # per directory (fix 517e7a0 made that affordable)
            d = rng.choice(dirs)
            for nm in rng.sample(["loop", "loop2", "up"], rng.choice([1, 2, 3])):
                if nm == "up":
                    links.setdefault(d + "/up", "..")
                    if os.path.dirname(d):
                        dirlinks[d + "/up"] = os.path.dirname(d)
                else:
                    links.setdefault(d + "/" + nm, ".")
                    dirlinks[d + "/" + nm] = d
        else:
            t = rng.choice(dirs)
            links["dl%d" % i] = t
            dirlinks["dl%d" % i] = t
    extra = ["notes.txt"] if rng.random() < 0.3 else []
    allnames = rels + [k for k in links if k not in dirlinks]
    libdirs = [d for d in dirs if d.startswith("lib") or d == "other"]
    for rel in rels:
        d = os.path.dirname(rel)
        incs = []
        targets = []
        for _ in range(rng.choice([0, 1, 1, 2, 2, 3])):
            k = rng.randrange(10)
            t = rng.choice(allnames)
            targets.append(t)
            r = os.path.relpath(t, d)
            if k == 0:
                incs.append("./" + r)
            elif k == 1:
                incs.append("../" + os.path.basename(d) + "/" + r if "/" not in d else "../" + os.path.basename(d) + "/" + r)
            elif k == 2:
                incs.append("@/" + t)
            elif k in (3, 4):
                incs.append(os.path.basename(t))
            elif k == 5:
                ls = [x for x in libdirs if t.startswith(x + "/")]
                r5 = os.path.relpath(t, rng.choice(ls)) if ls else r
                if ls and rng.random() < 0.4:
                    # inner `./` or `x/../`: still a name only the library can serve
                    r5 = r5.replace("/", "/./", 1) if "/" in r5 else "sub/../" + r5
                incs.append(r5)
            elif k == 6:
                incs.append(rng.choice(["missing.circom", "./missing.circom", "nodir/x.circom", "../missing.circom",
                                        ".hidden.circom", os.path.basename(rel),
                                        os.path.relpath(rng.choice(dirs), d), os.path.basename(rng.choice(dirs))]))
            elif k == 7:
                # through a directory symlink (third audit: this branch was dead code)
                via = [ln + t[len(target):] for ln, target in sorted(dirlinks.items()) if t.startswith(target + "/")]
                incs.append(os.path.relpath(rng.choice(via), d) if via else r)
            else:
                incs.append(r)
        # whose templates this file's template instantiates: mostly the files
        # it (tries to) include, sometimes any file of the project
        uses = []
        for _ in range(rng.choice([0, 0, 1, 1, 2])):
            cand = [t for t in targets if t in files] if rng.random() < 0.7 else rels
            if cand:
                u = rng.choice(cand)
                if u not in uses:
                    uses.append(u)
        pk = rng.random()
        pragma = DEFAULT_PRAGMA if pk < 0.6 else rng.choice(PRAGMAS_TOO_NEW) if pk < 0.8 else rng.choice(PRAGMAS_OTHER)
        files[rel] = {"incs": incs, "bad": rng.random() < 0.05, "pragma": pragma, "uses": uses, "main": rng.random() < 0.15}
        if rng.random() < 0.04:
            files[rel]["raw"] = True
    libs = []
    for _ in range(rng.choice([0, 1, 1, 2, 3])):
        k = rng.randrange(10)
        if k < 5 and libdirs:
            ld = rng.choice(libdirs)
            via = [ln for ln, target in sorted(dirlinks.items()) if target == ld]
            # a library given through a symbolic link to the directory
            libs.append(rng.choice(via) if via and rng.random() < 0.5 else spell(rng, ld, dirlinks))
        elif k < 8:
            libs.append(spell(rng, rng.choice(allnames), dirlinks))
        else:
            libs.append(rng.choice(["nolib", "nolib.circom", "notes.txt", "src"]))
    argv = []
    for _ in range(rng.choice([1, 1, 2, 3])):
        k = rng.randrange(12)
        if k < 9:
            argv.append(spell(rng, rng.choice(allnames), dirlinks))
        elif k == 9:
            argv.append(rng.choice(dirs + sorted(dirlinks) + ["."]))
        else:
            argv.append(rng.choice(["notes.txt", "ghost.circom", "src/ghost.circom"]))
    proj = {"dirs": dirs, "files": files, "links": links, "extra": extra, "argv": argv, "libs": libs, "shape": "random"}
    if rng.random() < 0.25:
        # started in a subdirectory: relative spellings are re-expressed relative to it
        cwd = rng.choice(dirs)
        proj["cwd"] = cwd
        proj["argv"] = [a if a.startswith("@/") else os.path.relpath(a, cwd) for a in argv]
        proj["libs"] = [a if a.startswith("@/") else os.path.relpath(a, cwd) for a in libs]
    return proj


# --------------------------------------------------------------------------
# running the implementation and the model
# --------------------------------------------------------------------------

def run_harness(binary, lines):
    """One JSON result per line; a hanging case ends the process, which is
    restarted on the rest."""
    out = []
    rest = list(lines)
    while rest:
        rc, o, err = common.sh([binary], inp="\n".join(rest) + "\n", timeout=600)
        got = [json.loads(x) for x in o.splitlines() if x.strip()]
        if not got and rc != 0:
            raise common.BuildError("harness includes failed rc=%d" % rc, err[-2000:])
        out.extend(got)
        rest = rest[len(got):]
        if rest and not (got and got[-1].get("timeout")):
            if rc == 0:
                raise common.BuildError("harness includes printed too few lines", err[-2000:])
            out.append({"kind": "panic-outside"})
            rest = rest[1:]
    return out


def first_snippets(out):
    """the file of the FIRST source snippet of every diagnostic on stdout (its
    primary location); further snippets of the same diagnostic (a second label,
    e.g. the other definition of a duplicated name, possibly in an included
    file) are not locations of findings of their own (fourth audit)"""
    files, armed = [], False
    for line in out.splitlines():
        if re.match(r"^(error|warning|note|help|bug)(\[[^\]]*\])?: ", line):
            armed = True
        elif armed:
            m = re.search(r"┌─ (.+?):\d+:\d+", line)
            if m:
                files.append(m.group(1))
                armed = False
    return files


def run_cli(cli_bin, proj, root, sarif_path=None):
    cmd = [cli_bin]
    for lib in proj["libs"]:
        cmd += ["-L", subst(lib, root)]
    cmd += [subst(a, root) for a in proj["argv"]]
    if sarif_path:
        cmd += ["--sarif-file", sarif_path]
    env = dict(os.environ)
    env["RUST_LOG"] = "debug"
    rc, out, err = common.sh(cmd, cwd=cwd_of(proj, root), env=env, timeout=10)
    if rc == 124:
        return {"timeout": True}
    res = {"rc": rc,
           "analyzing": re.findall(r"analyzing (?:template|function) '([^']+)'", out),
           "finding_files": first_snippets(out),
           "read": re.findall(r"reading file `([^`]*)`", err),
           "panicked": "panicked at" in err,
           "sarif": None}
    if sarif_path:
        # (rule id, file of the first location, its first line) of every result
        try:
            doc = json.load(open(sarif_path))
            rows = []
            for r in doc["runs"][0]["results"]:
                locs = r.get("locations") or []
                f, line = None, None
                if locs:
                    ph = locs[0]["physicalLocation"]
                    f = ph["artifactLocation"]["uri"]
                    f = f[len("file://"):] if f.startswith("file://") else f
                    line = ph["region"]["startLine"]
                rows.append([r.get("ruleId"), f, line, (r.get("message") or {}).get("text")])
            res["sarif"] = rows
        except Exception as e:          # no file (a crash of the tool), or another layout
            res["sarif_error"] = "%s: %s" % (type(e).__name__, str(e)[:200])
        # the two readers of finding locations must agree on the set of files
        if res["sarif"] is not None:
            sf = sorted({x[1] for x in res["sarif"] if x[1]})
            of = sorted(set(res["finding_files"]))
            if sf != of:
                res["location_readers_differ"] = {"stdout": of, "sarif": sf}   # judged in evaluate(): a reader problem only if the oracle found no failure
    return res


def normalise(impl, dropped=None, proj=None, root=None):
    """The implementation's result in the model's output form.  The model speaks
    about P1000 reports only (file not found / include not resolved / parse error);
    every report that does not enter the comparison is counted in `dropped`
    (code -> number; second audit: they used to be dropped without a trace).
    Third audit: the three forms are told apart by code, labels and position —
    a labelled P1000 whose label starts at an include statement of its file is
    the include error (named after that statement's path unless the message
    quotes another one), any other labelled P1000 the parse error, an
    unlabelled one the OS error of the path the message quotes — not by the
    wording `Failed to open file`."""
    if impl.get("timeout"):
        return {"status": "timeout"}
    if impl.get("kind") not in ("program", "library"):
        return {"status": impl.get("kind")}
    starts = {}
    if proj is not None:
        cw = cwd_of(proj, root)
        rel_of = real_to_rel(proj, root)
        for fid, (name, _u) in enumerate(impl["files"]):
            rel = rel_of.get(absolute(cw, name))
            if rel is not None and not unusable(proj["files"][rel]):
                for inc, s, e1, e2 in source_of(proj, rel, root)[1]:
                    starts[(fid, s)] = inc

    def drop(what):
        if dropped is not None:
            dropped[what] = dropped.get(what, 0) + 1
    reps = []
    for r in impl["reports"]:
        if r["code"] != "P1000":
            drop(r["code"])
            continue
        q = quoted(r["msg"])
        if not r["labels"]:
            if q:
                reps.append(["os", q[0]])
            else:
                drop("P1000 (unlabelled, no quoted path)")
        elif proj is None:
            m = re.match(r"Failed to open file `(.*)`\.$", r["msg"])
            reps.append(["inc", m.group(1)] + r["labels"][0] if m else ["perr", r["labels"][0][0]])
        else:
            fid, s, e = r["labels"][0]
            inc = starts.get((fid, s))
            if inc is not None:
                reps.append(["inc", inc if (not q or inc in q) else q[0], fid, s, e])
            else:
                reps.append(["perr", fid])
    read = impl.get("read_used", impl["read"])
    return {"status": "ok", "read": read, "files": [[n, bool(u)] for n, u in impl["files"]], "reports": reps}


def front_report_counts(res):
    """What the comparison of the front end's reports with the model keeps and what it drops, per report code."""
    kept, dropped, projects = {}, {}, 0
    for r in res:
        for x in r["norm"].get("reports", []):
            kept[x[0]] = kept.get(x[0], 0) + 1
        for code, n in r.get("dropped", {}).items():
            dropped[code] = dropped.get(code, 0) + n
        projects += 1 if r.get("dropped") else 0
    return {"compared_with_the_model(P1000 by kind)": kept, "dropped_by_code": dropped, "reports_dropped": sum(dropped.values()),
            "projects_with_a_dropped_report": projects,
            "rule": "Model.Includes speaks about P1000 reports (os = file not opened, inc = include not resolved, perr = parse "
                    "error); every other report of parse_files (and a P1000 of no known form) is left out of the model "
                    "comparison and counted here per code; the oracle of the property reads the unfiltered reports"}


def pragma_kind(v):
    return "none" if v is None else "too-new" if v in PRAGMAS_TOO_NEW else "too-old" if v.startswith("1.") else "supported"


def nontrivial_key(proj, n, impl):
    return (proj.get("shape"), len(n.get("read", [])), len(proj["libs"]), len(proj.get("links", {})),
            tuple(sorted(r[0] for r in n.get("reports", []))), sum(1 for f in n.get("files", []) if f[1]),
            impl.get("kind"), bool(proj.get("cwd")),
            tuple(sorted({pragma_kind(f.get("pragma", DEFAULT_PRAGMA)) for f in proj["files"].values()})))


def load_corpus():
    d = os.path.join(common.VERIF, "corpus", "C19")
    out = []
    if os.path.isdir(d):
        for f in sorted(os.listdir(d)):
            if f.endswith(".json"):
                p = json.load(open(os.path.join(d, f)))
                p["shape"] = "corpus:" + f[:-5]
                out.append(p)
    return out


def evaluate(ctx, projs, base, with_model=True, with_cli=True):
    """Materialises, runs implementation (+CLI, +model), applies the oracle.
    Returns list of dicts per project."""
    HARNESS_BIN = common.build_harness("includes")
    CLI = common.build_cli() if with_cli else None
    MODEL_BIN = common.build_model("includes") if with_model else None
    roots = []
    os.makedirs(os.path.join(base, "sarif"), exist_ok=True)
    for i, p in enumerate(projs):
        root = os.path.join(base, "p%04d" % i)
        materialise(p, root)
        roots.append(root)
    lines = ["\t".join([cwd_of(p, root), ";".join(subst(a, root) for a in p["argv"]) or "-",
                        ";".join(subst(x, root) for x in p["libs"]) or "-"]) for p, root in zip(projs, roots)]
    nsh = max(1, min(common.NPROC, len(lines) // 8))
    chunks = [lines[i::nsh] for i in range(nsh)]
    with concurrent.futures.ThreadPoolExecutor(max_workers=nsh) as ex:
        outs = list(ex.map(lambda ch: run_harness(HARNESS_BIN, ch), chunks))
    impl = [None] * len(lines)
    for k, o in enumerate(outs):
        for j, r in enumerate(o):
            impl[k + j * nsh] = r
    clis = [None] * len(projs)
    if with_cli:
        with concurrent.futures.ThreadPoolExecutor(max_workers=common.NPROC) as ex:
            clis = list(ex.map(lambda pr: run_cli(CLI, pr[1][0], pr[1][1], os.path.join(base, "sarif", "p%04d.sarif" % pr[0])),
                               enumerate(zip(projs, roots))))
    models = [None] * len(projs)
    infos = [{} for _ in projs]
    if with_model:
        mlines = [abstract(p, root, info) for p, root, info in zip(projs, roots, infos)]
        mo = common.run_lines(MODEL_BIN, ["run"], mlines, shards=common.NPROC)
        models = [json.loads(x) for x in mo]
        if len(models) != len(projs):
            raise common.BuildError("model driver includes printed %d lines for %d projects" % (len(models), len(projs)), "")
    if any(x is None for x in impl):
        raise common.BuildError("harness includes returned no result for %d of %d projects" % (sum(1 for x in impl if x is None), len(impl)), "")
    res = []
    for p, root, im, cl, mo, info in zip(projs, roots, impl, clis, models, infos):
        idem = mo.pop("canon_idempotent", None) if isinstance(mo, dict) else None
        depth_ok = mo.pop("depth_ok", None) if isinstance(mo, dict) else None
        revisited = mo.pop("dirs_revisited", None) if isinstance(mo, dict) else None
        dropped = {}
        fails = oracle(p, root, im, cl)          # also settles which reader of the files read is used
        res.append({"proj": p, "root": root, "impl": im, "cli": cl, "model": mo,
                    "broken_links": sum(1 for rel in p.get("links", {}) if not os.path.exists(os.path.join(root, rel))),
                    "norm": normalise(im, dropped, p, root), "fails": fails,
                    "canon_idempotent": idem, "depth_ok": depth_ok, "dirs_revisited": revisited, "dropped": dropped,
                    "table_misses": table_misses(p, root, info, mo) if with_model else [],
                    "reader_problems": list(im.get("reader_problems", [])) +
                                       (["readers of finding locations (stdout `┌─` lines, SARIF locations; C19.py run_cli) name different files: %s"
                                         % json.dumps(cl["location_readers_differ"])] if cl and cl.get("location_readers_differ") and not fails else [])})
    return res


def strip_root(x, root):
    return json.loads(json.dumps(x).replace(root, "@"))


def hidden_include_errors(r):
    """(hidden, displayed) include errors, both read from the CLI's SARIF output by the
    oracle (clause b): located P1000 results at statements of named files, and
    unresolved includes of included-only files with no result."""
    d = r["impl"].get("cli_include_errors") if isinstance(r["impl"], dict) else None
    return (d["hidden"], d["displayed"]) if d else (0, 0)


def run(ctx, proofs):
    quick = ctx.tier == "quick"
    base = os.path.join(ctx.work, "run_%d_%d" % (ctx.seed, os.getpid()))
    os.makedirs(base, exist_ok=True)
    try:
        fixed = shapes()
        projs = load_corpus() + fixed
        nrand = 300 if quick else 3000
        projs += [gen_random(ctx.rng) for _ in range(nrand)]
        res = evaluate(ctx, projs, base)
        disagreements, failing = [], []
        keys = set()
        shapes_count = {}
        for r in res:
            keys.add(nontrivial_key(r["proj"], r["norm"], r["impl"]))
            shapes_count[r["proj"].get("shape")] = shapes_count.get(r["proj"].get("shape"), 0) + 1
            if r["model"] != r["norm"]:
                disagreements.append(r)
            if r["fails"]:
                failing.append(r)
        for r in failing[:5]:
            f = r["fails"][0]
            ctx.violation("include handling violates the property (%s): %s" % (f["clause"], f["detail"].replace(r["root"], "@")[:400]),
                          {"input": r["proj"], "impl": strip_root(r["impl"], r["root"]), "spec": strip_root(r["fails"], r["root"]),
                           "cli": strip_root(r["cli"], r["root"])})
        if not failing:
            if disagreements:
                d = disagreements[0]
                ctx.violation("correspondence Model.Includes.run_project vs parser::parse_files broken (%d projects); the property "
                              "text held on every explored project" % len(disagreements),
                              {"broken": "correspondence includes (Model.Includes.run_project)", "count": len(disagreements),
                               "first": {"input": d["proj"], "impl": strip_root(d["norm"], d["root"]),
                                         "model": strip_root(d["model"], d["root"])}}, no_input=True)
            elif proofs["failures"]:
                ctx.violation("proof obligations of C19 no longer check: " + "; ".join(proofs["failures"])[:500],
                              {"broken": "props/C19.v", "failures": proofs["failures"]}, no_input=True)
        # the readers (third audit): a re-worded log line, a moved logger, another
        # SARIF layout are problems of this check's readers, reported as such
        # and by name, whatever the oracle said
        with_problem = [r for r in res if r["reader_problems"]]
        if with_problem:
            kinds = {}
            for r in with_problem:
                for pr in r["reader_problems"]:
                    kinds.setdefault(pr.split(":")[0], []).append(pr)
            for k, v in sorted(kinds.items())[:3]:
                ctx.violation("a reader of the tool's output no longer recognises it on %d projects - %s" % (len(v), v[0].replace(with_problem[0]["root"], "@")[:400]),
                              {"broken": k, "projects": len(v), "first": v[0][:600],
                               "note": "the oracle fell back on the other source where there is one (file library for the files read)"},
                              no_input=True)
        # the premises of the theorems about run_project, evaluated on every project
        not_idem = [r for r in res if r["canon_idempotent"] is not True]
        not_depth = [r for r in res if r["depth_ok"] is not True]
        missed = [r for r in res if r["table_misses"]]
        if not_idem:
            r = not_idem[0]
            ctx.violation("premise canon_idempotent_b of C19_run_project_each_file_once / _fuel_ok is false (or was not evaluated) on %d "
                          "project tables: the theorems say nothing about these runs" % len(not_idem),
                          {"broken": "premise canon_idempotent_b (table built by C19.py abstract)", "projects": len(not_idem),
                           "first": {"input": r["proj"], "model": strip_root(r["model"], r["root"])}}, no_input=True)
        real_not_idem = [r for r in res if (r["impl"].get("not_idempotent") if isinstance(r["impl"], dict) else None)]
        if real_not_idem:
            r = real_not_idem[0]
            ctx.violation("premise `canon` idempotent fails on the real fs::canonicalize: canonicalising a path of the FileLibrary again does "
                          "not return it, on %d projects" % len(real_not_idem),
                          {"broken": "premise canon idempotent (real fs::canonicalize, evaluated by harness includes)", "projects": len(real_not_idem),
                           "first": {"input": r["proj"], "paths": strip_root(r["impl"]["not_idempotent"], r["root"])}}, no_input=True)
        if not_depth:
            r = not_depth[0]
            ctx.violation("premise depth_ok_b (directories below the named paths nest at most 63 deep) of C19_run_project_fuel_ok is "
                          "false (or was not evaluated) on %d projects" % len(not_depth),
                          {"broken": "premise depth_ok_b", "projects": len(not_depth),
                           "first": {"input": r["proj"], "model": strip_root(r["model"], r["root"])}}, no_input=True)
        if missed:
            r = missed[0]
            ctx.violation("the table given to the mirror lacks spellings the mirror looks up on %d projects (a missing spelling reads "
                          "as `does not exist`): %s" % (len(missed), "; ".join(r["table_misses"][:3]).replace(r["root"], "@")[:300]),
                          {"broken": "table completeness (C19.py abstract)", "projects": len(missed),
                           "first": {"input": r["proj"], "misses": strip_root(r["table_misses"][:10], r["root"])}}, no_input=True)
        nread = [len(r["norm"].get("read", [])) for r in res]
        hid = [hidden_include_errors(r) for r in res]
        pk = {}
        for r in res:
            for f in r["proj"]["files"].values():
                k = pragma_kind(f.get("pragma", DEFAULT_PRAGMA))
                pk[k] = pk.get(k, 0) + 1
        def uses_of(r, only_included):
            cw = cwd_of(r["proj"], r["root"])
            named = {absolute(cw, n) for n, u in (r["impl"].get("files") or []) if u}
            readset = {absolute(cw, n) for n, u in (r["impl"].get("files") or [])}
            n = 0
            for rel, f in r["proj"]["files"].items():
                if os.path.join(r["root"], rel) in named and not f.get("bad"):
                    for u in f.get("uses", []):
                        c = os.path.join(r["root"], u)
                        if c in readset and (not only_included or c not in named):
                            n += 1
            return n
        ctx.coverage.update({
            "evaluations": len(res),
            "distinct_nontrivial": len(keys),
            "rule": "a project counts once per (shape, number of files read, number of -L options, number of symlinks, "
                    "multiset of include/OS/parse error kinds, number of user-input files, program/library result, "
                    "started in a subdirectory or not, set of pragma kinds of its files)",
            "exhaustive": False,
            "exhaustive_part": "for each of the %d fixed shapes (chain, diamond, cycle with self-includes, library directory, "
                               "D23 witnesses, library file, symlinks, library order, unresolved; third audit: pragma variants, main "
                               "component named/included/twice, dangling and looping symlinks, directory symlink loop, started in a "
                               "subdirectory) every non-empty subset of its files is named on the command line, subsets of up to %d "
                               "files in every order for the first eleven shapes and pairs in both orders for the others: %d projects"
                               % (len({p.get('shape') for p in fixed}), MAX_PERMUTED, len(fixed)),
            "samples": [strip_root({"input": r["proj"], "impl": r["norm"]}, r["root"]) for r in (disagreements[:1] or res[-2:])],
            "projects_by_shape": shapes_count,
            "files_read_histogram": {str(k): nread.count(k) for k in sorted(set(nread))},
            "projects_with_include_error": sum(1 for r in res if any(x[0] == "inc" for x in r["norm"].get("reports", []))),
            "projects_with_library_resolution": sum(1 for r in res if any("from directory" in a or "from file" in a for a in (r["impl"].get("adds") or []))),
            "projects_with_symlinks": sum(1 for r in res if r["proj"].get("links")),
            "disagreements_model_vs_impl": len(disagreements),
            "spec_failures": len(failing),
            "projects_including_a_directory": sum(1 for r in res if r["proj"].get("shape") == "random" and any(
                os.path.basename(i) in ("src", "sub", "other", "lib1", "lib2", ".", "..") for f in r["proj"]["files"].values() for i in f["incs"])),
            "premises_evaluated": {"projects": len(res),
                                   "canon_idempotent_b_true": sum(1 for r in res if r["canon_idempotent"] is True),
                                   "depth_ok_b_true": sum(1 for r in res if r["depth_ok"] is True),
                                   "tables_without_a_missing_spelling": sum(1 for r in res if not r["table_misses"]),
                                   "rule": "all three are evaluated for every project; a project on which one is false is a "
                                           "VIOLATION (no failing input) naming the premise"},
            "tables_with_idempotent_canon": sum(1 for r in res if r["canon_idempotent"]),
            "canon_idempotent_on_the_real_fs": {
                "library_paths_canonicalised_again": sum(len(r["impl"].get("files") or []) for r in res),
                "not_returned_unchanged": sum(len(r["impl"].get("not_idempotent") or []) for r in res),
                "rule": "harness includes calls fs::canonicalize on every FileLibrary name (each is a canonical path handed to parse_file) "
                        "and compares; canon_idempotent_b above is evaluated on the table built by abstract(), which maps every canonical "
                        "path to itself by construction - it checks the table builder, not the file system"},
            "premise_no_directory_met_twice": {
                "dirs_revisited_false": sum(1 for r in res if r["dirs_revisited"] is False),
                "dirs_revisited_true": sum(1 for r in res if r["dirs_revisited"] is True),
                "not_evaluated": sum(1 for r in res if r["dirs_revisited"] is None),
                "rule": "premise of the theorems that mention `named` (since the mirror follows fix 517e7a0); where it is true (a named "
                        "directory with a link back to itself or a parent) those theorems are silent by design - not a violation - and the "
                        "run is covered by the premise-free theorems, the model comparison and the oracle"},
            "label_less_reports": {
                "displayed_by_the_cli": sum((r["impl"].get("label_less") or {}).get("displayed", 0) for r in res),
                "of_which_about_included_only_files": sum((r["impl"].get("label_less") or {}).get("about_included_only_files", 0) for r in res),
                "rule": "P1000 file not opened, P1003/P1004 pragma, P1002 several mains: no primary label, so not `located solely in an "
                        "included file`; the CLI must display each (oracle clause c, compared by code and message with parse_files' reports)"},
            "front_comparison_reports": front_report_counts(res),
            "files_by_pragma_kind": pk,
            "projects_in_program_mode": sum(1 for r in res if r["impl"].get("kind") == "program"),
            "projects_with_a_main_component": sum(1 for r in res if any(f.get("main") for f in r["proj"]["files"].values())),
            "projects_started_in_a_subdirectory": sum(1 for r in res if r["proj"].get("cwd")),
            "projects_with_dangling_or_looping_symlink": sum(1 for r in res if r["broken_links"]),
            "projects_with_directory_symlink_loop": sum(1 for r in res if any(t == "." for t in r["proj"].get("links", {}).values())),
            "instantiations_of_a_read_file_in_named_files": sum(uses_of(r, False) for r in res),
            "instantiations_of_an_included_only_file_in_named_files": sum(uses_of(r, True) for r in res),
            "files_read_source": {"debug log": sum(1 for r in res if not any("reading file" in x for x in r["reader_problems"])),
                                  "file library (fallback)": sum(1 for r in res if any("reading file" in x for x in r["reader_problems"]))},
            "include_errors_in_named_files(displayed)": sum(h[1] for h in hid),
            "include_errors_in_included_only_files(hidden_by_the_cli_filter)": sum(h[0] for h in hid),
            "reader_problems": sum(len(r["reader_problems"]) for r in res),
            "open_statements": [
                "named directories after fix 517e7a0: that skipping a directory whose canonical path was read before loses no file "
                "(completeness of the user-input set for directories linked back to themselves) is not proved: it needs a coherence "
                "property of the file system (all spellings of a directory list the same entries) that the finite tables cannot state. "
                "Proved without it: every user input is named, every non-directory argument is a user input, and with "
                "dirs_revisited = false everything as before. Checked by the oracle (order-free closure over canonical directories) on "
                "every project, including directories with up to three links back (premise_no_directory_met_twice.dirs_revisited_true)",
                "hard links: two paths of one inode are two canonical paths, i.e. two distinct files for the tool and for this check "
                "(`distinct file` = distinct canonical path); not generated",
                "\"definitions from files that were only included inform the analysis of the named files\": no Coq statement. "
                "Model.Includes abstracts a file to its include list, so the hand-over of definitions (parse_files -> "
                "ProgramArchive::new / TemplateLibrary::new -> AnalysisRunner::template) is not mirrored; the clause is checked by the "
                "oracle on every project (names of the definitions handed to the analysis = definitions of all files read that parse; "
                "CS0018 on a component of an included template exactly when its file was read), see instantiations_of_* above",
                "the pragma check (check_compiler_version) and `component main` are outside the mirror as well: that neither stops the "
                "traversal nor drops definitions is observed (files_by_pragma_kind, projects_in_program_mode), not proved",
            ],
        })
        ctx.assumptions += [
            "the abstract file system of the theorems (canon, is_dir, read_dir, join, parent, file_name) is a Section parameter; "
            "the closed theorems carry the premises `canon` idempotent (a canonical path canonicalises to itself) and finitely "
            "many canonical paths; the real fs::canonicalize, symlink races and permissions are observed, not proved",
            "file contents are abstracted to their include lists (path, byte range) or a parse error; the parser proper is C04/C05/C18's; "
            "pragma, definitions, component instantiations and `component main` are outside the Coq mirror: that a file with an "
            "unsupported or missing pragma is still followed, that the definitions of every file read reach the analysis "
            "(ProgramArchive::new / TemplateLibrary::new) and that an unused output of a component of an included template is "
            "reported exactly when its file was read are checked by the oracle on every project (in process: names of the "
            "definitions handed over; CLI: CS0018 results of the SARIF output by file and line), not proved",
            "directory expansion of named directories is modelled with fuel (nesting depth); directory symlink cycles are left to the OS limit "
            "(40 links; one self-link per directory at most in the generated projects)",
            "the report filter: C19_included_only_report_never_displayed / C19_displayed_findings_come_from_named_files compose "
            "Model.Includes with C03's Model.Runner (filter_by_file, analysis of user definitions only) through "
            "Model.IncludesRunner.file_library_user_inputs, a three-line mirror of FileLibrary::add_file; that Model.Runner is main.rs "
            "is C03's correspondence, that FileLibrary numbers files in call order is read off the source, and the CLI output "
            "(analysing lines, finding locations, every named file reported on) is observed here on every project",
            "what the CLI displays about a file that was only included: reports WITHOUT a primary label about it (file not opened, "
            "pragma missing or unsupported - the latter an error, exit status 1) ARE displayed, as C03 words it (only reports located "
            "solely in included files are hidden); a report LOCATED in it - the include error at its unresolvable include statement, "
            "any finding of an analysis pass - is not. Both directions are oracle clauses on the CLI's SARIF output (b, c) and on stdout",
            "the files read are taken from the `reading file` debug lines and cross-checked with the FileLibrary (one entry per "
            "opened file); there is no hook for file accesses, a changed log line is reported as a reader problem",
            "the tie between the hand mirror of include_logic.rs and the code, and between the tables and the real fs::canonicalize / "
            "symlink resolution, is differential only (every fixed shape with every subset of named files, subsets of up to 4 in every "
            "order; random projects with symlinks, `../` and cycles); nothing about the operating system is proved",
        ]
    finally:
        shutil.rmtree(base, ignore_errors=True)


def replay(ctx, rep):
    proj = rep.get("input")
    if not proj:
        print("replay names a broken obligation, not an input:", rep.get("broken"))
        return 1
    base = os.path.join(ctx.work, "replay_%d" % os.getpid())
    try:
        r = evaluate(ctx, [proj], base, with_model=False)[0]
        print("implementation:", json.dumps(strip_root(r["impl"], r["root"])))
        print("cli           :", json.dumps(strip_root(r["cli"], r["root"])))
        print("oracle        :", json.dumps(strip_root(r["fails"], r["root"])) if r["fails"] else "property holds")
        return 1 if r["fails"] else 0
    finally:
        shutil.rmtree(base, ignore_errors=True)
