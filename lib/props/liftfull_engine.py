"""Engine `liftfull`: the content-carrying lifting mirror Model.LiftFull
(coq/model/LiftFull.v, extracted: coq/extract/liftfull.{v,ml}) against the REAL
`into_cfg` (harness/src/bin/liftfull.rs).

For every generated program the harness parses, desugars and lifts every
definition with the real code and prints (a) the desugared syntax tree of the
definition, its parameters and their location - the input of lifting - and (b)
the result of the real `into_cfg`: the graph before SSA in two forms (the rich
dump with a meta on every node, log strings, tags, block metas, full declaration
records; and the standard `irdump::cfg`), the reports pushed while lifting, or
the error kind, or `panic`.  The extracted mirror lifts (a); the text it prints
must be identical to (b).  Every difference is a correspondence disagreement.
Mode `raw` skips the desugarer, so that tuples / anonymous components /
multi-substitutions reach lifting and the panic sites are compared.

The mirror also evaluates, per definition: LiftFull.definition_wf (hypothesis of
the totality theorem: must hold for every parsed and desugared definition), and
the two equations proved in Proofs.LiftFullProofs (skeleton agreement, statement
provenance) - evaluated as a cross-check of the statements themselves.

Owner: property C13 (stage "content-carrying lifting mirror vs implementation");
C04, C08 and C01 cite the theorems."""
import os
import sys

sys.path.insert(0, os.path.dirname(os.path.abspath(__file__)))
import c18gen  # noqa: E402
import c18rand  # noqa: E402

LIB = os.path.dirname(os.path.dirname(os.path.abspath(__file__)))
if LIB not in sys.path:
    sys.path.insert(0, LIB)
import lifteng  # noqa: E402
import proggen  # noqa: E402


# Shapes the random generators do not (or rarely) draw: signal tags, custom and
# parallel templates, component arrays, both arrow directions, every access form on
# both sides, log strings, shadowing in nested / sibling / loop scopes (the three
# cases of unique_vars.rs), parameters shadowed, parameter collisions, empty
# bodies, control flow at block ends, nested blocks, declarations with dimensions
# that read renamed variables, many versions of one name (two-digit suffixes).
FIXED = [
    ("tags", "template T() { signal input {binary} a; signal output {binary, maxbit} b; signal {t} m; m <== a; b <== m; }"),
    ("custom", "pragma circom 2.1.0; pragma custom_templates; template custom C(n) { signal input a; signal output b; b <-- a * n; }"),
    ("parallel", "template A() { signal input x; signal output y; y <== x; } template parallel P(n) { signal input a; signal output b; "
                 "component c = parallel A(); c.x <== a; b <== c.y; }"),
    ("comp_array", "template A() { signal input x[2]; signal output y; y <== x[0] + x[1]; } template T(n) { signal input a; signal output b[2]; "
                   "component c[2]; for (var i = 0; i < 2; i++) { c[i] = A(); c[i].x[0] <== a; c[i].x[1] <== a * i; b[i] <== c[i].y; } }"),
    ("arrows", "template T() { signal input a; signal output b; signal output c; signal m[2]; a --> m[0]; a * a ==> m[1]; b <-- m[0]; c <== m[1]; "
               "m[0] * m[0] === b; }"),
    ("accesses", "template B() { signal input i[2][2]; signal output o[2]; o[0] <== i[0][0]; o[1] <== i[1][1]; } template T() { signal input a; "
                 "signal output b; component x[2][2]; x[0][1] = B(); x[0][1].i[1][a] <-- a; b <== x[0][1].o[x[0][1].o[0]] + a; }"),
    ("log", "function f(x) { log(\"a b\", x, \"\", x + 1, \"\\u00e9\"); log(); log(x); assert(x > 0); return x ? 1 : (x ? 2 : 3); }"),
    ("shadow_nested", "function f(x) { var y = 1; if (x < y) { var x = 3; y = x; { var x = 4; y += x; } y = x; } return x + y; }"),
    ("shadow_sibling", "function g(m) { var n = 1; if (m < n) { var x = 1; n = x; } else { var x = 2; n = x; } var x = 5; return n + x; }"),
    ("shadow_loop", "function f(n) { var t = 1; var i = 0; while (i < n) { if (i == 2) { var t = i * 2; i = i + t; } t += i; i += 1; } return t; }"),
    ("shadow_dims", "function f(n) { var k = 2; { var k = 3; var a[k][n]; a[k - 1][0] = k; { var k = a[0][0]; var b[k]; } } return k; }"),
    ("shadow_many", "function f() { var s = 0; " + " ".join("{ var v = %d; s += v; }" % i for i in range(13)) + " return s; }"),
    ("shadow_signal", "template T() { signal input a; signal output b; if (a == 0) { var a = 1; b <-- a; } else { b <-- a; } }"),
    ("shadow_param", "function f(x, y) { var x = y; return x; }"),
    ("shadow_for", "function f(n) { var s = 0; for (var i = 0; i < n; i++) { s += i; } for (var i = 0; i < n; i++) { s += i; } return s + n; }"),
    ("param_collision", "function f(x, y, x) { return x; }"),
    ("param_collision_t", "template T(a, a) { signal input i; signal output o; o <== i; }"),
    ("empty_f", "function f() { }"),
    ("empty_t", "template T() { }"),
    ("empty_blocks", "function f(x) { { } { { } } if (x) { } else { } while (x) { } return x; }"),
    ("ctl_at_end", "function f(x) { if (x) { while (x) { if (x) { x -= 1; } } } }"),
    ("ctl_seq", "function f(x) { if (x) { x = 1; } if (x) { x = 2; } else { x = 3; } while (x) { x -= 1; } while (x) { x -= 2; } return x; }"),
    ("ret_mid", "function f(x) { return x; x = 1; if (x) { return 2; } return 3; }"),
    ("decl_list", "function f(x) { var a = 1, b, c = a + x; var d[2] = [a, b]; return a + b + c + d[0]; }"),
    ("decl_tuple", "template T() { signal input a; var (p, q) = (1, a); signal (s, t) <== (a, a * a); signal output o <== s + t + p + q; }"),
    ("sig_decl_list", "template T() { signal input a, b; signal output c <== a * b; signal d <-- a, e <-- b; d === e; }"),
    ("arrays", "function f(x) { var a[2][3] = [[1, 2, 3], [4, 5, x]]; a[1][x] = a[0][a[1][0]]; a[0] = [x, x, x]; return a[1][2] + f2(x, a[0][0]); } "
               "function f2(p, q) { return p * q; }"),
    ("ops", "function f(a, b) { var r = -a + !b - ~a; r = a ** b \\ 3 % 5; r <<= 2; r >>= 1; r &= a; r |= b; r ^= 3; r++; r--; "
            "r = (a <= b) && (a >= b) || (a != b); return r; }"),
    ("nested_ctl", "template T(n) { signal input a; signal output b; var acc = 0; for (var i = 0; i < n; i++) { for (var j = 0; j < i; j++) { "
                   "if (j % 2 == 0) { acc += j; } else { if (i > 2) { acc -= 1; } } } } b <-- acc * a; }"),
    ("anon", "template A() { signal input x; signal output y; y <== x; } template T() { signal input a; signal output b; b <== A()(a); "
             "signal c <== A()(x <== b); }"),
    ("tuple", "template A() { signal input x; signal output y; signal output z; y <== x; z <== x; } template T() { signal input a; signal output b; "
              "signal output c; (b, c) <== A()(a); (_, b) <== A()(a); }"),
    ("main", "template T() { signal input a; signal output b; b <== a; } component main {public [a]} = T();"),
]


def gen_programs(rng, quick):
    """[(label, source)]"""
    out = [("fixed/" + k, s) for k, s in FIXED]
    n_prog, n_targ, n_rand, n_body = (700, 300, 1200, 700) if quick else (6000, 2000, 12000, 6000)
    for i in range(n_prog):
        g = proggen.Gen(rng, curve=rng.choice(["BN254", "GOLDILOCKS"]), max_depth=rng.choice([2, 3, 4]), size=rng.choice([4, 8, 12]))
        out.append(("proggen/%d" % i, g.program()))
    for i in range(n_targ):
        out.append(("targeted/%d" % i, proggen.targeted(rng)))
    for label, src, _mode, _f in c18rand.programs(rng, n_rand):
        out.append(("c18" + label, src))
    for label, src in c18rand.deep():
        out.append(("c18deep/" + label, src))
    for label, src in c18gen.matrix():
        if rng.random() < (0.1 if quick else 1.0):
            out.append(("c18matrix/" + label, src))
    # skeleton shapes of the lift engine: every small body, then random big ones, with the rich (compound assignment) rendering
    bodies = list(lifteng.bodies(5 if quick else 6))
    for i, b in enumerate(bodies):
        out.append(("shape/%d" % i, lifteng.make_case(b, rich=rng.randrange(1 << 30))["src"]))
    for i in range(n_body):
        b = lifteng.rand_body(rng, 60, 12)
        out.append(("randshape/%d" % i, lifteng.make_case(b, rich=rng.randrange(1 << 30))["src"]))
    return out


def split_fields(line):
    """harness line -> [(def sexp, result text)] or a status string"""
    parts = line.split("\t")
    if parts[0] in ("PARSE", "SUGAR", "EMPTY"):
        return " ".join(parts)
    out = []
    for i in range(0, len(parts), 4):
        if parts[i] != "DEF" or parts[i + 2] != "RES":
            return "malformed harness line: " + line[:200]
        out.append((parts[i + 1], parts[i + 3]))
    return out


def first_difference(a, b):
    n = min(len(a), len(b))
    for i in range(n):
        if a[i] != b[i]:
            return i
    return n


def run(common, rng, quick, extra_programs=()):
    """Runs the comparison.  Returns a dict with counts, disagreements, wf
    failures, theorem cross-check failures and samples."""
    hb = common.build_harness("liftfull")
    mb = common.build_model("liftfull")
    programs = list(extra_programs) + gen_programs(rng, quick)
    stats = {"programs": len(programs), "definitions": 0, "ok": 0, "err": 0, "panic": 0, "statuses": {},
             "by_source": {}, "raw_definitions": 0, "raw_panics": 0, "raw_ok": 0, "raw_err": 0,
             "shadow_reports": 0, "ir_statements": 0, "renamed_definitions": 0}
    disagreements, wf_failures, thm_failures, samples = [], [], [], []
    for mode in ("desugared", "raw"):
        if mode == "raw":
            progs = [p for p in programs if p[0].startswith(("c18", "fixed/"))]
        else:
            progs = programs
        lines = [c18gen.escape(s) for _, s in progs]
        impl = common.run_lines(hb, [] if mode == "desugared" else ["raw"], lines, shards=common.NPROC)
        if len(impl) != len(lines):
            raise common.BuildError("liftfull engine: output length mismatch", "%d %d" % (len(impl), len(lines)))
        defs = []   # (label, src, def sexp, impl result)
        for (label, src), line in zip(progs, impl):
            f = split_fields(line)
            if isinstance(f, str):
                k = f.split(" ")[0] + " " + (f.split(" ") + [""])[1]
                stats["statuses"][mode + ":" + k] = stats["statuses"].get(mode + ":" + k, 0) + 1
                if f.startswith("malformed"):
                    disagreements.append({"src": src, "label": label, "mode": mode, "impl": f, "model": "-"})
                continue
            for d, r in f:
                defs.append((label, src, d, r))
        # the mirror is a function of the DEF text: identical definitions (the helper templates every c18
        # program starts with) are lifted once by the mirror; the real result of EVERY occurrence is compared
        uniq = {}
        for _, _, d, _ in defs:
            if d not in uniq:
                uniq[d] = len(uniq)
        ulist = sorted(uniq, key=uniq.get)
        umodel = common.run_lines(mb, [], ulist, shards=common.NPROC)
        if len(umodel) != len(ulist):
            raise common.BuildError("liftfull engine: model output length mismatch", "%d %d" % (len(umodel), len(ulist)))
        stats["distinct_" + mode] = len(ulist)
        counted = set()
        for (label, src, d, r) in defs:
            m = umodel[uniq[d]]
            first = d not in counted
            counted.add(d)
            mp = m.split("\t")
            text = mp[0]
            flags = dict(x.split(" ", 1) for x in mp[1:] if " " in x)
            site = None
            if text.startswith("(panic) site "):
                site = text[len("(panic) site "):]
                text = "(panic)"
            src_kind = label.split("/")[0]
            if mode == "desugared":
                stats["definitions"] += 1
                stats["by_source"][src_kind] = stats["by_source"].get(src_kind, 0) + 1
                kind = "ok" if r.startswith("(ok ") else "err" if r.startswith("(err") else "panic"
                if first:
                    stats[kind] += 1
                if kind == "ok" and first:
                    stats["shadow_reports"] += r.count("(rep CS0001")
                    x_part = r.split(" C (cfg ", 1)[0]
                    stats["ir_statements"] += sum(x_part.count(k) for k in ("(decl (m", "(if (m", "(ret (m", "(subst (m", "(ceq (m",
                                                                            "(log (m", "(assert (m"))
                    if " 30 -)" in x_part or " 31 -)" in x_part:
                        stats["renamed_definitions"] += 1
                # hypothesis of the totality theorem: every parsed + desugared definition is well-formed
                if flags.get("WF") != "1":
                    wf_failures.append({"src": src, "label": label, "def": d[:3000], "impl": r[:300]})
                if kind == "ok" and (flags.get("SK") != "1" or flags.get("PV") != "1"):
                    thm_failures.append({"src": src, "label": label, "def": d[:3000], "flags": flags})
            else:
                stats["raw_definitions"] += 1
                if not first:
                    pass
                elif r == "(panic)":
                    stats["raw_panics"] += 1
                    stats["panic_sites"] = stats.get("panic_sites", {})
                    if site:
                        stats["panic_sites"][site] = stats["panic_sites"].get(site, 0) + 1
                elif r.startswith("(ok "):
                    stats["raw_ok"] += 1
                else:
                    stats["raw_err"] += 1
            if text != r:
                i = first_difference(text, r)
                disagreements.append({"src": src, "label": label, "mode": mode, "def": d[:4000],
                                      "impl": r[max(0, i - 200):i + 300], "model": text[max(0, i - 200):i + 300],
                                      "first_difference_at": i, "model_panic_site": site})
            elif len(samples) < 2 and mode == "desugared" and r.startswith("(ok ") and 600 < len(r) < 2500 and "(if (m" in r:
                samples.append({"src": src, "impl_equals_model": r[:1200]})
    return {"stats": stats, "disagreements": disagreements, "wf_failures": wf_failures, "thm_failures": thm_failures,
            "samples": samples}


def replay_source(common, src):
    """Re-runs one source in both modes; prints the comparison; returns the number of differences."""
    hb = common.build_harness("liftfull")
    mb = common.build_model("liftfull")
    bad = 0
    for mode in ("desugared", "raw"):
        line, = common.run_lines(hb, [] if mode == "desugared" else ["raw"], [c18gen.escape(src)])
        f = split_fields(line)
        if isinstance(f, str):
            print("%s: %s" % (mode, f))
            continue
        for d, r in f:
            m, = common.run_lines(mb, [], [d])
            text = m.split("\t")[0]
            if text.startswith("(panic) site "):
                text = "(panic)"
            same = text == r
            print("%s: %s" % (mode, "equal" if same else "DIFFERENT"))
            if not same:
                i = first_difference(text, r)
                print("  implementation: ..." + r[max(0, i - 150):i + 250])
                print("  mirror        : ..." + text[max(0, i - 150):i + 250])
                bad += 1
    return bad


def flags_for_sources(common, sources):
    """Additive helper (second audit; used by C08 and C04): feeds the given [(label, source text)] through the
    REAL parser + desugarer (harness `liftfull`, mode desugared) and the extracted mirror driver, and returns
    (rows, statuses): rows = [{"label", "src", "def", "impl", "model", "flags"}] - one per definition handed to
    lifting, flags = the tab-separated `KEY value` fields of coq/extract/liftfull.ml (WF, SK, PV, SD, SN, SKD) -
    and statuses = Counter of sources that gave no definition (PARSE error / SUGAR panic / EMPTY / malformed).
    Nothing is dropped silently: every source is either in rows or in statuses."""
    import collections
    hb = common.build_harness("liftfull")
    mb = common.build_model("liftfull")
    lines = [c18gen.escape(s) for _, s in sources]
    impl = common.run_lines(hb, [], lines, shards=common.NPROC) if lines else []
    if len(impl) != len(lines):
        raise common.BuildError("liftfull engine: output length mismatch", "%d %d" % (len(impl), len(lines)))
    statuses = collections.Counter()
    defs = []
    for (label, src), line in zip(sources, impl):
        f = split_fields(line)
        if isinstance(f, str):
            statuses[" ".join(f.split(" ")[:2])] += 1
            continue
        for d, r in f:
            defs.append((label, src, d, r))
    uniq = {}
    for _, _, d, _ in defs:
        uniq.setdefault(d, len(uniq))
    ulist = sorted(uniq, key=uniq.get)
    umodel = common.run_lines(mb, [], ulist, shards=common.NPROC) if ulist else []
    if len(umodel) != len(ulist):
        raise common.BuildError("liftfull engine: model output length mismatch", "%d %d" % (len(umodel), len(ulist)))
    rows = []
    for label, src, d, r in defs:
        m = umodel[uniq[d]]
        mp = m.split("\t")
        rows.append({"label": label, "src": src, "def": d, "impl": r, "model": mp[0],
                     "flags": dict(x.split(" ", 1) for x in mp[1:] if " " in x)})
    return rows, statuses
