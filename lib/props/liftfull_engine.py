"""Engine `liftfull`: the content-carrying lifting mirror Model.LiftFull
(coq/model/LiftFull.v, extracted: coq/extract/liftfull.{v,ml}) against the REAL
`into_cfg` (harness/src/bin/liftfull.rs).

For every generated program the harness parses, desugars and lifts every
definition with the real code and prints (a) the desugared syntax tree of the
definition, its parameters and their location - the input of lifting - and (b)
the result of the real `into_cfg`: the graph before SSA in two forms (the rich
dump with a meta on every node, log strings, tags, block metas, full declaration
records; and the standard `irdump::cfg`), the reports pushed while lifting, or
the error kind, or `panic`.  The extracted mirror lifts (a); the text it prints
must be identical to (b).  Every difference is a correspondence disagreement.
Mode `raw` skips the desugarer, so that tuples / anonymous components /
multi-substitutions reach lifting and the panic sites are compared.

The mirror also evaluates, per definition: LiftFull.definition_wf (hypothesis of
the totality theorem: must hold for every parsed and desugared definition), and
the two equations proved in Proofs.LiftFullProofs (skeleton agreement, statement
provenance) - evaluated as a cross-check of the statements themselves.

Owner: property C13 (stage "content-carrying lifting mirror vs implementation");
C04, C08 and C01 cite the theorems."""
import os
import sys

sys.path.insert(0, os.path.dirname(os.path.abspath(__file__)))
import c18gen  # noqa: E402
import c18rand  # noqa: E402

LIB = os.path.dirname(os.path.dirname(os.path.abspath(__file__)))
if LIB not in sys.path:
    sys.path.insert(0, LIB)
import lifteng  # noqa: E402
import proggen  # noqa: E402


# Shapes the random generators do not (or rarely) draw: signal tags, custom and
# parallel templates, component arrays, both arrow directions, every access form on
# both sides, log strings, shadowing in nested / sibling / loop scopes (the three
# cases of unique_vars.rs), parameters shadowed, parameter collisions, empty
# bodies, control flow at block ends, nested blocks, declarations with dimensions
# that read renamed variables, many versions of one name (two-digit suffixes).
FIXED = [
    ("tags", "template T() { signal input {binary} a; signal output {binary, maxbit} b; signal {t} m; m <== a; b <== m; }"),
    ("custom", "pragma circom 2.1.0; pragma custom_templates; template custom C(n) { signal input a; signal output b; b <-- a * n; }"),
    ("parallel", "template A() { signal input x; signal output y; y <== x; } template parallel P(n) { signal input a; signal output b; "
                 "component c = parallel A(); c.x <== a; b <== c.y; }"),
    ("comp_array", "template A() { signal input x[2]; signal output y; y <== x[0] + x[1]; } template T(n) { signal input a; signal output b[2]; "
                   "component c[2]; for (var i = 0; i < 2; i++) { c[i] = A(); c[i].x[0] <== a; c[i].x[1] <== a * i; b[i] <== c[i].y; } }"),
    ("arrows", "template T() { signal input a; signal output b; signal output c; signal m[2]; a --> m[0]; a * a ==> m[1]; b <-- m[0]; c <== m[1]; "
               "m[0] * m[0] === b; }"),
    ("accesses", "template B() { signal input i[2][2]; signal output o[2]; o[0] <== i[0][0]; o[1] <== i[1][1]; } template T() { signal input a; "
                 "signal output b; component x[2][2]; x[0][1] = B(); x[0][1].i[1][a] <-- a; b <== x[0][1].o[x[0][1].o[0]] + a; }"),
    ("log", "function f(x) { log(\"a b\", x, \"\", x + 1, \"\\u00e9\"); log(); log(x); assert(x > 0); return x ? 1 : (x ? 2 : 3); }"),
    ("shadow_nested", "function f(x) { var y = 1; if (x < y) { var x = 3; y = x; { var x = 4; y += x; } y = x; } return x + y; }"),
    ("shadow_sibling", "function g(m) { var n = 1; if (m < n) { var x = 1; n = x; } else { var x = 2; n = x; } var x = 5; return n + x; }"),
    ("shadow_loop", "function f(n) { var t = 1; var i = 0; while (i < n) { if (i == 2) { var t = i * 2; i = i + t; } t += i; i += 1; } return t; }"),
    ("shadow_dims", "function f(n) { var k = 2; { var k = 3; var a[k][n]; a[k - 1][0] = k; { var k = a[0][0]; var b[k]; } } return k; }"),
    ("shadow_many", "function f() { var s = 0; " + " ".join("{ var v = %d; s += v; }" % i for i in range(13)) + " return s; }"),
    ("shadow_signal", "template T() { signal input a; signal output b; if (a == 0) { var a = 1; b <-- a; } else { b <-- a; } }"),
    ("shadow_param", "function f(x, y) { var x = y; return x; }"),
    ("shadow_for", "function f(n) { var s = 0; for (var i = 0; i < n; i++) { s += i; } for (var i = 0; i < n; i++) { s += i; } return s + n; }"),
    ("param_collision", "function f(x, y, x) { return x; }"),
    ("param_collision_t", "template T(a, a) { signal input i; signal output o; o <== i; }"),
    ("empty_f", "function f() { }"),
    ("empty_t", "template T() { }"),
    ("empty_blocks", "function f(x) { { } { { } } if (x) { } else { } while (x) { } return x; }"),
    ("ctl_at_end", "function f(x) { if (x) { while (x) { if (x) { x -= 1; } } } }"),
    ("ctl_seq", "function f(x) { if (x) { x = 1; } if (x) { x = 2; } else { x = 3; } while (x) { x -= 1; } while (x) { x -= 2; } return x; }"),
    ("ret_mid", "function f(x) { return x; x = 1; if (x) { return 2; } return 3; }"),
    ("decl_list", "function f(x) { var a = 1, b, c = a + x; var d[2] = [a, b]; return a + b + c + d[0]; }"),
    ("decl_tuple", "template T() { signal input a; var (p, q) = (1, a); signal (s, t) <== (a, a * a); signal output o <== s + t + p + q; }"),
    ("sig_decl_list", "template T() { signal input a, b; signal output c <== a * b; signal d <-- a, e <-- b; d === e; }"),
    ("arrays", "function f(x) { var a[2][3] = [[1, 2, 3], [4, 5, x]]; a[1][x] = a[0][a[1][0]]; a[0] = [x, x, x]; return a[1][2] + f2(x, a[0][0]); } "
               "function f2(p, q) { return p * q; }"),
    ("ops", "function f(a, b) { var r = -a + !b - ~a; r = a ** b \\ 3 % 5; r <<= 2; r >>= 1; r &= a; r |= b; r ^= 3; r++; r--; "
            "r = (a <= b) && (a >= b) || (a != b); return r; }"),
    ("nested_ctl", "template T(n) { signal input a; signal output b; var acc = 0; for (var i = 0; i < n; i++) { for (var j = 0; j < i; j++) { "
                   "if (j % 2 == 0) { acc += j; } else { if (i > 2) { acc -= 1; } } } } b <-- acc * a; }"),
    ("anon", "template A() { signal input x; signal output y; y <== x; } template T() { signal input a; signal output b; b <== A()(a); "
             "signal c <== A()(x <== b); }"),
    ("tuple", "template A() { signal input x; signal output y; signal output z; y <== x; z <== x; } template T() { signal input a; signal output b; "
              "signal output c; (b, c) <== A()(a); (_, b) <== A()(a); }"),
    ("main", "template T() { signal input a; signal output b; b <== a; } component main {public [a]} = T();"),
    # third audit (C12): signals and components DECLARED under control flow (in a loop, in both branches of an if, after a
    # branch), so that the block and the loop depth a declaration lands in are looked at
    ("decl_in_loop", "template A() { signal input x; signal output y; y <== x; } template T(n) { signal input a; signal output b; var s = 0; "
                     "for (var i = 0; i < n; i++) { signal t; t <== a * i; component c = A(); c.x <== t; s += c.y; while (s > 3) { signal w; "
                     "w <-- s; s -= 1; } } b <== s; }"),
    ("decl_in_if", "template A() { signal input x; signal output y; y <== x; } template T(n) { signal input a; if (n > 2) { signal u; u <== a; "
                   "component c = A(); c.x <== u; } else { signal v; v <-- a; assert(v == a); } signal output b; b <== a; log(\"b\", b); }"),
    ("decl_after_loop", "template T(n) { signal input a; var i = 0; while (i < n) { i += 1; if (i % 2 == 0) { log(i); } } signal output o; "
                        "component main_c; o <== a * i; a * a === o; }"),
]


def gen_programs(rng, quick):
    """[(label, source)]"""
    out = [("fixed/" + k, s) for k, s in FIXED]
    n_prog, n_targ, n_rand, n_body = (700, 300, 1200, 700) if quick else (6000, 2000, 12000, 6000)
    for i in range(n_prog):
        g = proggen.Gen(rng, curve=rng.choice(["BN254", "GOLDILOCKS"]), max_depth=rng.choice([2, 3, 4]), size=rng.choice([4, 8, 12]))
        out.append(("proggen/%d" % i, g.program()))
    for i in range(n_targ):
        out.append(("targeted/%d" % i, proggen.targeted(rng)))
    for item in c18rand.programs(rng, n_rand):     # (label, source, ...): only the first two fields are used here
        out.append(("c18" + item[0], item[1]))
    for label, src in c18rand.deep():
        out.append(("c18deep/" + label, src))
    for label, src in c18gen.matrix():
        if rng.random() < (0.1 if quick else 1.0):
            out.append(("c18matrix/" + label, src))
    # skeleton shapes of the lift engine: every small body, then random big ones, with the rich (compound assignment) rendering
    bodies = list(lifteng.bodies(5 if quick else 6))
    for i, b in enumerate(bodies):
        out.append(("shape/%d" % i, lifteng.make_case(b, rich=rng.randrange(1 << 30))["src"]))
    for i in range(n_body):
        b = lifteng.rand_body(rng, 60, 12)
        out.append(("randshape/%d" % i, lifteng.make_case(b, rich=rng.randrange(1 << 30))["src"]))
    # fourth audit: the same skeletons as TEMPLATES with template content at the leaves (signal / component declarations,
    # `<==`, `<--`, `===`, assert, log): bare bodies, `else if` chains, nested and empty blocks, an if without else closing
    # a loop body, and loop nests up to 12 deep used to exist in function skeletons only.  The label carries the
    # features of the skeleton (counted, with floors, by c12_stage).
    def tlabel(kind, i, b):
        feats, depth = lifteng.skeleton_features(b)
        return "%s/%d#%s#%d" % (kind, i, ",".join(sorted(feats)), depth)
    for i, b in enumerate(bodies):
        out.append((tlabel("tshape", i, b), lifteng.render_template(b, rng.randrange(1 << 30))))
    for i in range(n_body // 2):
        b = lifteng.rand_body(rng, 60, 12)
        out.append((tlabel("trandshape", i, b), lifteng.render_template(b, rng.randrange(1 << 30))))
    for k in range(1, 13):
        for salt in range(3):
            b = lifteng.deep_nest(k, salt)
            out.append((tlabel("tdeepnest", 3 * k + salt, b), lifteng.render_template(b, rng.randrange(1 << 30))))
    return out


def split_tagged(line):
    """harness line -> [{"DEF": d, "RES": r, "WF": w?, "PRE": .., "POST": ..}] or a status string: a definition is `DEF d`
    followed by tag / value pairs up to the next `DEF`."""
    parts = line.split("\t")
    if parts[0] in ("PARSE", "SUGAR", "EMPTY"):
        return " ".join(parts)
    out = []
    i = 0
    while i < len(parts):
        if parts[i] != "DEF" or i + 3 >= len(parts) or parts[i + 2] != "RES":
            return "malformed harness line: " + line[:200]
        rec = {"DEF": parts[i + 1]}
        i += 2
        while i < len(parts) and parts[i] != "DEF":
            if i + 1 >= len(parts) or parts[i] not in ("RES", "WF", "PRE", "POST"):
                return "malformed harness line: " + line[:200]
            rec[parts[i]] = parts[i + 1]
            i += 2
        out.append(rec)
    return out


def split_records(line):
    """harness line -> [(def sexp, result text, wf text or None)] or a status string.
    A definition is `DEF d RES r` followed, in the modes `desugared` and `raw` (third audit), by `WF w`
    (the C12 view of the same definition: nesting, block lists before and after into_ssa, accessors)."""
    f = split_tagged(line)
    if isinstance(f, str):
        return f
    return [(r["DEF"], r["RES"], r.get("WF")) for r in f]


def split_fields(line):
    """harness line -> [(def sexp, result text)] or a status string (the WF field, if any, is dropped:
    see split_records)."""
    f = split_records(line)
    if isinstance(f, str):
        return f
    return [(d, r) for d, r, _ in f]


def differs_in(model, impl):
    """Which part of `(ok X <rich dump> C <standard dump> R (reports ..))` differs: a difference confined to the rich
    dump is one of expression / block metas, log strings, tags or declaration records - the statements, their metas,
    the blocks and the edges (everything a theorem of C04 / C08 / C12 / C13 reads) are then equal."""
    def parts(t):
        if not (t.startswith("(ok X ") and " C (cfg " in t and " R (reports" in t):
            return None
        x, rest = t[6:].split(" C (cfg ", 1)
        c, rep = rest.rsplit(" R (reports", 1)
        return x, c, rep
    a, b = parts(model), parts(impl)
    if a is None or b is None:
        return "the ok / error / panic decision or the error report"
    out = []
    if a[1] != b[1]:
        out.append("standard dump (statements, blocks, edges, declarations)")
    if a[2] != b[2]:
        out.append("reports pushed while lifting")
    if a[0] != b[0] and not out:
        out.append("rich dump only (metas of expression nodes / blocks, log strings, tags, declaration records): no statement, "
                   "statement meta, block or edge differs")
    elif a[0] != b[0]:
        out.append("rich dump")
    return "; ".join(out)


def first_difference(a, b):
    n = min(len(a), len(b))
    for i in range(n):
        if a[i] != b[i]:
            return i
    return n


def run(common, rng, quick, extra_programs=(), programs=None, walk_bound=None):
    """Runs the comparison.  Returns a dict with counts, disagreements, wf
    failures, theorem cross-check failures and samples."""
    hb = common.build_harness("liftfull")
    mb = common.build_model("liftfull")
    if programs is None:
        programs = list(extra_programs) + gen_programs(rng, quick)
    else:
        programs = list(extra_programs) + list(programs)
    stats = {"programs": len(programs), "definitions": 0, "ok": 0, "err": 0, "panic": 0, "statuses": {},
             "by_source": {}, "raw_definitions": 0, "raw_panics": 0, "raw_ok": 0, "raw_err": 0,
             "shadow_reports": 0, "ir_statements": 0, "renamed_definitions": 0}
    disagreements, wf_failures, thm_failures, samples = [], [], [], []
    c12_bad = []
    shared_meta = {"evaluated": 0, "definitions_with_statements_sharing_a_meta": 0, "not_printed": 0}
    shape = {"evaluated": 0, "desugared_shape": 0, "parser_shaped": 0, "not_printed": 0}
    errors = {"compared_with_name_and_location": 0, "compared_by_kind_only": {}, "kinds": {}}
    walk = {"bound": walk_bound, "definitions": 0, "decision_lists": 0, "ending_in_return": 0, "with_more_than_one_list": 0,
            "not_evaluated": {}}
    walk_failures = []
    views = {}    # DEF text -> C12 view of the real graph (first occurrence)
    for mode in ("desugared", "raw"):
        if mode == "raw":
            progs = [p for p in programs if p[0].startswith(("c18", "fixed/"))]
        else:
            progs = programs
        lines = [c18gen.escape(s) for _, s in progs]
        impl = common.run_lines(hb, [] if mode == "desugared" else ["raw"], lines, shards=common.NPROC)
        if len(impl) != len(lines):
            raise common.BuildError("liftfull engine: output length mismatch", "%d %d" % (len(impl), len(lines)))
        defs = []   # (label, src, def sexp, impl result)
        for (label, src), line in zip(progs, impl):
            f = split_fields(line)
            if not isinstance(f, str) and mode == "desugared":
                # third audit: the C12 clauses on every definition of this stage (filed under C12 by lib/props/C12.py,
                # which runs the same evaluation on its own programs; here they are counted so that C13's evidence says so)
                for d_, r_, w_ in split_records(line):
                    view = c12_view(w_)
                    views.setdefault(d_, view)
                    stats["c12_views"] = stats.get("c12_views", 0) + 1
                    if view is None or split_identity(c12_failures(view))[0]:
                        c12_bad.append({"src": src, "label": label, "wf": (w_ or "")[:600]})
            if isinstance(f, str):
                k = f.split(" ")[0] + " " + (f.split(" ") + [""])[1]
                stats["statuses"][mode + ":" + k] = stats["statuses"].get(mode + ":" + k, 0) + 1
                if f.startswith("malformed"):
                    disagreements.append({"src": src, "label": label, "mode": mode, "impl": f, "model": "-"})
                continue
            for d, r in f:
                defs.append((label, src, d, r))
        # the mirror is a function of the DEF text: identical definitions (the helper templates every c18
        # program starts with) are lifted once by the mirror; the real result of EVERY occurrence is compared
        uniq = {}
        for _, _, d, _ in defs:
            if d not in uniq:
                uniq[d] = len(uniq)
        ulist = sorted(uniq, key=uniq.get)
        margs = ["tt", str(walk_bound)] if (walk_bound and mode == "desugared") else []
        umodel = common.run_lines(mb, margs, ulist, shards=common.NPROC)
        if len(umodel) != len(ulist):
            raise common.BuildError("liftfull engine: model output length mismatch", "%d %d" % (len(umodel), len(ulist)))
        stats["distinct_" + mode] = len(ulist)
        counted = set()
        for (label, src, d, r) in defs:
            m = umodel[uniq[d]]
            first = d not in counted
            counted.add(d)
            mp = m.split("\t")
            text = mp[0]
            flags = dict(x.split(" ", 1) for x in mp[1:] if " " in x)
            site = None
            if text.startswith("(panic) site "):
                site = text[len("(panic) site "):]
                text = "(panic)"
            src_kind = label.split("/")[0]
            if mode == "desugared":
                stats["definitions"] += 1
                stats["by_source"][src_kind] = stats["by_source"].get(src_kind, 0) + 1
                kind = "ok" if r.startswith("(ok ") else "err" if r.startswith("(err") else "panic"
                if first:
                    stats[kind] += 1
                if kind == "ok" and first:
                    stats["shadow_reports"] += r.count("(rep CS0001")
                    x_part = r.split(" C (cfg ", 1)[0]
                    stats["ir_statements"] += sum(x_part.count(k) for k in ("(decl (m", "(if (m", "(ret (m", "(subst (m", "(ceq (m",
                                                                            "(log (m", "(assert (m"))
                    if " 30 -)" in x_part or " 31 -)" in x_part:
                        stats["renamed_definitions"] += 1
                # hypothesis of the totality theorem: every parsed + desugared definition is well-formed
                if flags.get("WF") != "1":
                    wf_failures.append({"src": src, "label": label, "def": d[:3000], "impl": r[:300]})
                if kind == "ok" and (flags.get("SK") != "1" or flags.get("PV") != "1"):
                    thm_failures.append({"src": src, "label": label, "def": d[:3000], "flags": flags})
                if first and walk_bound and kind == "ok":
                    # third audit: the trace / walk oracle of C13 on CONTENT-CARRYING definitions: the structured semantics
                    # of the source skeleton (Spec.CfgSpec.trace_tree, extracted, statements named by their metas) under
                    # every decision list up to the bound must be contained in the walk of the REAL graph
                    why = None
                    view = views.get(d)
                    if "TT" not in flags:
                        why = "the model driver printed no trace tree"
                    elif view is None or view["before"] in ("error", "panic"):
                        why = "no block list of the real graph"
                    else:
                        try:
                            ttree = lifteng.parse_tree(flags["TT"])
                            wtree = walk_tree(lifteng.parse_blocks(view["before"]), walk_bound)
                        except (ValueError, IndexError):
                            why = "unreadable tree / block list"
                    if why:
                        walk["not_evaluated"][why] = walk["not_evaluated"].get(why, 0) + 1
                    else:
                        walk["definitions"] += 1
                        walk["decision_lists"] += len(ttree)
                        walk["ending_in_return"] += sum(1 for t in ttree if t[2] == 'R')
                        walk["with_more_than_one_list"] += len(ttree) > 1
                        bad = lifteng.containment_failures(ttree, wtree)
                        if bad:
                            walk_failures.append({"src": src, "label": label, "def": d[:2000], "bad": bad[:3],
                                                  "impl": view["before"][:2000], "trace_tree": flags["TT"][:1500]})
                if first:
                    # which definitions have statements that share a meta (the by-meta theorems do not order those);
                    # the hypothesis of C12_lift_never_panics (desugared_shape) and the narrower parser_shaped it replaced
                    if flags.get("MD") in ("0", "1"):
                        shared_meta["evaluated"] += 1
                        shared_meta["definitions_with_statements_sharing_a_meta"] += flags["MD"] == "0"
                    else:
                        shared_meta["not_printed"] += 1
                    if flags.get("DS") in ("0", "1") and flags.get("PS") in ("0", "1"):
                        shape["evaluated"] += 1
                        shape["desugared_shape"] += flags["DS"] == "1"
                        shape["parser_shaped"] += flags["PS"] == "1"
                        if flags["DS"] != "1":
                            wf_failures.append({"src": src, "label": label, "def": d[:3000], "impl": r[:300],
                                                "hypothesis": "desugared_shape (C12_lift_never_panics)"})
                    else:
                        shape["not_printed"] += 1
            else:
                stats["raw_definitions"] += 1
                if not first:
                    pass
                elif r == "(panic)":
                    stats["raw_panics"] += 1
                    stats["panic_sites"] = stats.get("panic_sites", {})
                    if site:
                        stats["panic_sites"][site] = stats["panic_sites"].get(site, 0) + 1
                elif r.startswith("(ok "):
                    stats["raw_ok"] += 1
                else:
                    stats["raw_err"] += 1
            if r.startswith("(err "):
                k_err = r[5:].split(" ", 1)[0].rstrip(")")
                if first:
                    errors["kinds"][k_err] = errors["kinds"].get(k_err, 0) + 1
                if text == "(err %s)" % k_err and r.startswith("(err %s (rep " % k_err):
                    # the mirror does not carry name / location of this error kind (invalid-name: unreachable from parsed
                    # sources): compared by kind only - counted, never silently
                    if first:
                        errors["compared_by_kind_only"][k_err] = errors["compared_by_kind_only"].get(k_err, 0) + 1
                    text = r
                elif first and text == r:
                    errors["compared_with_name_and_location"] += 1
            if text != r:
                i = first_difference(text, r)
                disagreements.append({"src": src, "label": label, "mode": mode, "def": d[:4000],
                                      "impl": r[max(0, i - 200):i + 300], "model": text[max(0, i - 200):i + 300],
                                      "first_difference_at": i, "model_panic_site": site,
                                      "differs_in": differs_in(text, r)})
            elif len(samples) < 2 and mode == "desugared" and r.startswith("(ok ") and 600 < len(r) < 2500 and "(if (m" in r:
                samples.append({"src": src, "impl_equals_model": r[:1200]})
    return {"stats": stats, "disagreements": disagreements, "wf_failures": wf_failures, "thm_failures": thm_failures,
            "samples": samples, "c12_bad": c12_bad, "shared_meta": shared_meta, "shape": shape, "errors": errors,
            "walk": walk, "walk_failures": walk_failures}


def walk_blocks(blocks, ds, cap=20000):
    """The walk of the property text on a parsed block list (the rule of harness/src/bin/lift.rs `walk` and of
    Spec.CfgSpec.step): statements in order; at a branch the true edge, on false the recorded false target, else the only
    other successor, else stop; at the end of a block without branch the only successor.  -> (observations, status)
    with status E = stopped, X = a decision was needed and none was left, D = step cap."""
    out = []
    b = k = d = 0
    for _ in range(cap):
        if not (0 <= b < len(blocks)):
            return out, 'E'
        blk = blocks[b]
        its = blk["items"]
        if k < len(its):
            it = its[k]
            if it[0] == 'P':
                k += 1
            elif it[0] == 'L':
                out.append("L" + it[1])
                k += 1
            else:
                _, c, t, f = it
                out.append("C" + c)
                if d >= len(ds):
                    return out, 'X'
                dec = ds[d]
                d += 1
                if dec:
                    b, k = t, 0
                else:
                    if f is None:
                        others = [x for x in blk["succs"] if x != t]
                        f = others[0] if len(others) == 1 else None
                    if f is None:
                        return out, 'E'
                    b, k = f, 0
        else:
            if (its and its[-1][0] == 'C') or len(blk["succs"]) != 1:
                return out, 'E'
            b, k = blk["succs"][0], 0
    return out, 'D'


def walk_tree(blocks, n):
    """[(bits, [events], status)] under every decision list up to length n (as `explore` of lift.rs)."""
    acc = []

    def go(ds, left):
        tr, st = walk_blocks(blocks, ds)
        if st == 'X' and left > 0:
            go(ds + [True], left - 1)
            go(ds + [False], left - 1)
        else:
            acc.append(("".join("1" if x else "0" for x in ds), tr, st))
    go([], n)
    return acc


# --------------------------------------------------------------------------
# third audit: property C12 on the definitions of this engine
# --------------------------------------------------------------------------

def c12_view(wf):
    """'(wf <nest> # <blocks after into_cfg> # <blocks after into_ssa|skipped|error|panic|-> # <api>)' ->
    {"nest": [(id, depth)], "before": text, "after": text, "api": text} or None"""
    if not wf or not (wf.startswith("(wf ") and wf.endswith(")")):
        return None
    parts = wf[4:-1].split(" # ")
    if len(parts) != 4:
        return None
    nest = []
    for tok in parts[0].split():
        ident, _, dep = tok.rpartition(":")
        if not dep.isdigit():
            return None
        nest.append((ident, int(dep)))
    return {"nest": nest, "before": parts[1], "after": parts[2], "api": parts[3]}


def c12_failures(view):
    """The clauses of C12 (lifteng.wellformed_failures; the last clause as the equality of lists of
    C12_loop_depth_is_nesting, statements named by their metas) on the graph after into_cfg and after into_ssa
    (phis first, branch last), plus the accessor check.  `error` / `panic` of into_cfg are no C12 matter here
    (the definition did not lift: C13's stage compares that decision with the mirror); `error` of into_ssa is a
    legitimate answer (a variable read before it is written), `panic` is reported."""
    bad = []
    for which in ("before", "after"):
        text = view[which]
        if text in ("error", "-", "skipped") or (which == "before" and text == "panic"):
            continue
        if text == "panic":
            bad.append("into_ssa panics")
            continue
        try:
            blocks = lifteng.parse_blocks(text)
        except (ValueError, IndexError):
            bad.append("unreadable block list %s" % text[:200])
            continue
        bad += [("into_cfg: " if which == "before" else "into_ssa: ") + b
                for b in lifteng.wellformed_failures(blocks, None, nest=view["nest"])]
    if view["api"] not in ("ok", "-"):
        bad.append("accessors disagree with the block iterator: " + view["api"])
    return bad


def split_identity(bad):
    """(failures of clauses of the property text, failures of the check's own identity clause - statement identity by
    span: every source statement exactly once and in source order)"""
    return [b for b in bad if "IDENTITY: " not in b], [b for b in bad if "IDENTITY: " in b]


WF_CLAUSES = ["index_is_position", "entry_no_pred", "edges_in_range", "preds_succs_mirror", "branch_only_last",
              "branch_targets_ok", "at_most_two_succs", "pred_below (=> all_reachable, dom_implies_le, descending_paths)"]


def c12_decisions(common, pairs):
    """[(irdump before, irdump after or '-')] -> [{"PF","WFB","WFA","SH"} flags] through the extracted decision procedures of
    Model.IrCfgCheck / Model.SsaPre (model driver `liftfull`, mode `c12`)."""
    mb = common.build_model("liftfull")
    out = common.run_lines(mb, ["c12"], [a + "\t" + b for a, b in pairs], shards=4) if pairs else []
    if len(out) != len(pairs):
        raise common.BuildError("liftfull engine (C12 stage): model output length mismatch", "%d %d" % (len(out), len(pairs)))
    return [dict(x.split(" ", 1) for x in line.split("\t") if " " in x) if not line.startswith("(driver-error")
            else {"error": line} for line in out]


def decision_failures(flags, has_after):
    """Violated statements of the round-4 theorems on one REAL (before, after) pair."""
    bad = []
    if "error" in flags:
        return ["the model driver could not read the dump of the real graph: " + flags["error"][:200]]

    def clauses(v):
        w = v.split(" ")
        bits = w[1] if len(w) > 1 else ""
        return [WF_CLAUSES[i] for i, c in enumerate(bits) if c == "0" and i < len(WF_CLAUSES)]
    if flags.get("PF") != "1":
        bad.append("the graph before into_ssa holds a phi expression (SsaPre.phi_free = %s): the hypothesis of "
                   "C12_ssa_blocks_are_phis_then_image / C12_ssa_keeps_wf fails" % flags.get("PF"))
    if not flags.get("WFB", "").startswith("1"):
        bad.append("into_cfg: IrCfgSpec.cfg_wf fails (C12_lifted_graph_wf): %s" % clauses(flags.get("WFB", "")))
    if has_after:
        if not flags.get("WFA", "").startswith("1"):
            bad.append("into_ssa: IrCfgSpec.cfg_wf fails (C12_lifted_ssa_graph_wf / C12_ssa_keeps_wf): %s" % clauses(flags.get("WFA", "")))
        if flags.get("SH") != "1":
            bad.append("into_ssa: IrCfgSpec.ssa_shape_of before after fails (C12_ssa_keeps_blocks_edges_depths / "
                       "C12_ssa_blocks_are_phis_then_image): some block changed its index, loop depth, predecessors or "
                       "successors, or is not `phi assignments ++ the statements of the input block, same kind, one for one`")
    return bad


# floors of the template generator (fourth audit): template definitions with each feature per run
FLOORS = {"bare": 50, "else_if": 20, "nested_block": 50, "empty_block": 20, "if_no_else_ends_loop": 5,
          "loop nesting > 4": 10, "loop nesting > 8": 3}


def c12_stage(common, rng, quick, extra_programs=()):
    """C12 on templates and functions as the production code lifts them: the REAL parser, desugarer,
    `impl TryLift for &TemplateData / &FunctionData` and `into_ssa` on every definition of the programs of
    gen_programs (templates with signal / component declarations, constraints, both arrows, assert, log; functions;
    fourth audit: skeletons rendered as templates - bare bodies, `else if`, nested / empty blocks, loop nests to 12).
    (1) each block list against the clauses of the property (Python oracle on the shapes);
    (2) fourth audit - the tie of the round-4 theorems: the two REAL graphs with their statements (harness mode `c12`)
        through the extracted decisions SsaPre.phi_free (before), IrCfgCheck.cfg_wf_b (before, after),
        IrCfgCheck.ssa_shape_b (before, after).
    -> {"failing": [with the source as input], "identity": [identity-clause-only failures], "stats": ..}"""
    import collections
    hb = common.build_harness("liftfull")
    programs = list(extra_programs) + gen_programs(rng, quick)
    lines = [c18gen.escape(s) for _, s in programs]
    impl = common.run_lines(hb, ["c12"], lines, shards=common.NPROC)
    if len(impl) != len(lines):
        raise common.BuildError("liftfull engine (C12 stage): output length mismatch", "%d %d" % (len(impl), len(lines)))
    stats = collections.Counter()
    kinds = collections.Counter()
    feats = collections.Counter()
    tfeats = collections.Counter()
    by_source = collections.Counter()
    failing, identity, seen = [], [], set()
    todo = []      # (src, label, def, pre, post) for the model
    for (label, src), line in zip(programs, impl):
        f = split_tagged(line)
        if isinstance(f, str):
            stats["sources without a definition (%s)" % " ".join(f.split(" ")[:2])] += 1
            if f.startswith("malformed"):
                failing.append({"input": src, "label": label, "impl": f, "spec": ["the harness line is readable"]})
            continue
        for rec in f:
            d, r, w = rec["DEF"], rec["RES"], rec.get("WF")
            stats["definitions"] += 1
            if d in seen:
                continue
            seen.add(d)
            stats["distinct_definitions"] += 1
            view = c12_view(w)
            if view is None:
                failing.append({"input": src, "label": label, "impl": (w or "no WF field")[:600],
                                "spec": ["the harness prints the C12 view of every definition"]})
                continue
            kinds[d.split(" ", 2)[1]] += 1
            stats["into_cfg: " + (view["before"] if view["before"] in ("error", "panic") else "ok")] += 1
            stats["into_ssa: " + (view["after"] if view["after"] in ("error", "panic", "skipped", "-") else "ok")] += 1
            if view["before"] not in ("error", "panic"):
                by_source[label.split("/")[0]] += 1
                stats["graphs_checked"] += 1 + (view["after"] not in ("error", "panic", "skipped", "-"))
                stats["graphs_with_phis"] += " P" in view["after"] or "[P" in view["after"]
                stats["graphs_with_loops"] += " d1 " in view["before"]
                stats["graphs_with_two_or_more_blocks"] += "; " in view["before"]
                # feature patterns of the syntax-tree dump (harness/src/astdump.rs)
                for feat, pat in (("signal declaration", " (sig "), ("component declaration", " comp "), ("`<==`", " acs "),
                                  ("`<--`", " as "), ("`===`", "(ceq @"), ("assert", "(assert @"), ("log", "(log @")):
                    if pat in d:
                        feats[feat] += 1
                if any(dep > 0 for _, dep in view["nest"]) and (" (sig " in d or " comp " in d):
                    feats["template with a loop"] += 1
                if label.count("#") == 2 and d.startswith("(def template T "):
                    _, fs, depth = label.split("#")
                    tfeats["skeleton templates"] += 1
                    for x in fs.split(","):
                        if x:
                            tfeats[x] += 1
                    tfeats["loop nesting > 4"] += int(depth) > 4
                    tfeats["loop nesting > 8"] += int(depth) > 8
                if "PRE" in rec:
                    todo.append((src, label, d, rec["PRE"], rec.get("POST", "-"), w))
                else:
                    failing.append({"input": src, "label": label, "impl": "no PRE / POST dump",
                                    "spec": ["the harness (mode c12) prints the real graphs with their statements"]})
            bad, ident = split_identity(c12_failures(view))
            if bad:
                failing.append({"input": src, "label": label, "definition": d[:300], "impl": (w or "")[:3000], "spec": bad[:5]})
            elif ident:
                identity.append({"src": src, "label": label, "definition": d[:300], "impl": (w or "")[:1500], "clause": ident[:2]})
    # (2) the round-4 theorems on the real graphs
    dec = c12_decisions(common, [(t[3], t[4]) for t in todo])
    tie = collections.Counter()
    for (src, label, d, pre, post, w), flags in zip(todo, dec):
        has_after = post.strip() != "-"
        tie["pairs_evaluated"] += 1
        tie["with_graph_after_into_ssa"] += has_after
        tie["phi_free_true"] += flags.get("PF") == "1"
        tie["cfg_wf_before_true"] += flags.get("WFB", "").startswith("1")
        tie["cfg_wf_after_true"] += has_after and flags.get("WFA", "").startswith("1")
        tie["ssa_shape_of_true"] += has_after and flags.get("SH") == "1"
        bad = decision_failures(flags, has_after)
        if bad:
            failing.append({"input": src, "label": label, "definition": d[:300], "impl": (w or "")[:3000], "spec": bad[:5],
                            "flags": flags})
    floors = {k: {"seen": tfeats.get(k, 0), "floor": v} for k, v in FLOORS.items()}
    return {"failing": failing, "identity": identity, "stats": dict(stats), "kinds": dict(kinds), "features": dict(feats),
            "by_generator": dict(by_source), "programs": len(programs), "tie": dict(tie),
            "template_skeleton_features": dict(tfeats), "floors": floors,
            "floors_missed": [k for k, v in floors.items() if v["seen"] < (v["floor"] if quick else v["floor"])]}


def c12_replay(common, src):
    """Re-runs one source; prints the violated clauses; returns their number."""
    hb = common.build_harness("liftfull")
    line, = common.run_lines(hb, [], [c18gen.escape(src)])
    f = split_records(line)
    if isinstance(f, str):
        print("harness:", f)
        return 1
    n = 0
    for d, r, w in f:
        view = c12_view(w)
        print("definition    :", d[:160])
        print("implementation:", (w or "-")[:2000])
        bad = ["no C12 view printed"] if view is None else split_identity(c12_failures(view))[0]
        for b in bad[:8]:
            print("violated      :", b)
        n += len(bad)
    line, = common.run_lines(hb, ["c12"], [c18gen.escape(src)])
    f = split_tagged(line)
    if not isinstance(f, str):
        recs = [r for r in f if "PRE" in r]
        for rec, flags in zip(recs, c12_decisions(common, [(r["PRE"], r.get("POST", "-")) for r in recs])):
            print("decisions     :", flags)
            bad = decision_failures(flags, rec.get("POST", "-").strip() != "-")
            for b in bad:
                print("violated      :", b)
            n += len(bad)
    return n


def replay_source(common, src):
    """Re-runs one source in both modes; prints the comparison; returns the number of differences."""
    hb = common.build_harness("liftfull")
    mb = common.build_model("liftfull")
    bad = 0
    for mode in ("desugared", "raw"):
        line, = common.run_lines(hb, [] if mode == "desugared" else ["raw"], [c18gen.escape(src)])
        f = split_fields(line)
        if isinstance(f, str):
            print("%s: %s" % (mode, f))
            continue
        for d, r in f:
            m, = common.run_lines(mb, [], [d])
            text = m.split("\t")[0]
            if text.startswith("(panic) site "):
                text = "(panic)"
            if text == "(err invalid-name)" and r.startswith("(err invalid-name"):
                text = r     # kind only (see run)
            same = text == r
            print("%s: %s" % (mode, "equal" if same else "DIFFERENT"))
            if not same:
                i = first_difference(text, r)
                print("  implementation: ..." + r[max(0, i - 150):i + 250])
                print("  mirror        : ..." + text[max(0, i - 150):i + 250])
                bad += 1
    return bad


def replay_walk(common, src, bound):
    """Re-runs the trace / walk oracle on one source; prints the failures; returns their number."""
    hb = common.build_harness("liftfull")
    mb = common.build_model("liftfull")
    line, = common.run_lines(hb, [], [c18gen.escape(src)])
    f = split_records(line)
    if isinstance(f, str):
        print("harness:", f)
        return 0
    n = 0
    for d, r, w in f:
        if not r.startswith("(ok "):
            continue
        m, = common.run_lines(mb, ["tt", str(bound)], [d])
        flags = dict(x.split(" ", 1) for x in m.split("\t")[1:] if " " in x)
        view = c12_view(w)
        if "TT" not in flags or view is None:
            print("oracle not evaluated on", d[:120])
            n += 1
            continue
        bad = lifteng.containment_failures(lifteng.parse_tree(flags["TT"]),
                                           walk_tree(lifteng.parse_blocks(view["before"]), bound))
        for b in bad[:5]:
            print("violated      :", b)
        n += len(bad)
    return n


def flags_for_sources(common, sources):
    """Additive helper (second audit; used by C08 and C04): feeds the given [(label, source text)] through the
    REAL parser + desugarer (harness `liftfull`, mode desugared) and the extracted mirror driver, and returns
    (rows, statuses): rows = [{"label", "src", "def", "impl", "model", "flags"}] - one per definition handed to
    lifting, flags = the tab-separated `KEY value` fields of coq/extract/liftfull.ml (WF, SK, PV, SD, SN, SKD) -
    and statuses = Counter of sources that gave no definition (PARSE error / SUGAR panic / EMPTY / malformed).
    Nothing is dropped silently: every source is either in rows or in statuses."""
    import collections
    hb = common.build_harness("liftfull")
    mb = common.build_model("liftfull")
    lines = [c18gen.escape(s) for _, s in sources]
    impl = common.run_lines(hb, [], lines, shards=common.NPROC) if lines else []
    if len(impl) != len(lines):
        raise common.BuildError("liftfull engine: output length mismatch", "%d %d" % (len(impl), len(lines)))
    statuses = collections.Counter()
    defs = []
    for (label, src), line in zip(sources, impl):
        f = split_fields(line)
        if isinstance(f, str):
            statuses[" ".join(f.split(" ")[:2])] += 1
            continue
        for d, r in f:
            defs.append((label, src, d, r))
    uniq = {}
    for _, _, d, _ in defs:
        uniq.setdefault(d, len(uniq))
    ulist = sorted(uniq, key=uniq.get)
    umodel = common.run_lines(mb, [], ulist, shards=common.NPROC) if ulist else []
    if len(umodel) != len(ulist):
        raise common.BuildError("liftfull engine: model output length mismatch", "%d %d" % (len(umodel), len(ulist)))
    rows = []
    for label, src, d, r in defs:
        m = umodel[uniq[d]]
        mp = m.split("\t")
        rows.append({"label": label, "src": src, "def": d, "impl": r, "model": mp[0],
                     "flags": dict(x.split(" ", 1) for x in mp[1:] if " " in x)})
    return rows, statuses


# --------------------------------------------------------------------------
# third audit: for the properties that CITE theorems about Model.LiftFull (C04, C08)
# --------------------------------------------------------------------------

def require_tie(common, ctx, prop, extra_sources=()):
    """The theorems <prop>_liftfull_* speak about Model.LiftFull; the tie of that model to the real `into_cfg` used to
    be run by `./check C13` only, so <prop>'s evidence could be green while the tie was broken.  This helper RUNS a
    reduced tie inside <prop>'s own check: the fixed shapes, corpus/C13/liftfull-*.circom, `extra_sources`
    ([(label, source)]: the caller's own programs, e.g. the definitions its generator produced) and a seeded sample of
    the generated programs, both modes, text-equal dumps + error reports, as C13's stage.  Every disagreement is
    reported through ctx.violation WITH the source as failing input (replay: `liftfull_src`; call
    liftfull_engine.replay_tie from the property's replay()).  A tie that compared nothing is a violation too.
    Returns a dict for the caller's coverage (put it under coverage["liftfull_tie"])."""
    import random
    seed = int(os.environ.get("VERIF_SEED", "1") or 1)
    rng = random.Random(seed * 7919 + 13)
    sample = [p for p in gen_programs(rng, True) if not p[0].startswith("fixed/")]
    rng.shuffle(sample)
    corpus = []
    cdir = os.path.join(common.VERIF, "corpus", "C13")
    if os.path.isdir(cdir):
        for f in sorted(os.listdir(cdir)):
            if f.startswith("liftfull-") and f.endswith(".circom"):
                corpus.append(("corpus/" + f, open(os.path.join(cdir, f)).read()))
    programs = [("fixed/" + k, v) for k, v in FIXED] + corpus + [("caller/" + str(a), b) for a, b in extra_sources] + sample[:400]
    res = run(common, rng, True, programs=programs)
    for d in res["disagreements"][:3]:
        ctx.violation("stage liftfull (run inside the check of %s, which cites theorems about Model.LiftFull): the mirror and the "
                      "real into_cfg disagree on this source (%d definitions in all; %s mode, label %s)"
                      % (prop, len(res["disagreements"]), d["mode"], d["label"]),
                      {"input": d["src"], "liftfull_src": d["src"], "impl": d.get("impl"),
                       "spec": "Model.LiftFull.try_lift_impl (extracted) answers: %s" % (d.get("model"),),
                       "broken": "correspondence liftfull (Model.LiftFull vs into_cfg)", "first": d})
    for d in (res["wf_failures"] + res["thm_failures"])[:2]:
        ctx.violation("stage liftfull (run inside the check of %s): a hypothesis / proved equation of the lifting mirror evaluates "
                      "to false on this source: %s" % (prop, d.get("hypothesis") or d.get("flags")),
                      {"input": d["src"], "liftfull_src": d["src"], "impl": str(d.get("impl") or d.get("flags"))[:500],
                       "spec": "definition_wf, desugared_shape, SK and PV hold on every parsed and desugared definition",
                       "broken": "hypotheses / equations of Model.LiftFull", "first": d})
    compared = res["stats"]["definitions"] + res["stats"]["raw_definitions"]
    if compared == 0:
        ctx.violation("stage liftfull (run inside the check of %s) compared no definition" % prop,
                      {"broken": "coverage: liftfull tie", "stats": res["stats"]}, no_input=True)
    return {"what": "reduced run of C13's stage `content-carrying lifting mirror vs implementation` inside this check "
                    "(fixed shapes, corpus, the caller's sources, a seeded sample of the generated programs; both modes)",
            "programs": res["stats"]["programs"], "definitions_compared": compared,
            "distinct_definitions": res["stats"].get("distinct_desugared", 0) + res["stats"].get("distinct_raw", 0),
            "caller_sources": len(extra_sources), "disagreements": len(res["disagreements"]),
            "hypothesis_or_equation_failures": len(res["wf_failures"]) + len(res["thm_failures"]),
            "error_reports": res["errors"], "not_lifted": res["stats"]["statuses"]}


def replay_tie(common, rep):
    """replay() of a violation reported by require_tie: 1 if mirror and implementation still differ on the source."""
    print("source:", rep["liftfull_src"])
    return 1 if replay_source(common, rep["liftfull_src"]) else 0
