"""C09 — `value never read` / `no side effect` claims about variables are true.

Engine `taint`:
 (1) correspondence: for generated definitions (and the corpus) the real
     run_taint_analysis / run_constraint_analysis / run_side_effect_analysis
     (harness/src/bin/taint.rs) against the extracted Gallina mirror
     (Model.VarUse, Model.Taint, Model.SideEffect): single-step taint map, its
     closure, the constraint map and its closure, constrained variables,
     definitions, declarations, sink set and the CS0006/CS0007/CS0008/CA01
     findings, all canonicalised (sorted);
 (2) oracle for the property itself: every claim of the implementation about a
     local or a parameter is tested with the reference interpreter (lib/c09sem.py,
     runs the *source* program): >= 32 valuations x >= 8 replacement values of the
     flagged assignment / parameter, comparing the effects the property lists;
 (3) hypotheses of the location theorems: the verified SSA validator SsaCheck.ssa_check (certificate:
     the implementation's immediate dominators) and nodup_v (all_defs g), evaluated by the model
     driver on every dumped graph;
 (4) the real sink set (a local variable of the pass; the harness prints a transcription):
     sink_consistency (real CS0008 reports vs printed set), the sink probes of lib/c09probe.py
     (each sink kind in isolation; controls);
 (5) branch regions (third audit): the mirror Model.BranchRegion computes get_true_branch / get_false_branch itself and is
     compared with the real regions; the decidable control-dependence closure Spec.CtlDep.ctl_closed_b (hypothesis of
     C09_noninterference_with_implicit_flows) is evaluated on every dumped graph, on the mirror's AND on the real set of names
     tainted by an input/output signal: a region computed too small is reported with the definition as failing input."""
import concurrent.futures
import json
import os
import random

import common
import sexp
import c09gen
import c09sem
import c09probe

import re
GENERATED_NAME = re.compile(r"^anon_var_\d+_\d+$")
VARIABLE_KINDS = ("unusedvar", "unusedparam", "varnse", "paramnse")
SECTIONS = ("branches", "universe", "taint", "closure", "cons", "ccl", "constrained", "defs", "decls", "sinks", "bset", "findings")
CORPUS = os.path.join(common.VERIF, "corpus", "C09")
MODEL_MODE = os.environ.get("C09_MODEL_MODE", "new")     # "old": the mirror of the code before the sink repair


# --------------------------------------------------------------------------
# canonicalisation / parsing of engine output
# --------------------------------------------------------------------------

def canon_result(res):
    """(result (section item*)*) -> {section: sorted list of strings}; rows of the tables have
    their values sorted."""
    out = {}
    for sec in res[1:]:
        name, items = sec[0], sec[1:]
        if name in ("taint", "closure", "cons", "ccl"):
            rows = []
            for row in items:
                rows.append(sexp.show(row[0]) + " -> " + " ".join(sorted(sexp.show(v) for v in row[1:])))
            out[name] = sorted(rows)
        else:
            out[name] = sorted(sexp.show(i) for i in items)
    return out


def vname_str(v):
    s = sexp.unhex(v[1])
    if v[2] != "-":
        s += "~" + sexp.unhex(v[2])
    if v[3] != "-":
        s += "." + v[3]
    return s


def all_vnames(x, acc):
    if isinstance(x, list):
        if len(x) == 4 and x[0] == "v":
            acc.add((x[1], x[2]))
        else:
            for y in x:
                all_vnames(y, acc)


def kf_ssa_key_collision(cfg_sx):
    """Known-finding class C09-ssa-key-collision (D20): two distinct (name, suffix) pairs of the
    definition print to the same `name_suffix` string, the key of the SSA version maps."""
    acc = set()
    all_vnames(cfg_sx, acc)
    seen = {}
    for n, s in acc:
        key = sexp.unhex(n) + ("_" + sexp.unhex(s) if s != "-" else "")
        if key in seen and seen[key] != (n, s):
            return True
        seen[key] = (n, s)
    return False


def declared_types(cfg_sx):
    """displayed name -> declared type (`local`, `sigin`, `sigout`, `sigint`, `component`, ..) of the dumped cfg; a name
    declared with several types (shadowing) is `local` if any of them is."""
    out = {}
    for sec in cfg_sx[1:]:
        if isinstance(sec, list) and sec and sec[0] == "decls":
            for d in sec[1:]:
                n, t = sexp.unhex(d[0][1]), d[1]
                out[n] = "local" if (t == "local" or out.get(n) == "local") else t
    return out


def findings_of(res_sx):
    for sec in res_sx[1:]:
        if sec[0] == "findings":
            return [(f[0], f[1], sexp.unhex(f[2]), f[3], f[4]) for f in sec[1:]]
    return []


SINK_CODE_FILE = "program_analysis/src/side_effect_analysis.rs"
SINK_CODE_FROM = "let signal_decls = cfg"
SINK_CODE_TO = "let mut reports = ReportCollection::new();"
# sha256 of the sink computation of run_side_effect_analysis (comments and white space removed) at the
# commit whose statements harness/src/bin/taint.rs transcribes (side_effect_analysis.rs:254-339)
SINK_CODE_SHA256 = "0212c9766e4020a6c6cd9e99a7f434e6b90fa7b9038a53f4ae9ac47dd7fe74cf"


def sink_code_digest():
    """The text of the real sink computation (the part of run_side_effect_analysis between the two
    marker statements), comments and white space removed, hashed. The sink set is a local variable of
    the real pass; the harness transcribes these statements. Any change of them makes the transcription
    stale, whether or not a generated program shows a difference."""
    import hashlib
    import re
    try:
        text = open(os.path.join(common.REPO, SINK_CODE_FILE)).read()
        a = text.index(SINK_CODE_FROM, text.index("pub fn run_side_effect_analysis"))
        b = text.index(SINK_CODE_TO, a)
    except (OSError, ValueError) as e:
        return "unreadable: %s" % e
    code = re.sub(r"//[^\n]*", "", text[a:b])
    return hashlib.sha256(re.sub(r"\s+", "", code).encode()).hexdigest()


def sink_consistency(res_sx):
    """The sink set printed by the harness is a transcription (side_effect_analysis.rs keeps its own in a
    local variable). This ties it to the REAL reports on the implementation side alone, without the model:
    for every definition D that the real pass could report,
        real pass reports `no side effect` for D   <=>   multi_step_taint(D) misses the transcribed sink set
    (a definition reported as never read, or named `_`, is exempt). Returns the inconsistent definitions."""
    secs = dict((sec[0], sec[1:]) for sec in res_sx[1:])
    sinks = set(sexp.show(v) for v in secs.get("sinks", []))
    closure = dict((sexp.show(row[0]), set(sexp.show(v) for v in row[1:])) for row in secs.get("closure", []))
    kinds = {}
    for f in secs.get("findings", []):
        if f[1] in VARIABLE_KINDS:
            kinds.setdefault((sexp.unhex(f[2]), f[3], f[4]), set()).add(f[1])
    groups = {}
    for d in secs.get("defs", []):
        groups.setdefault((sexp.unhex(d[0][1]), d[1], d[2]), []).append(sexp.show(d[0]))
    bad = []
    for key, vs in groups.items():
        if len(vs) != 1 or key[0] == "_":
            continue            # two definitions printed alike at one location: not attributable
        ks = kinds.get(key, set())
        if ks & {"unusedvar", "unusedparam"}:
            continue
        reaches = bool(closure.get(vs[0], set()) & sinks)
        claimed = bool(ks & {"varnse", "paramnse"})
        if claimed == reaches:
            bad.append({"definition": vs[0], "at": key[1:], "real_pass_claims_no_side_effect": claimed,
                        "reaches_transcribed_sink_set": reaches})
    return bad


# --------------------------------------------------------------------------
# oracle (runs in worker processes)
# --------------------------------------------------------------------------

def oracle_one(args):
    """args = (prog, findings, seed, nval, nrep) -> (list of (finding, verdict dict | None | 'unmapped' | 'signal'), runs)."""
    prog, findings, seed, nval, nrep, types = args
    c09gen.render(prog)          # (re)computes spans and ids
    out = []
    claims, owners = [], []
    for f in findings:
        code, kind, name, s, e = f
        if kind not in VARIABLE_KINDS:
            continue
        if kind in ("unusedvar", "varnse") and types.get(name, "local") != "local":
            # the flagged name is declared as a signal or a (possibly anonymous) component of the graph:
            # outside the property, which speaks of locals and parameters
            out.append((f, "signal" if types[name].startswith("sig") else "component"))
            continue
        if kind in ("unusedparam", "paramnse"):
            if name not in prog["params"]:
                out.append((f, "unmapped"))
                continue
            claims.append(lambda v, name=name: ("param", name, v))
            owners.append(f)
        else:
            sts = c09sem.find_assignments(prog, name, int(s), int(e)) if s != "-" else []
            if not sts and GENERATED_NAME.match(name):
                # a local introduced by the desugarer (the counter of an anonymous component in a loop): not a name of
                # the source program, so the source-level oracle cannot perturb it. Counted as `(generated) <kind>`;
                # such claims are covered by the correspondence and the SSA-level theorems only.
                out.append((f, "generated"))
                continue
            if not sts:
                if s != "-" and c09sem.find_signal_assignments(prog, name, int(s), int(e)):
                    out.append((f, "signal"))      # a claim about a signal: outside the property
                else:
                    out.append((f, "unmapped"))
                continue
            for st in sts:
                if st[0] == "tupledecl":       # one span, several names: perturb the flagged name only
                    claims.append(lambda v, st=st, name=name: ("stmt", (st[-1]["id"], name), v))
                else:
                    claims.append(lambda v, st=st: ("stmt", st[-1]["id"], v))
                owners.append(f)
    verdicts, runs = c09sem.check_program(prog, claims, random.Random(seed), nval, nrep)
    done = {}
    for f, v in zip(owners, verdicts):
        if f not in done or (v and not done[f]):
            done[f] = v
    for f in owners:
        if f in done:
            out.append((f, done.pop(f)))
    return out, runs


# --------------------------------------------------------------------------
# case generation
# --------------------------------------------------------------------------

def targeted(rng):
    """Hand-shaped programs for the weak spots found while reading the code."""
    k = rng.randrange(12)
    lit = lambda: rng.choice([0, 1, 2, 3, 5])
    S = c09gen.S
    if k >= 10:     # a counter that reaches the effects only through a NON-LAST index of the target
        sigk = k == 10
        tgt = "out0" if sigk else "t"
        pos = rng.randrange(2)          # which index position carries the counter
        idx = [("var", "row"), ("var", "k")] if pos == 0 else [("var", "k"), ("var", "row")]
        inner = S("sigassign", "out0", idx, rng.choice(["<==", "<--"]), ("idx", "in0", [("var", "i"), ("var", "k")])) if sigk \
            else S("assign", "t", idx, "=", ("idx", "in0", [("var", "i"), ("var", "k")]))
        body = [S("sigdecl", "input", "in0", [("num", 2), ("num", 2)]), S("sigdecl", "output", "out0", [("num", 2), ("num", 2)]),
                S("decl", "row", [], ("num", 0))]
        if not sigk:
            body += [S("decl", "t", [("num", 2), ("num", 2)], None), S("assign", "t", [("num", 0), ("num", 0)], "=", ("num", 0))]
        body += [S("for", S("decl", "i", [], ("num", 0)), ("bin", "<", ("var", "i"), ("var", "n")), S("incr", "i", "++"),
                   [S("for", S("decl", "k", [], ("num", 0)), ("bin", "<", ("var", "k"), ("var", "m")), S("incr", "k", "++"), [inner]),
                    S("assign", "row", [], "=", ("bin", "+", ("var", "row"), ("num", 1)))])]
        if not sigk:
            body.append(S("sigassign", "out0", [("num", 1), ("num", rng.randrange(2))], "<--",
                          ("idx", "t", [("num", 1), ("num", rng.randrange(2))])))
        return {"kind": "template", "name": "T", "params": ["n", "m"], "body": body, "sig_in": [("in0", (2, 2))],
                "features": ["t-multi-index"]}
    sig = [S("sigdecl", "input", "in0", []), S("sigdecl", "output", "out0", [])]
    if k == 0:      # a constraint with a single name tainted by an input
        body = sig + [S("decl", "x", [], ("bin", "+", ("var", "in0"), ("num", lit()))), S("ceq", ("var", "x"), ("num", lit())),
                      S("sigassign", "out0", [], "<--", ("var", "in0"))]
        return {"kind": "template", "name": "T", "params": [], "body": body, "sig_in": [("in0", None)], "features": ["t-single-name"]}
    if k == 1:      # shadowing next to a literal x_0 (D20)
        body = sig + [S("decl", "x", [], ("num", lit())), S("decl", "x_0", [], ("num", 2)),
                      S("block", [S("decl", "x", [], ("num", 3)), S("assign", "x_0", [], "=", ("bin", "+", ("var", "x"), ("var", "x_0")))]),
                      S("sigassign", "out0", [], "<--", ("bin", "+", ("var", "x_0"), ("var", "x")))]
        return {"kind": "template", "name": "T", "params": [], "body": body, "sig_in": [("in0", None)], "features": ["t-d20"]}
    if k == 2:      # dead store, then live store
        body = sig + [S("decl", "a", [], ("num", lit())), S("assign", "a", [], "=", ("bin", "*", ("var", "in0"), ("num", 2))),
                      S("sigassign", "out0", [], "<==", ("var", "a"))]
        return {"kind": "template", "name": "T", "params": ["n"], "body": body, "sig_in": [("in0", None)], "features": ["t-dead-store"]}
    if k == 3:      # value only used in other dead variables; parameter unused
        body = [S("decl", "d1", [], ("var", "p")), S("decl", "d2", [], ("bin", "+", ("var", "d1"), ("num", 1))),
                S("decl", "d3", [], ("bin", "*", ("var", "d2"), ("var", "d2"))), S("log", ("var", "d3")),
                S("return", ("var", "q"))]
        return {"kind": "function", "name": "f", "params": ["p", "q", "r"], "body": body, "sig_in": [], "features": ["t-dead-chain"]}
    if k == 4:      # flows only through a branch decision
        body = [S("decl", "c", [], ("bin", "+", ("var", "p"), ("num", lit()))), S("decl", "r", [], ("num", 0)),
                S("if", ("bin", "==", ("var", "c"), ("num", lit())), [S("assign", "r", [], "=", ("num", 1))], None),
                S("return", ("var", "r"))]
        return {"kind": "function", "name": "f", "params": ["p"], "body": body, "sig_in": [], "features": ["t-branch-flow"]}
    if k == 5:      # flows only through an array index / a dimension
        body = sig + [S("decl", "i", [], ("num", rng.randrange(2))), S("decl", "t", [("num", 2)], ("arr", [("var", "in0"), ("num", 7)])),
                      S("decl", "m", [], ("num", 2)), S("decl", "u", [("var", "m")], None),
                      S("sigassign", "out0", [], "<--", ("idx", "t", [("var", "i")]))]
        return {"kind": "template", "name": "T", "params": [], "body": body, "sig_in": [("in0", None)], "features": ["t-index-dim"]}
    if k == 6:      # loop-carried value that only feeds itself vs. one that reaches the output
        body = sig + [S("decl", "e", [], ("num", 1)), S("decl", "acc", [], ("num", 0)),
                      S("for", S("decl", "k", [], ("num", 0)), ("bin", "<", ("var", "k"), ("var", "n")), S("incr", "k", "++"),
                        [S("assign", "acc", [], "+=", ("var", "in0")), S("assign", "e", [], "=", ("bin", "+", ("var", "e"), ("var", "e")))]),
                      S("sigassign", "out0", [], "<--", ("var", "acc"))]
        return {"kind": "template", "name": "T", "params": ["n"], "body": body, "sig_in": [("in0", None)], "features": ["t-loop"]}
    if k == 7:      # constraint partner of a name tainted by an output
        body = sig + [S("decl", "l", [], ("bin", "*", ("var", "in0"), ("var", "in0"))), S("decl", "z", [], ("num", lit())),
                      S("decl", "w", [], ("num", lit())), S("ceq", ("var", "l"), ("var", "z")),
                      S("sigassign", "out0", [], "<--", ("num", 1))]
        return {"kind": "template", "name": "T", "params": [], "body": body, "sig_in": [("in0", None)], "features": ["t-constraint-partner"]}
    if k == 8:      # assert / return inside a branch
        body = [S("decl", "a", [], ("bin", "+", ("var", "p"), ("num", 1))), S("decl", "b", [], ("num", lit())),
                S("assert", ("bin", "<", ("var", "a"), ("num", 3))),
                S("if", ("bin", "==", ("var", "q"), ("num", 0)), [S("return", ("var", "b"))], None), S("return", ("num", 0))]
        return {"kind": "function", "name": "f", "params": ["p", "q"], "body": body, "sig_in": [], "features": ["t-assert-return"]}
    # array element written, other element read
    body = sig + [S("decl", "t", [("num", 2)], ("arr", [("num", 0), ("num", 0)])), S("assign", "t", [("num", 0)], "=", ("var", "in0")),
                  S("assign", "t", [("num", 1)], "=", ("num", lit())), S("sigassign", "out0", [], "<--", ("idx", "t", [("num", rng.randrange(2))]))]
    return {"kind": "template", "name": "T", "params": [], "body": body, "sig_in": [("in0", None)], "features": ["t-array"]}


def load_corpus():
    out = []
    if os.path.isdir(CORPUS):
        for f in sorted(os.listdir(CORPUS)):
            if f.endswith(".json"):
                rec = json.load(open(os.path.join(CORPUS, f)))
                prog = rec["prog"]
                prog["sig_in"] = [tuple(x) for x in prog["sig_in"]]
                prog["source"] = c09gen.render(prog)
                prog["corpus"] = f
                prog["expect_absent"] = rec.get("expect_absent", [])
                prog["expect_present"] = rec.get("expect_present", [])
                prog.setdefault("features", []).append("corpus")
                out.append(prog)
    return out


def load_probes():
    """Sink probes (lib/c09probe.py): deterministic, every sink kind x value kind x depth x context."""
    out = []
    for prog in c09probe.probes():
        prog["source"] = c09gen.render(prog)
        prog["alphabet"] = "probe"
        out.append(prog)
    return out


def make_cases(ctx, n, fixed=True):
    """`fixed`: the regression corpus and the sink probes come first (first batch only)."""
    progs = (load_corpus() + load_probes()) if fixed else []
    size_probes = []
    if fixed:
        # size probes (fourth audit): every required shape / size at least once per run, drawn with the run's seed. The two
        # graphs of more than 100 blocks (a branch region more than 36 reachability rounds deep) are spread over the list
        # (they cost the Gallina mirrors 20-40 s each and should land in different shards)
        for shape in ("long-chain", "long-chain", "loop-nesting-3", "merged-const-condition", "merged-const-condition",
                      "const-loop-cond", "while-true", "trailing-loop-with-control"):
            q = c09gen.forced(ctx.rng, shape)
            q["alphabet"] = "size-probe"
            progs.append(q)
        for _ in range(1):
            q = c09gen.forced(ctx.rng, "deep-region")
            q["alphabet"] = "size-probe"
            size_probes.append(q)
    for _ in range(n):
        if ctx.rng.random() < 0.12:
            p = targeted(ctx.rng)
            p["source"] = c09gen.render(p)
            p["alphabet"] = "targeted"
        else:
            p = c09gen.generate(ctx.rng)
        progs.append(p)
    for k, q in enumerate(size_probes):
        progs.insert((k * len(progs)) // max(1, len(size_probes)) + len(progs) // 5, q)
    return progs


# --------------------------------------------------------------------------
# the check
# --------------------------------------------------------------------------

def evaluate(ctx, progs, nval, nrep):
    """Runs both sides and the oracle. Returns a dict of results."""
    import time
    T = [time.time()]

    def lap(what):
        T.append(time.time())
        common.log("C09 %s: %.1fs" % (what, T[-1] - T[-2]))
    HARNESS_BIN = common.build_harness("taint")
    MODEL_BIN = common.build_model("taint")
    REGION_BIN = common.build_model("ctlregion")
    lap("builds")
    lines = [c09gen.wire_line(p) for p in progs]
    impl = common.run_lines(HARNESS_BIN, [], lines, shards=common.NPROC, timeout=1500)
    if len(impl) != len(lines):
        raise common.BuildError("harness taint: %d outputs for %d inputs" % (len(impl), len(lines)), "")
    lap("implementation on %d definitions" % len(lines))
    status = {}
    ok_idx, model_in, region_in = [], [], []
    parsed = {}
    for i, out in enumerate(impl):
        head = out[1:out.index(" ")] if " " in out else out.strip("()")
        status[head] = status.get(head, 0) + 1
        if head == "ok":
            sx = sexp.parse(out)
            parsed[i] = sx
            ok_idx.append(i)
            # the model gets the graph (and the dominator certificate of the SSA validator) only: the branch
            # regions sx[2] of the real Cfg are COMPARED with the ones the mirror computes (section `branches`)
            real_b = [sec for sec in sx[3][1:] if sec[0] == "bset"]
            model_in.append(MODEL_MODE + " " + sexp.show(sx[1]) + (" " + sexp.show(sx[4]) if len(sx) > 4 else "")
                            + (" " + sexp.show(real_b[0]) if real_b else ""))
            # region-cover engine: the graph, plus the REAL region table and the REAL tainted set
            region_in.append(sexp.show(sx[1]) + " " + sexp.show(sx[2]) + (" " + sexp.show(real_b[0]) if real_b else "")
                             + " (p %x)" % c09sem.P)
    model = common.run_lines(MODEL_BIN, [], model_in, shards=common.NPROC, timeout=1500)
    if len(model) != len(model_in):
        raise common.BuildError("model taint: %d outputs for %d inputs" % (len(model), len(model_in)), "")
    lap("model")
    region = common.run_lines(REGION_BIN, [], region_in, shards=common.NPROC, timeout=1500)
    if len(region) != len(region_in):
        raise common.BuildError("model ctlregion: %d outputs for %d inputs" % (len(region), len(region_in)), "")
    # self-test of `vj` (fourth audit): the same dumps with ONE non-constant branch condition marked constant true must be
    # rejected by the validator - a dump with a wrongly folded condition used to leave cover / self / ctl = 1
    flip_in = []
    for i in ok_idx:
        if len(flip_in) >= 40:
            break
        fl = flipped_condition(parsed[i][1])
        if fl is not None:
            flip_in.append(sexp.show(fl) + " " + sexp.show(parsed[i][2]) + " (p %x)" % c09sem.P)
    flip_out = common.run_lines(REGION_BIN, [], flip_in, shards=common.NPROC, timeout=1500) if flip_in else []
    flips = {"dumps_with_one_condition_wrongly_marked_constant": len(flip_in),
             "rejected_by_vjust_cfg": len([o for o in flip_out if "(vj 0)" in o])}
    lap("region-cover hypotheses")
    # hypotheses of C09_noninterference_with_region_cover (idx, cover, self), of ..._with_implicit_flows (ctl) and
    # `every block reaches an exit` (exit), per dumped graph; coverreal / selfreal: the same on the REAL table / tainted set
    hyp = dict((k, {"evaluated": 0, "false": 0}) for k in REGION_FIELDS)
    region_fail, exit_fail, region_bad_output, template_returns = [], [], [], []
    const_conditions = conditions = 0
    sizes = dict((k, 0) for k in REQUIRED_SIZES)
    for i, ro in zip(ok_idx, region):
        try:
            rx = sexp.parse(ro)
            vals = dict((e[0], e[1]) for e in rx[1:]) if rx[0] == "rc" else None
        except Exception:
            vals = None
        if not vals:
            region_bad_output.append({"source": progs[i]["source"], "output": ro[:120]})
            continue
        if [k for k in REGION_FIELDS if vals.get(k) not in ("0", "1")]:
            # a field that was not evaluated (`-`: the harness printed no real table / tainted set) is no verdict
            region_bad_output.append({"source": progs[i]["source"], "output": ro[:200]})
            continue
        for k in REGION_FIELDS:
            hyp[k]["evaluated"] += 1
            hyp[k]["false"] += vals[k] == "0"
        nb, tr, rr = size_stats(parsed[i][3], parsed[i][1], parsed[i][2],
                                bool(set(progs[i].get("features", [])) & {"long-chain", "many-blocks", "deep-region"}))
        sizes["max_blocks_in_a_graph"] = max(sizes["max_blocks_in_a_graph"], nb)
        sizes["max_rounds_of_multi_step_taint"] = max(sizes["max_rounds_of_multi_step_taint"], tr)
        sizes["max_rounds_of_region_reachability"] = max(sizes["max_rounds_of_region_reachability"], rr)
        sizes["max_loop_nesting_in_a_source"] = max(sizes["max_loop_nesting_in_a_source"], loop_nesting(progs[i]["body"]))
        nconst, nif, has_ret = condition_stats(parsed[i][1])
        const_conditions += nconst
        conditions += nif
        if has_ret and parsed[i][1][1] == "template":
            template_returns.append(progs[i]["source"])
        bad = [k for k in ("idx", "cover", "self", "coverreal", "selfreal", "vj") if vals.get(k) == "0"]
        if bad:
            region_fail.append({"source": progs[i]["source"], "prog": strip(progs[i]), "false": bad, "values": vals,
                                "real_regions": sorted(sexp.show(e) for e in parsed[i][2][1:])})
        if vals.get("exit") == "0":
            exit_fail.append({"source": progs[i]["source"], "prog": strip(progs[i]), "values": vals,
                              "legitimate": never_terminates(progs[i])})       # informational only
    disagreements = []
    wf_fail = []
    ssa_fail = []
    sink_incons = []
    ctl_fail = []
    ctl_pairs = 0
    dfmax = 0
    for i, mo in zip(ok_idx, model):
        ci = canon_result(parsed[i][3])
        ci["branches"] = sorted(sexp.show(e) for e in parsed[i][2][1:])
        try:
            cm = canon_result(sexp.parse(mo))
            if cm.pop("wf", None) != ["1"]:
                wf_fail.append(progs[i]["source"])
            # hypotheses of C09_location_is_unique_definition(_nodup): unique definitions / the verified
            # SSA validator with the implementation's dominator tree as certificate
            ud, ssa = cm.pop("ud", None), cm.pop("ssa", None)
            if ud != ["1"] or ssa != ["1"]:
                ssa_fail.append({"source": progs[i]["source"], "nodup_v_all_defs": ud, "ssa_check": ssa})
            # hypothesis of C09_noninterference_with_implicit_flows: the names tainted by an input/output signal are
            # closed under control dependence (Spec.CtlDep.ctl_closed_b), evaluated on this graph
            ctl, ctlreal, pairs = cm.pop("ctl", None), cm.pop("ctlreal", None), cm.pop("ctlpairs", ["0"])
            ctl_pairs += int(pairs[0])
            dfm = cm.pop("dfmax", None)
            if dfm and dfm[0].isdigit():
                dfmax = max(dfmax, int(dfm[0]))
            if ctl != ["1"] or ctlreal != ["1"]:
                ctl_fail.append({"source": progs[i]["source"], "prog": strip(progs[i]), "ctl_closed_b_on_mirror": ctl,
                                 "ctl_closed_b_on_real_tainted_set": ctlreal, "real_regions": ci["branches"],
                                 "mirror_regions": cm.get("branches"), "real_tainted_by_exported": ci.get("bset")})
        except Exception:
            cm = {"model-output": [mo[:200]]}
        bad = sink_consistency(parsed[i][3])
        if bad:
            sink_incons.append({"source": progs[i]["source"], "inconsistent": bad[:4]})
        if ci != cm:
            secs = [s for s in SECTIONS if ci.get(s) != cm.get(s)]
            s0 = secs[0] if secs else "?"
            a, b = set(ci.get(s0, [])), set(cm.get(s0, []))
            disagreements.append({"source": progs[i]["source"], "sections": secs,
                                  "impl_only": sorted(a - b)[:6], "model_only": sorted(b - a)[:6]})
    lap("comparison")
    # oracle
    jobs = []
    for i in ok_idx:
        fs = [f for f in findings_of(parsed[i][3]) if f[1] in VARIABLE_KINDS]
        if fs:
            jobs.append((i, fs))
    seeds = [ctx.rng.randrange(1 << 30) for _ in jobs]
    args = [(strip(progs[i]), fs, sd, nval, nrep, declared_types(parsed[i][1])) for (i, fs), sd in zip(jobs, seeds)]
    with concurrent.futures.ProcessPoolExecutor(max_workers=common.NPROC) as ex:
        verdicts = list(ex.map(oracle_one, args, chunksize=max(1, len(args) // (4 * common.NPROC) + 1)))
    lap("oracle")
    failing, unmapped, claims, kinds = [], [], 0, {}
    oracle_runs = 0
    for (i, fs), (vs, nruns) in zip(jobs, verdicts):
        oracle_runs += nruns
        for f, v in vs:
            claims += 1
            kinds[f[1]] = kinds.get(f[1], 0) + 1
            if v in ("signal", "component", "generated"):
                claims -= 1
                kinds[f[1]] -= 1
                kinds["(%s) %s" % (v, f[1])] = kinds.get("(%s) %s" % (v, f[1]), 0) + 1
            elif v == "unmapped":
                unmapped.append({"source": progs[i]["source"], "finding": f})
            elif v:
                failing.append({"index": i, "source": progs[i]["source"], "prog": strip(progs[i]), "finding": list(f),
                                "oracle": v, "kf_ssa_key_collision": kf_ssa_key_collision(parsed[i][1])})
    # findings the harness could not classify (kind `other`): nobody judges them
    unclassified = []
    for i in ok_idx:
        for f in findings_of(parsed[i][3]):
            if f[1] not in VARIABLE_KINDS + ("unusedsig", "unconstrained"):
                unclassified.append({"source": progs[i]["source"], "finding": list(f)})
    # corpus / probe expectations
    corpus_fail = []
    control_fail = []
    for i, p in enumerate(progs):
        if "corpus" in p or "probe" in p:
            label = ("corpus " + p["corpus"]) if "corpus" in p else ("probe " + p["probe"])
            fs = findings_of(parsed[i][3]) if i in parsed else None
            if fs is None:
                corpus_fail.append({"corpus": label, "problem": "no result: " + impl[i][:60], "source": p["source"]})
                continue
            have = set((f[1], f[2]) for f in fs)
            for kind, name in p["expect_absent"]:
                if (kind, name) in have:
                    corpus_fail.append({"corpus": label, "problem": "finding %s `%s` %s" % (kind, name, "is back" if "corpus" in p else
                                        "although the value reaches an effect"), "source": p["source"], "prog": strip(p)})
            for kind, name in p["expect_present"]:
                if (kind, name) not in have:
                    (corpus_fail if "corpus" in p else control_fail).append(
                        {"corpus": label, "problem": "finding %s `%s` missing" % (kind, name), "source": p["source"]})
    return {"status": status, "ok": len(ok_idx), "disagreements": disagreements, "failing": failing, "unmapped": unmapped,
            "claims": claims, "claim_kinds": kinds, "oracle_runs": oracle_runs, "programs_with_claims": len(jobs), "corpus_fail": corpus_fail, "wf_fail": wf_fail,
            "ssa_fail": ssa_fail, "sink_incons": sink_incons, "control_fail": control_fail,
            "ctl_fail": ctl_fail, "ctl_pairs": ctl_pairs, "unclassified": unclassified, "dfmax": dfmax,
            "sizes": sizes, "flips": flips, "hyp": hyp, "const_conditions": const_conditions, "conditions": conditions, "template_returns": template_returns,
            "region_fail": region_fail, "exit_fail": exit_fail, "region_bad_output": region_bad_output,
            "parsed": parsed, "impl": impl}


# shapes on which the control-dependence specification was wrong before proof round 4 (no successor-free block): a run in
# which the generator never produces them is a failure
REQUIRED_SHAPES = ("trailing-loop", "branch-ends-in-loop",
                   # fourth audit: sizes and shapes the generator never reached
                   "trailing-loop-with-control", "merged-const-condition", "const-loop-cond", "while-true",
                   "long-chain", "deep-region", "loop-nesting-3")
# measured on the dumped graphs / sources of a run; a run that stays below is a failure (a cap on a closure loop would escape)
REQUIRED_SIZES = {"max_blocks_in_a_graph": 75, "max_rounds_of_multi_step_taint": 36, "max_loop_nesting_in_a_source": 3,
                  "max_rounds_of_region_reachability": 34}


def loop_nesting(ss, d=0):
    m = d
    for st in ss:
        t = st[0]
        if t == "if":
            m = max(m, loop_nesting(st[2], d), loop_nesting(st[3] or [], d))
        elif t == "while":
            m = max(m, loop_nesting(st[2], d + 1))
        elif t == "for":
            m = max(m, loop_nesting(st[4], d + 1))
        elif t == "block":
            m = max(m, loop_nesting(st[1], d))
    return m


def bfs_rounds(succ, starts):
    """Largest number of rounds a `while !update.is_subset(&result)` closure needs from one of the start nodes."""
    best = 0
    for s0 in starts:
        seen, fr, d = {s0}, [s0], 0
        while fr:
            nx = []
            for a in fr:
                for b in succ.get(a, ()):
                    if b not in seen:
                        seen.add(b)
                        nx.append(b)
            if nx:
                d += 1
            fr = nx
        best = max(best, d)
    return best


def size_stats(res_sx, cfg_sx, branches_sx, big):
    """(blocks, rounds of multi_step_taint, rounds of get_successors from a region start). The two closures are measured on the
    REAL single-step taint map / the dumped successor lists, and only for definitions the generator marked as big (they are costly)."""
    blocks = [sec for sec in cfg_sx[1:] if isinstance(sec, list) and sec and sec[0] == "blocks"][0][1:]
    if not big:
        return len(blocks), 0, 0
    taint = {}
    for sec in res_sx[1:]:
        if sec[0] == "taint":
            for row in sec[1:]:
                taint[sexp.show(row[0])] = [sexp.show(v) for v in row[1:]]
    succ = dict((b[1], list(b[5])) for b in blocks)
    starts = set()
    for b in blocks:
        for st in b[3]:
            if st[0] == "if":
                starts.update(x for x in st[-2:] if x != "-")
    return len(blocks), bfs_rounds(taint, list(taint)), bfs_rounds(succ, starts)

REGION_FIELDS = ("idx", "cover", "self", "ctl", "exit", "coverreal", "selfreal", "vj")


def flipped_condition(cfg_sx):
    """A copy of the dumped graph in which the first branch condition WITHOUT a value claim that is an infix node is marked
    `constant true`; None if there is none."""
    import copy
    g = copy.deepcopy(cfg_sx)
    for sec in g[1:]:
        if isinstance(sec, list) and sec and sec[0] == "blocks":
            for b in sec[1:]:
                for st in b[3]:
                    if st[0] == "if" and isinstance(st[2], list) and st[2][0] == "infix":
                        k = st[2][-1]
                        if isinstance(k, list) and len(k) > 1 and k[1] == "-":
                            k[1] = ["b", "1"]
                            return g
    return None


def condition_stats(cfg_sx):
    """(branch statements whose condition carries a constant claim, branch statements, graph has a return statement)."""
    nconst = nif = 0
    has_ret = False
    for sec in cfg_sx[1:]:
        if isinstance(sec, list) and sec and sec[0] == "blocks":
            for b in sec[1:]:
                for st in b[3]:
                    if st[0] == "if":
                        nif += 1
                        k = st[2][-1]          # the know of the condition: (k VALUE|- DEGREE)
                        nconst += isinstance(k, list) and len(k) > 1 and k[1] != "-"
                    elif st[0] in ("return", "ret"):
                        has_ret = True
    return nconst, nif, has_ret


def never_terminates(prog):
    """Does the SOURCE have a loop whose condition is a non-zero literal (`while (1)`)? Recorded next to an `exit 0` verdict.
    (It does not excuse one: the lifted graph of `while (1) {..}` keeps the edge out of the loop, exit = 1.)"""
    for st in c09sem.all_stmts(prog["body"]):
        if st[0] in ("while", "for"):
            c = st[1] if st[0] == "while" else st[2]
            if c[0] == "num" and c[1] != 0:
                return True
    return False


def strip(prog):
    d = {k: prog[k] for k in ("kind", "name", "params", "body", "sig_in")}
    if prog.get("helpers"):
        d["helpers"] = True
    return d


BATCH = 2500


def merge(acc, res, base, progs, keep_samples):
    for k in ("ok", "claims", "programs_with_claims", "oracle_runs", "ctl_pairs", "const_conditions", "conditions"):
        acc[k] = acc.get(k, 0) + res[k]
    for k in ("status", "claim_kinds"):
        d = acc.setdefault(k, {})
        for a, b in res[k].items():
            d[a] = d.get(a, 0) + b
    for k in ("disagreements", "failing", "unmapped", "corpus_fail", "wf_fail", "ssa_fail", "sink_incons", "control_fail",
              "ctl_fail", "unclassified", "region_fail", "exit_fail", "region_bad_output", "template_returns"):
        acc.setdefault(k, []).extend(res[k][:50])
    h = acc.setdefault("hyp", dict((k, {"evaluated": 0, "false": 0}) for k in REGION_FIELDS))
    for k in REGION_FIELDS:
        for q in ("evaluated", "false"):
            h[k][q] += res["hyp"][k][q]
    for k in ("ssa_fail", "sink_incons", "control_fail", "corpus_fail", "ctl_fail", "unclassified", "wf_fail",
              "region_fail", "exit_fail", "region_bad_output"):
        acc["n_" + k] = acc.get("n_" + k, 0) + len(res[k])
    acc["dfmax"] = max(acc.get("dfmax", 0), res["dfmax"])
    fl = acc.setdefault("flips", {})
    for k, v in res["flips"].items():
        fl[k] = fl.get(k, 0) + v
    sz = acc.setdefault("sizes", dict((k, 0) for k in REQUIRED_SIZES))
    for k in REQUIRED_SIZES:
        sz[k] = max(sz[k], res["sizes"][k])
    acc["n_exit_legit"] = acc.get("n_exit_legit", 0) + len([c for c in res["exit_fail"] if c["legitimate"]])
    acc["n_disagreements"] = acc.get("n_disagreements", 0) + len(res["disagreements"])
    acc["n_failing"] = acc.get("n_failing", 0) + len(res["failing"])
    sample = acc.setdefault("sample", [])
    for i in sorted(res["parsed"]):
        if len(sample) >= keep_samples:
            break
        fs = [f for f in findings_of(res["parsed"][i][3]) if f[1] in VARIABLE_KINDS]
        if fs:
            sample.append({"source": progs[i]["source"], "claims": fs})


def run(ctx, proofs):
    quick = ctx.tier == "quick"
    n = 2000 if quick else 50000
    nval, nrep = 32, 8
    res = {}
    feats, alph = {}, {}
    total = 0
    first = True
    while total < n or first:
        k = min(BATCH, n - total)
        progs = make_cases(ctx, k, fixed=first)
        first = False
        total += k
        for p in progs:
            for f in p.get("features", []):
                feats[f] = feats.get(f, 0) + 1
            alph[p.get("alphabet", "corpus")] = alph.get(p.get("alphabet", "corpus"), 0) + 1
        merge(res, evaluate(ctx, progs, nval, nrep), total - k, progs, 3)
        if res["n_failing"] >= 5:
            break
    res["generated"] = sum(alph.values())
    finish(ctx, proofs, res, feats, alph, nval, nrep)


def finish(ctx, proofs, res, feats, alph, nval, nrep):
    # C09 has no `known` finding: D20 (SSA key collision) was repaired in ssa_impl.rs (51769f1) and
    # the single-name-constraint defect in side_effect_analysis.rs (7b80e23); both witnesses are in
    # corpus/C09 and any false claim is a violation.
    for f in res["failing"][:5]:
        fd = f["finding"]
        ctx.violation("false claim %s %s about `%s`: replacing the flagged value by %s changes effect #%d (%s -> %s)"
                      % (fd[0], fd[1], fd[2], f["oracle"]["replacement"], f["oracle"]["first_difference_at_event"],
                         f["oracle"]["base_event"], f["oracle"]["perturbed_event"]),
                      {"input": f["source"], "prog": f["prog"], "impl": fd, "spec": f["oracle"],
                       "ssa_key_collision": f["kf_ssa_key_collision"]})
    for c in res["corpus_fail"][:3]:
        ctx.violation("expectation: %s: %s" % (c["corpus"], c["problem"]),
                      {"input": c.get("source"), "prog": c.get("prog"), "impl": c["problem"],
                       "spec": "corpus expectation / sink probe: no claim about a value that reaches an effect"})
    # hypotheses of C09_noninterference_with_region_cover unmet on a dumped graph: the definition is the failing input
    for c in res["region_fail"][:3]:
        ctx.violation("hypothesis of C09_noninterference_with_region_cover false on this definition: %s = 0 (idx = block indices distinct, "
                      "cover = every block control dependent on a non-constant branch is in its region [Spec.CtlRegion.region_covers_b], "
                      "self = the writes of a loop header that depends on itself are tainted [self_closed_b]; `real` = evaluated on the region "
                      "table / tainted set the implementation computed, else on the mirror's; vj = every value claim of the dumped graph, "
                      "in particular every branch condition the taint pass skips as CONSTANT, passes the verified validator "
                      "Model.Justify.vjust_cfg) (%d definitions)"
                      % (", ".join(c["false"]), res["n_region_fail"]),
                      {"input": c["source"], "prog": c["prog"],
                       "impl": {"get_true_branch/get_false_branch": c["real_regions"], "ctlregion": c["values"]},
                       "spec": "Spec.CtlRegion: indices_distinct_b, region_covers_b, self_closed_b must be 1 on every dumped graph "
                               "(control dependence in the post-dominance sense of Spec.CtlDep)"})
    # the names the REAL analysis finds tainted by an input/output signal are not closed under control dependence
    # (Spec.CtlDep): a branch region misses a block whose execution the branch decides. The program is the input.
    for c in res["ctl_fail"][:3]:
        ctx.violation("implicit flow missed: on this definition the set of names that the real taint analysis finds tainted by an input "
                      "or output signal is not closed under control dependence (Spec.CtlDep.ctl_closed_b = %s on the real set, %s on the "
                      "mirror's): a name written in a block whose execution is decided by a branch on a tainted condition is not tainted "
                      "(a branch region computed too small, or a read of the condition / of a tainting assignment not recorded); "
                      "hypothesis of C09_noninterference_with_implicit_flows unmet (%d definitions)"
                      % (c["ctl_closed_b_on_real_tainted_set"], c["ctl_closed_b_on_mirror"], res["n_ctl_fail"]),
                      {"input": c["source"], "prog": c["prog"],
                       "impl": {"get_true_branch/get_false_branch": c["real_regions"], "tainted_by_exported": c["real_tainted_by_exported"]},
                       "spec": {"what": "every name written in a block that is control dependent (post-dominance sense, Spec.CtlDep.ctl_dependent) "
                                        "on a branch whose non-constant condition reads a name tainted by an input/output signal is tainted by one",
                                "mirror_regions": c["mirror_regions"]}})
    degenerate = res["ok"] < 0.5 * res["generated"] or res["programs_with_claims"] < 0.2 * max(1, res["ok"])
    if not ctx.violations:
        if res["disagreements"]:
            d = res["disagreements"][0]
            ctx.violation("correspondence Model.Taint/SideEffect vs taint_analysis.rs/constraint_analysis.rs/side_effect_analysis.rs broken "
                          "(%d of %d definitions; first differs in %s: impl only %s, model only %s); no false claim was found by the oracle"
                          % (res["n_disagreements"], res["ok"], d["sections"], d["impl_only"], d["model_only"]),
                          {"broken": "correspondence taint (Model.VarUse / Model.Taint / Model.SideEffect)", "first": d,
                           "count": res["n_disagreements"]}, no_input=True)
        elif res["wf_fail"]:
            ctx.violation("hypothesis ssa_wf_b of C09_noninterference is false on %d dumped cfgs" % len(res["wf_fail"]),
                          {"broken": "hypothesis exported_targets_declared / csig_on_signals of props/C09.v", "first": res["wf_fail"][0]},
                          no_input=True)
        elif res["ssa_fail"]:
            ctx.violation("hypothesis of C09_location_is_unique_definition is false on %d dumped cfgs (SsaCheck.ssa_check with the "
                          "implementation's dominator tree / nodup_v (all_defs g))" % res["n_ssa_fail"],
                          {"broken": "hypothesis ssa_check / unique definitions of props/C09.v (location theorems)", "first": res["ssa_fail"][0]},
                          no_input=True)
        elif res["sink_incons"]:
            ctx.violation("the sink set transcribed in harness/src/bin/taint.rs no longer explains the real reports of "
                          "run_side_effect_analysis on %d definitions (the real sink set changed)" % res["n_sink_incons"],
                          {"broken": "transcription of the sink set (side_effect_analysis.rs:254-339) vs the real CS0008 reports",
                           "first": res["sink_incons"][0]}, no_input=True)
        elif res["region_bad_output"]:
            ctx.violation("the region-cover engine (coq/extract/ctlregion) gave no verdict on %d dumped graphs; first: %s"
                          % (res["n_region_bad_output"], res["region_bad_output"][0]["output"]),
                          {"broken": "model driver ctlregion (hypotheses of C09_noninterference_with_region_cover not evaluated)",
                           "first": res["region_bad_output"][0]}, no_input=True)
        elif res["flips"]["rejected_by_vjust_cfg"] < res["flips"]["dumps_with_one_condition_wrongly_marked_constant"] \
                or not res["flips"]["dumps_with_one_condition_wrongly_marked_constant"]:
            ctx.violation("self-test of the constness validation: %s" % res["flips"],
                          {"broken": "Model.Justify.vjust_cfg as evaluated by ctlregion must reject a dump in which a non-constant "
                                     "branch condition is marked constant", "flips": res["flips"]}, no_input=True)
        elif res["template_returns"]:
            ctx.violation("%d dumped TEMPLATE graphs contain a return statement: Spec.CtlDep.is_exit does not count `return` as an exit "
                          "(the execution semantics halts there), so control dependence is not meaningful on them"
                          % len(res["template_returns"]),
                          {"broken": "domain of the control-dependence specification (no `return` in templates)",
                           "first": res["template_returns"][0]}, no_input=True)
        elif res["exit_fail"]:
            # checked by hand (proof round 4 follow-up): even `while (1) {..}` keeps the edge out of the loop in the lifted graph
            # (exit = 1), so no source shape makes this legitimately false; `source_has_a_constant_true_loop` is recorded for the reader
            ctx.violation("Spec.CtlRegion.all_reach_exit_b is false on %d dumped graphs: a block cannot reach an exit (post-dominance is "
                          "vacuous there)" % res["n_exit_fail"],
                          {"broken": "hypothesis `every block reaches an exit` (all_reach_exit_b) of the control-dependence specification",
                           "first": res["exit_fail"][0]}, no_input=True)
        elif [f for f in REQUIRED_SHAPES if not feats.get(f)]:
            ctx.violation("the generator never produced the shape(s) %s in this run" % [f for f in REQUIRED_SHAPES if not feats.get(f)],
                          {"broken": "generator coverage (shapes the control-dependence specification was once wrong on)",
                           "required": list(REQUIRED_SHAPES), "feature_histogram": feats}, no_input=True)
        elif [k for k in REQUIRED_SIZES if res["sizes"][k] < REQUIRED_SIZES[k]]:
            ctx.violation("the run stayed below the required sizes %s (reached %s): a cap on a closure loop of the implementation could escape"
                          % (dict((k, REQUIRED_SIZES[k]) for k in REQUIRED_SIZES if res["sizes"][k] < REQUIRED_SIZES[k]), res["sizes"]),
                          {"broken": "generator coverage (sizes)", "required": REQUIRED_SIZES, "reached": res["sizes"]}, no_input=True)
        elif res["unclassified"]:
            ctx.violation("%d reports of the side-effect pass could not be classified by code and location (kind `other`): nobody judges them; "
                          "first: %s" % (res["n_unclassified"], res["unclassified"][0]["finding"]),
                          {"broken": "classification of the reports in harness/src/bin/taint.rs::finding (by report code, label location, "
                                     "definitions / declarations of the cfg)", "first": res["unclassified"][0]}, no_input=True)
        elif res["control_fail"]:
            ctx.violation("sink probes: %d control programs (value reaches no effect) are no longer flagged: the real sink set or taint "
                          "relation grew; first: %s: %s" % (res["n_control_fail"], res["control_fail"][0]["corpus"], res["control_fail"][0]["problem"]),
                          {"broken": "sink set differential (control probes of lib/c09probe.py)", "first": res["control_fail"][0]}, no_input=True)
        elif res["unmapped"]:
            ctx.violation("oracle could not map %d findings to an assignment of the source" % len(res["unmapped"]),
                          {"broken": "oracle mapping finding -> source statement", "first": res["unmapped"][0]}, no_input=True)
        elif degenerate:
            ctx.violation("generator degenerate: %d of %d definitions analysed, %d with claims"
                          % (res["ok"], res["generated"], res["programs_with_claims"]),
                          {"broken": "generator", "status": res["status"]}, no_input=True)
        elif proofs["failures"]:
            ctx.violation("proof obligations of C09 no longer check: " + "; ".join(proofs["failures"])[:500],
                          {"broken": "props/C09.v", "failures": proofs["failures"]}, no_input=True)
    ctx.coverage.update({
        "evaluations": res["ok"] + res["oracle_runs"],
        "definitions_generated": res["generated"],
        "definitions_analysed_and_compared": res["ok"],
        "harness_status": res["status"],
        "claims_checked_by_oracle": res["claims"],
        "claim_kinds": res["claim_kinds"],
        "oracle_runs": res["oracle_runs"],
        "oracle_runs_per_claim": "%d valuations x %d replacement values (valuations on which the flagged statement is not "
                                 "executed are skipped: the two runs coincide)" % (nval, nrep),
        "distinct_nontrivial": res["programs_with_claims"],
        "rule": "a definition counts as non-trivial when the implementation made at least one claim about a local or a parameter "
                "(CS0006/CS0007/CS0008) and the oracle executed it; evaluations = definitions compared + oracle runs",
        "exhaustive": False,
        "samples": res.get("sample", []),
        "feature_histogram": feats,
        "alphabets": alph,
        "disagreements_model_vs_impl": res["n_disagreements"],
        "false_claims_found": res["n_failing"],
        "hypothesis_ssa_wf_b_false_on": res["n_wf_fail"],
        "hypothesis_ssa_check_or_unique_defs_false_on": res["n_ssa_fail"],
        "sink_transcription_inconsistent_with_real_reports_on": res["n_sink_incons"],
        # NOT a verdict any more (third audit: it fired on every token edit of an equivalent rewrite). The transcription is tied
        # behaviourally: sink_consistency on every definition, the sink probes, and the findings/sinks sections of the correspondence.
        "sink_code_digest_matches_transcription_informational": sink_code_digest() == SINK_CODE_SHA256,
        "reports_unclassified_kind_other": res["n_unclassified"],
        # per dumped graph, by the model driver ctlregion: idx / cover / self = hypotheses of C09_noninterference_with_region_cover
        # (mirror's table and tainted set), ctl = hypothesis of ..._with_implicit_flows, exit = every block reaches an exit,
        # coverreal / selfreal = cover / self on the REAL region table / tainted set
        "hypotheses_evaluated": res["hyp"],
        "hypothesis_region_cover_false_on": res["n_region_fail"],
        # `this condition is constant` is not taken from the implementation on trust: field `vj` above = the verified validator of value
        # claims on every dumped graph; how many branch conditions carried a constant claim (and were skipped by the taint pass / cdep)
        "branch_conditions": {"total": res["conditions"], "claimed_constant_and_validated": res["const_conditions"]},
        "constness_self_test": res["flips"],
        "template_graphs_with_a_return_statement": len(res["template_returns"]),
        "graphs_with_a_block_that_reaches_no_exit": {"count": res["n_exit_fail"],
                                                     "of_which_source_has_a_constant_true_loop": res["n_exit_legit"]},
        "required_shapes_produced": dict((f, feats.get(f, 0)) for f in REQUIRED_SHAPES),
        "required_sizes": {"required": REQUIRED_SIZES, "reached": res["sizes"]},
        "hypothesis_ctl_closed_false_on": res["n_ctl_fail"],
        "hypothesis_ctl_closed_evaluated_on": res["ok"],
        "control_dependent_block_pairs_evaluated": res["ctl_pairs"],
        # the `for end_block in end_blocks` loops of get_true_branch / get_false_branch: largest frontier of a region start block
        "largest_dominance_frontier_of_a_region_start_block": res["dfmax"],
        "sink_probes": {"programs": alph.get("probe", 0), "expectation_failures_probes_and_corpus": res["n_corpus_fail"],
                        "control_probes_not_flagged": res["n_control_fail"]},
        "open_statements": OPEN_STATEMENTS,
    })
    ctx.assumptions += ASSUMPTIONS


OPEN_STATEMENTS = [
    "order irrelevance of the HashMap/HashSet iterations is by construction (lists used as sets, every output canonicalised by "
    "Model.Taint.canon) and observed by the correspondence; a theorem `Permutation l l' -> canon l = canon l'` is not stated",
    "SSA correctness of the cfg w.r.t. the source program (property C14) is not part of C09_noninterference: the theorem speaks "
    "about executions of the SSA cfg; the source-level oracle covers the gap by search (this is how D20 was visible). What IS "
    "checked inside C09: every dumped graph passes the verified validator SsaCheck.ssa_check (C14's theorems then apply to it)",
    "`ment_sound` / `ment_sound_by` is a hypothesis; that the exact predicate (`ment s = true <-> mentions_by g dep s`) is decidable is not proved",
    "that the mirror of get_true_branch / get_false_branch (Model.BranchRegion.branches_of) COVERS control dependence on every graph "
    "the lifting produces (Proofs.CtlRegionLifted.C09_lifted_regions_cover_full_statement: `lift body = Ok sg -> g has the edges of sg -> "
    "branches_of g = Ok br -> region_covers g br`) is not proved; missing is one structural lemma about Model.Lift.visit (the blocks of "
    "the true and of the false branch are two index intervals entered through the branch block only and left towards one block), "
    "stated at the end of that file. PROVED in proof round 4: for ALL graphs and ALL tables `region_covers g br /\\ self_closed g es -> "
    "ctl_closed g es` (C09_regions_give_ctl_closed; self_closed = the pairs (b, b): the phis of a loop header, which is not in its own "
    "region), the decidable forms, the fuel/exactness of every loop of Model.BranchRegion, existence of the table and exactness of the "
    "frontier lists on lifted graphs. EVALUATED per dumped graph (quick and thorough) by the model driver `ctlregion` "
    "(coq/extract/ctlregion.{v,ml}), run next to the taint model: indices_distinct_b / region_covers_b / self_closed_b (the hypotheses of "
    "C09_noninterference_with_region_cover) on the mirror's region table and tainted set AND on the REAL table and tainted set "
    "(`coverreal`, `selfreal`), ctl_closed_b, all_reach_exit_b; counts in evidence `hypotheses_evaluated`; idx / cover / self = 0 is a "
    "violation with the definition as failing input, exit = 0 an unmet hypothesis (no_input; not legitimately possible: `while (1)` "
    "keeps its exit edge in the lifted graph)",
]
ASSUMPTIONS = [
    "`this branch condition is constant` (the taint pass, cdep and the region hypotheses skip such a branch) is the implementation's own "
    "verdict in the dump; it is VALIDATED per dumped graph by the verified validator Model.Justify.vjust_cfg (field `vj` of the model driver "
    "ctlregion; C09_skipped_conditions_are_constant; self-tested on every run with dumps in which one condition is wrongly marked constant). "
    "That a condition which is constant in Spec.ValueSem carries no implicit flow in the abstract-value semantics of Spec.SsaEffects is an "
    "argument, not a theorem",
    "observations, not findings (coordinator's decision): CS0008 about a value that only reaches a port of a sub-component (`c.in <== x`) or a "
    "constraint among intermediate signals only (`mid[v] <== 5`) is false as English but true under the property's effect list; "
    "`input or output signal` = of the analysed template",
    "get_true_branch / get_false_branch / get_interval are MIRRORED (Model.BranchRegion over Model.Dom's dominance frontier) since the "
    "third audit; the regions dumped from the real Cfg for every branch block are compared with the mirror's on every definition "
    "(section `branches` of the correspondence) and are no longer an input of the model",
    "reading of the property text: `a constraint mentioning such a signal` INCLUDES control dependence (a constraint mentions an "
    "input/output signal if it uses a name whose value depends on one by data or control flow); this is the reading under which the "
    "property's own `branch region computed too small` risk produces a false claim. Spec.CtlDep (post-dominance control dependence), "
    "C09_noninterference_with_implicit_flows and the oracle (lib/c09sem.py: values assigned - or assignable - under a branch / loop "
    "whose condition depends on an exported signal carry the dependence) use this reading; C09_noninterference is the data-only "
    "statement that holds for arbitrary regions",
    "an input port of a sub-component (`c.in <== x`) is not an `input or output signal` of the analysed template: the assignment is an "
    "effect only as a constraint that mentions an input/output signal of the template; what the sub-component does with it is visible "
    "through `c.out` (an uninterpreted deterministic function of the template, its arguments and every port value assigned so far)",
    "claims about names the desugarer generated (`anon_var_<n>_<n>`, the counter of an anonymous component in a loop) are counted as "
    "`(generated) <kind>` and not judged by the source-level oracle (they are not names of the source); claims about signals and "
    "components likewise (`(signal)`, `(component)`): compared with the mirror, covered by the SSA-level theorems, outside the oracle",
    "the type knowledge of a variable node equals the declared type of its (name, suffix) in the SSA cfg's declarations (observed by the "
    "correspondence; the IR dump carries no type per expression node)",
    "the sink set of run_side_effect_analysis is a local variable: the harness recomputes it from the public taint/constraint API "
    "(transcription of side_effect_analysis.rs:254-339); the findings are the real reports (side_effect_analysis is a private module, "
    "reached through get_analysis_passes and filtered by code). The transcription is tied to the real pass on the implementation side by "
    "sink_consistency (real CS0008 report for D <=> multi_step_taint(D) misses the printed sink set) and by the sink probes of "
    "lib/c09probe.py (each sink kind in isolation; controls that must stay flagged). The sha256 of the transcribed text is recorded in "
    "the evidence but is no longer a verdict (it fired on every equivalent rewrite)",
    "reports are classified by report code and by what their primary label points at (a definition of the taint analysis, a signal "
    "declaration, the parameter list), not by the wording of the message; a report that cannot be classified is counted and is a violation",
    "the location of a finding is proved (C09_location_is_unique_definition) to be the meta of the only assignment to the flagged SSA name "
    "in the dumped graph, under SsaCheck.ssa_check, which the model driver evaluates on every dumped graph with the implementation's "
    "dominator tree as certificate; that the meta of an SSA statement is the span of the source statement it came from is observed "
    "(the oracle maps every claim to a source assignment by name and span; an unmappable claim is a violation), not proved",
    "oracle semantics: operators are total (out-of-range reads yield 0, failing asserts are events, no run-time abort), `ext` is an "
    "uninterpreted deterministic function, runs are cut after 400 steps",
    "claims about signals (CS0006 unused signal, CA01) are mirrored and compared but outside the property (it speaks of locals and parameters)",
]


def replay(ctx, rep):
    prog = rep.get("prog")
    if not prog:
        print("replay names a broken obligation, not an input:", rep.get("broken"))
        return 1
    prog["sig_in"] = [tuple(x) for x in prog["sig_in"]]
    prog["source"] = c09gen.render(prog)
    res = evaluate(ctx, [prog], 32, 8)
    print(prog["source"])
    print("implementation:", res["impl"][0][:60], [f for f in findings_of(res["parsed"][0][3])] if 0 in res["parsed"] else "")
    print("model disagreements:", res["disagreements"])
    for f in res["failing"]:
        print("oracle: false claim", f["finding"], f["oracle"])
    return 1 if (res["failing"] or res["disagreements"]) else 0
