"""C08 — every `<--` signal assignment is reported exactly once.

Engines: harness `sigassign` (real front end + lifting + SSA + the real
analysis passes, CS0005/CS0013 kept) vs the extracted Gallina mirror
Model.SignalAssign.find_signal_assignments evaluated on the dump of the same
SSA cfg; the hypotheses of the theorems (`keys_distinct`,
`constraint_keys_distinct`) are evaluated by the model on every dumped cfg.

Oracle (independent of model and IR): the generator (c08gen.py) records, while
it writes the text, the byte range of every `<--`/`-->` assignment and of every
constraint statement together with the signals it mentions (occurrences in the
written text, inside index expressions included - never the implementation's
signals_read).  The real findings
— in process, and for a subset end to end through the CLI binary
(`--verbose --sarif-file`) — must be exactly one per recorded assignment,
anchored at its range, CS0013 without secondaries or CS0005 with exactly the
recorded constraint ranges; none for functions / custom templates / anything
else.  A `template parallel` is an ordinary template (findings demanded), only
`template custom [parallel]` is exempt; the definition type of the dumped cfg is
compared with the header the generator wrote.

The hypothesis `keys_distinct` is (1) evaluated by the model and re-computed in
Python on every dumped cfg, (2) tied to the source: the `sig` substitutions of
the cfg must be exactly the `<--` statements the generator wrote (location,
name, component path — `subkeys_distinct`, proved to imply `keys_distinct`) and
those must be pairwise distinct, (3) self-tested on every run with a real dump
in which one statement is duplicated.  It fails on the known-finding class
`decl-tuple-dup-name` (`signal (b, b) <-- ..`), and only there."""
import collections
import concurrent.futures
import glob
import itertools
import json
import os
import random
import re
import shutil

import common
import sexp
from props import c08gen
from props import liftfull_engine

LF_SELFTEST_SRC = "template S() { signal input a; signal output b; b <-- a; }"

# class name (c08gen) -> id in known_findings.jsonl
KF_IDS = {"decl-tuple-dup-name": "C08-decl-tuple-duplicate-name",
          # fourth audit: /repo 517e7a0 compared access vectors with `==` (a constraint statement that uses an element / a
          # containing array of the assigned (sub)array was not listed); repaired by 4f017e8 + 96648cc.  The class is kept
          # INERT: it would be accepted (as exactly the equality output) only if the id were listed as `known`, which it is not.
          c08gen.PARTIAL_CLASS: "C08-partial-access-mention"}


# ----------------------------------------------------------------------------
# reading the two engines
# ----------------------------------------------------------------------------

def rng_of(m):
    return (int(m[1]), int(m[2]))


def parse_reports(rs):
    """[(code, [primary ranges], sorted [secondary ranges])] from a list of (r ...) s-expressions."""
    out = []
    for r in rs:
        out.append((r[1], [rng_of(m) for m in r[2]], sorted(rng_of(m) for m in r[3])))
    return sorted(out)


def parse_impl(line):
    x = sexp.parse(line)
    if x[0] != "file":
        return {"bad": sexp.show(x)[:80], "defs": {}, "parse_reports": 0}
    defs = {}
    for d in x[3]:
        name = sexp.unhex(d[2])
        body = d[3]
        if body[0] == "liftfail":
            defs[name] = {"kind": d[1], "liftfail": body[1]}
        else:
            defs[name] = {"kind": d[1], "reports": parse_reports(body[2]), "raw": sexp.show(body[2]),
                          "pass_panics": int(body[3]), "keys": py_keys_distinct(body[1]),
                          "ckind": body[1][1], "subkeys": py_assign_subkeys(body[1]), "ops": py_signal_ops(body[1])}
    return {"defs": defs, "parse_reports": int(x[2]), "mode": x[1]}


def parse_model(line):
    x = sexp.parse(line)
    defs = {}
    if x[0] != "file":
        return defs
    for d in x[1:]:
        name = sexp.unhex(d[2])
        if d[3] == "liftfail":
            defs[name] = {"liftfail": True}
        else:
            defs[name] = {"raw": sexp.show(d[3]), "keys": d[4] == "1", "ckeys": d[5] == "1",
                          "subkeys": d[6] == "1" if len(d) > 6 else None}
    return defs


def py_keys_distinct(cfg):
    """Independent re-computation of `keys_distinct` from the dump: the
    Assignment key (meta, signal, access, degree) of every `sig` substitution."""
    keys = []
    for b in cfg[4][1:]:
        for s in b[3]:
            if s[0] == "subst" and s[3] == "sig":
                rhe = s[4]
                acc = sexp.show(sexp.strip_knowledge(rhe[2])) if rhe[0] == "update" else "()"
                deg = sexp.show(rhe[-1][2])
                keys.append((sexp.show(s[1]), sexp.show(s[2]), acc, deg))
    return len(keys), len(set(keys))


def py_assign_subkeys(cfg):
    """The sub-key ((start, end), name, component path) of every `sig`
    substitution of the dump: what a `<--` statement keeps of its source text
    whatever SSA versions, generated suffixes, index expressions and degree
    claims are (Spec.SigAssignSpec.subkey_eqb; distinct sub-keys imply
    keys_distinct, theorem C08_subkeys_distinct_suffice)."""
    out = []
    for b in cfg[4][1:]:
        for s in b[3]:
            if s[0] == "subst" and s[3] == "sig":
                rhe = s[4]
                ports = tuple(sexp.unhex(a[1]) for a in rhe[2] if a[0] == "comp") if rhe[0] == "update" else ()
                out.append(((int(s[1][1]), int(s[1][2])), sexp.unhex(s[2][1]), ports))
    return out


def py_signal_ops(cfg):
    """(start, end, op) of every `<--` (sig) and `<==` (csig) substitution of a dumped cfg, in block order."""
    out = []
    for b in cfg[4][1:]:
        for s in b[3]:
            if s[0] == "subst" and s[3] in ("sig", "csig"):
                out.append((int(s[1][1]), int(s[1][2]), s[3]))
    return out


PRE_SSA_SUBST = re.compile(r"\(subst \(m (\d+) (\d+) [^()]*\) \(v [^()]*\) (sig|csig) ")


def pre_ssa_signal_ops(res):
    """The same list read off the standard dump (` C (cfg ..`) of the graph the REAL `into_cfg` returned,
    as printed by the liftfull harness (the graph BEFORE SSA); None when there is no graph."""
    i = res.find(" C (cfg ")
    if not res.startswith("(ok ") or i < 0:
        return None
    j = res.find(" R (reports", i)
    return [(int(a), int(b), op) for a, b, op in PRE_SSA_SUBST.findall(res[i:j if j > 0 else len(res)])]


def strip_brackets(acc):
    """An access text without its index expressions: `[cs[1].out1].in1[u0]` -> `.in1`."""
    out, depth = [], 0
    for ch in acc:
        if ch == "[":
            depth += 1
        elif ch == "]":
            depth -= 1
        elif depth == 0:
            out.append(ch)
    return "".join(out)


def source_subkeys(defn):
    """The same sub-keys read off the generator's records of what it wrote
    (name None: an input of an anonymous component, whose name is generated)."""
    out = []
    for a in defn["assigns"]:
        name, acc = a["key"]
        out.append((tuple(a["anchor"]), None if name.startswith("<") else name,
                    tuple(re.findall(r"\.(\w+)", strip_brackets(acc)))))
    return out


def statements_match(defn, got):
    """Every `<--` the generator wrote is exactly one `sig` substitution of the
    SSA cfg with the statement's range as meta, its variable and its component
    path, and the cfg has no other — the link from the source to the hypothesis
    `keys_distinct`, independent of the analysis pass.  None or a description."""
    have = collections.Counter(got["subkeys"])
    for anchor, name, ports in sorted(source_subkeys(defn), key=lambda k: (k[1] is None, k[0], k[2])):
        if name is not None:
            hit = (anchor, name, ports) if have[(anchor, name, ports)] else None
        else:
            hit = next((k for k in sorted(have) if have[k] and k[0] == anchor and k[2] == ports), None)
        if hit is None:
            return "the `<--` written at %s (%s%s) is no `sig` substitution of the cfg" % (anchor, name, ports)
        have[hit] -= 1
    left = [k for k in sorted(have) if have[k]]
    if left:
        return "the cfg has `sig` substitution(s) %s that no `<--` of the source accounts for" % left[:3]
    return None


def source_keys_distinct(defn):
    """No two recorded `<--` agree in (anchor, name, component path)."""
    ks = [k for k in source_subkeys(defn)]
    return len(ks) == len(set(ks))


# ----------------------------------------------------------------------------
# the oracle
# ----------------------------------------------------------------------------

def oracle_def(defn, got):
    """Compares the real findings of one definition with the recorded ground
    truth.  Returns None or a description of the failure."""
    return oracle_want(c08gen.expected(defn), got)


def oracle_want(want, got):
    if "liftfail" in got:
        if want:
            return "definition not analysed (lifting failed at %s): %d `<--` assignments without finding" % (
                got["liftfail"], len(want))
        return None
    reports = got["reports"]
    for code, prim, sec in reports:
        if len(prim) != 1:
            return "finding %s with %d primary labels" % (code, len(prim))
        if code == "CS0013" and sec:
            return "CS0013 with secondary labels"
    by_anchor_w = collections.defaultdict(list)
    for anchor, secs in want:
        by_anchor_w[tuple(anchor)].append([tuple(s) for s in secs])
    by_anchor_g = collections.defaultdict(list)
    for code, prim, sec in reports:
        by_anchor_g[prim[0]].append((code, sorted(set(sec))))
    for anchor in sorted(set(by_anchor_w) | set(by_anchor_g)):
        w, g = by_anchor_w.get(anchor, []), by_anchor_g.get(anchor, [])
        if len(w) != len(g):
            if not w:
                return "finding anchored at %s where no `<--` assignment was written (%s)" % (anchor, g)
            return "%d finding(s) for the %d `<--` assignment(s) anchored at %s" % (len(g), len(w), anchor)
        rest = list(w)
        for code, sec in g:
            if code == "CS0005":
                if sec in rest:
                    rest.remove(sec)
                else:
                    return "CS0005 at %s lists constraints %s, the constraint statements mentioning the signal are %s" % (
                        anchor, sec, rest)
    return None


def known_class(defn, got, listed):
    """The ids of the known findings that explain the failure of `defn`, if
    the definition is in those findings' syntactic classes, they are listed
    as `known`, and the output is exactly what those defects produce."""
    classes = [cls for cls in sorted(c08gen.known_classes(defn)) if cls in KF_IDS and KF_IDS[cls] in listed]
    for r in range(1, len(classes) + 1):
        for sub in itertools.combinations(classes, r):
            groups = sorted(c08gen.dup_groups(defn).items()) if "decl-tuple-dup-name" in sub else []
            # every way the records of a group may collapse: 1 .. size findings per group
            for counts in itertools.product(*[range(1, n + 1) for _, n in groups]):
                keep = {g: c for (g, _), c in zip(groups, counts)}
                if oracle_want(c08gen.expected(defn, known=sub, keep=keep), got) is None:
                    return [KF_IDS[cls] for cls in sub]
    return None


def hypothesis_exempt(defn, listed):
    """`keys_distinct` is known to fail on the cfgs of exactly the listed known-finding classes."""
    return any(cls in KF_IDS and KF_IDS[cls] in listed for cls in c08gen.known_classes(defn) - {c08gen.PARTIAL_CLASS})


# ----------------------------------------------------------------------------
# end to end through the CLI
# ----------------------------------------------------------------------------

def offsets(src):
    """(byte offset at which every line starts, the lines): SARIF regions are (line, column) with columns
    counted in CHARACTERS (codespan), the recorded ranges are BYTE offsets of the UTF-8 text."""
    lines = src.split("\n")
    starts, pos = [], 0
    for ln in lines:
        starts.append(pos)
        pos += len(ln.encode("utf-8")) + 1
    return starts, lines


def region(reg, index):
    starts, lines = index
    def off(line, col):
        return starts[line - 1] + len(lines[line - 1][:col - 1].encode("utf-8"))
    return (off(reg["startLine"], reg["startColumn"]), off(reg["endLine"], reg["endColumn"]))


# Fourth audit.  (a) The run is no longer always `--verbose --sarif-file <abs> <abs path>`: every run draws (seeded)
# the spelling of the paths (absolute; relative to cwd = the project directory; `./relative`), of every option
# (`-v` / `--verbose` / none, `-l` / `--level` with INFO / WARNING in several cases / none, `-s` / `--sarif-file`,
# `-c` / `--curve` with the three curves / none), the position of the options (before / after the files) and the
# layout (the file alone; a second named file before or after it; the file INCLUDED by a named main file and named
# as well - a file that is only included has its findings hidden by design, C03/C19).  (b) The rendered BODY of every
# displayed CS0005 / CS0013 diagnostic is read: the underlined ranges (`^^^` primary, `---` secondary) are converted to
# byte ranges of the source and judged by the same oracle as the SARIF results, and the label texts are compared with
# the SARIF messages of the same run; in non-verbose mode (no `[CS0005]` in the header) the finding is identified by
# its message, through the SARIF results of the same run.
SECOND_SRC = ("pragma circom 2.1.4;\ntemplate Second() {\n    signal input a;\n    signal output b;\n"
              "    b <-- a \\ 2;\n    b * 2 === a;\n}\n")
MAIN_INC = ('pragma circom 2.1.4;\ninclude "lib.circom";\ntemplate IncMain() {\n    signal input a;\n    signal output b;\n'
            '    b <== a;\n}\n')
CURVES = [["-c", "BN254"], ["--curve", "BLS12_381"], ["-c", "GOLDILOCKS"]]
# fallback only (non-verbose run whose SARIF holds no result with the displayed message)
MESSAGE_CODE = {"Using the signal assignment operator `<--` does not constrain the assigned signal.": "CS0005",
                "Using the signal assignment operator `<--` is not necessary here.": "CS0013"}


def second_expected():
    a, c = "b <-- a \\ 2", "b * 2 === a;"
    i, j = SECOND_SRC.index(a), SECOND_SRC.index(c)
    return [((i, i + len(a)), [(j, j + len(c))])]


def cli_variant(rng):
    return {"layout": rng.choice(["single", "single", "single", "second-file", "second-file-first", "included-both"]),
            "argv": rng.choice(["abs", "rel", "dotrel"]),
            "verbose": rng.choice([None, "-v", "--verbose"]),
            "level": rng.choice([None, ["-l", "INFO"], ["--level", "WARNING"], ["-l", "warning"], ["--level=info"], ["-l", "Info"]]),
            "sarif": rng.choice(["-s", "--sarif-file"]),
            "curve": rng.choice([None, None] + CURVES + [["--curve", "bls12_381"], ["-c", "goldilocks"]]),
            "options_last": rng.random() < 0.3}


def variant_name(var):
    return "%s, %s paths, %s, level %s, %s, curve %s%s" % (
        var["layout"], var["argv"], var["verbose"] or "not verbose", " ".join(var["level"]) if var["level"] else "default",
        var["sarif"], " ".join(var["curve"]) if var["curve"] else "default", ", options after the files" if var["options_last"] else "")


B_HEAD = re.compile(r"^(error|warning|note|help|bug)(?:\[([^\]]+)\])?: (.*)$")
B_LOC = re.compile(r"^\s*(?:\u250c\u2500|\u252c\u2500|\u251c\u2500) (.*):(\d+):(\d+)$")
B_NUM = re.compile(r"^\s*(\d+) \u2502(.*)$")
B_MARK = re.compile(r"^\s+\u2502(.*)$")


def read_bodies(text):
    """The displayed diagnostics with the UNDERLINED RANGES of their bodies: per diagnostic severity, code (None when
    the header shows none), message, the `file:line:col` headers, `runs` = [(line, start column, end column, "P"|"S")]
    (1-based character columns, end exclusive: `^^^` = primary, `---` = secondary, under the numbered source line
    they follow), `complex` = a label spanning several lines was drawn (its range is not read)."""
    out, cur, lineno = [], None, None
    for line in text.split("\n"):
        if line.startswith("circomspect: "):
            cur = None
            continue
        m = B_HEAD.match(line)
        if m:
            cur = {"severity": m.group(1), "code": m.group(2), "message": m.group(3), "loci": [], "runs": [], "complex": False}
            out.append(cur)
            lineno = None
            continue
        if cur is None:
            continue
        m = B_LOC.match(line)
        if m:
            cur["loci"].append((m.group(1), int(m.group(2)), int(m.group(3))))
            lineno = None
            continue
        m = B_NUM.match(line)
        if m:
            lineno = int(m.group(1))
            if m.group(2)[1:2] in ("\u256d", "\u2502", "\u2570"):
                cur["complex"] = True
            continue
        m = B_MARK.match(line)
        if not m or lineno is None:
            continue
        rest = m.group(1)
        if "\u256d" in rest or "\u2570" in rest:
            cur["complex"] = True
            continue
        marks = re.match(r"[ \u2502\^\-]*", rest).group(0)
        for r in re.finditer(r"\^+|-+", marks):
            # rest[0] is the blank after the gutter bar: the source's column 1 is rest[1]
            cur["runs"].append((lineno, r.start(), r.end(), "P" if r.group(0)[0] == "^" else "S"))
    return out


def run_cli(cli, workdir, idx, src, var, keep_dir=False):
    """One run of the binary.  Returns per named file (by base name) the CS0005 / CS0013 findings read from the SARIF
    file and - separately - from the rendered text, both as (code, [primary byte ranges], [secondary byte ranges])."""
    import e2e
    d = os.path.join(workdir, "e2e%d" % idx)
    os.makedirs(d, exist_ok=True)
    layout = var["layout"]
    own = "lib.circom" if layout == "included-both" else "main.circom"
    files, names = {own: src}, [own]
    if layout == "second-file":
        files["second.circom"], names = SECOND_SRC, [own, "second.circom"]
    elif layout == "second-file-first":
        files["second.circom"], names = SECOND_SRC, ["second.circom", own]
    elif layout == "included-both":
        files["main.circom"], names = MAIN_INC, ["main.circom", own]
    for n, t in files.items():
        with open(os.path.join(d, n), "w", encoding="utf-8") as f:
            f.write(t)
    if var["argv"] == "abs":
        argv, cwd, sarif = [os.path.join(d, n) for n in names], workdir, os.path.join(d, "out.sarif")
    elif var["argv"] == "rel":
        argv, cwd, sarif = list(names), d, "out.sarif"
    else:
        argv, cwd, sarif = ["./" + n for n in names], d, "./out.sarif"
    opts = ([var["verbose"]] if var["verbose"] else []) + (var["level"] or []) + [var["sarif"], sarif] + (var["curve"] or [])
    cmd = [cli] + (argv + opts if var["options_last"] else opts + argv)
    rc, out, err = common.sh(cmd, cwd=cwd, timeout=120, env=dict(os.environ, NO_COLOR="1"))
    index = {n: offsets(t) for n, t in files.items()}
    res = {"rc": rc, "cmd": " ".join(cmd[1:]), "cwd": cwd, "files": {n: {"sarif": [], "body": [], "labels_sarif": [], "labels_body": []}
                                                                      for n in files}, "problems": [], "complex": 0}
    msg_code = {}
    try:
        data = json.load(open(os.path.join(d, "out.sarif")))
        for r in data["runs"][0]["results"]:
            if r.get("ruleId") in ("CS0005", "CS0013"):
                msg_code[r["message"]["text"]] = r["ruleId"]
                uris = {l["physicalLocation"]["artifactLocation"]["uri"] for l in r.get("locations", []) + r.get("relatedLocations", [])}
                base = {os.path.basename(u) for u in uris}
                if len(base) != 1 or next(iter(base)) not in files:
                    res["problems"].append("SARIF result %s names the files %s" % (r["ruleId"], sorted(uris)))
                    continue
                n = next(iter(base))
                prim = [region(l["physicalLocation"]["region"], index[n]) for l in r.get("locations", [])]
                sec = sorted(region(l["physicalLocation"]["region"], index[n]) for l in r.get("relatedLocations", []))
                res["files"][n]["sarif"].append((r["ruleId"], prim, sec))
                strong = set(prim)
                res["files"][n]["labels_sarif"].append((r["ruleId"], sorted(
                    [["P", l.get("message", {}).get("text", "")] for l in r.get("locations", [])] +
                    [["P" if region(l["physicalLocation"]["region"], index[n]) in strong else "S", l.get("message", {}).get("text", "")]
                     for l in r.get("relatedLocations", [])])))
    except (OSError, ValueError, KeyError, IndexError) as e:
        return {"error": "no SARIF output: %r rc=%s cmd=%s cwd=%s %s" % (e, rc, " ".join(cmd[1:]), cwd, (out + err)[-300:])}
    text = out + err
    bodies = read_bodies(text)
    labelled = e2e.parse_bodies(text)
    if len(labelled) != len(bodies):
        res["problems"].append("the two readers of the rendered text count %d and %d diagnostics" % (len(bodies), len(labelled)))
        labelled = [None] * len(bodies)
    heads = 0
    for b, lb in zip(bodies, labelled):
        code = b["code"] or msg_code.get(b["message"]) or MESSAGE_CODE.get(b["message"])
        if bool(b["code"]) != bool(var["verbose"]):
            res["problems"].append("header `%s%s: ..` in a run %s --verbose" % (b["severity"], "[%s]" % b["code"] if b["code"] else "",
                                                                            "with" if var["verbose"] else "without"))
        if code not in ("CS0005", "CS0013"):
            continue
        heads += 1
        base = {os.path.basename(pth) for pth, _, _ in b["loci"]}
        if len(base) != 1 or next(iter(base)) not in files:
            res["problems"].append("displayed %s names the files %s" % (code, sorted(base)))
            continue
        n = next(iter(base))
        # (the tool displays the path it read the file from - absolute even when the command line was relative: observed,
        # counted, not judged; the findings are attributed to the named files by base name)
        if any(pth != dict(zip(names, argv)).get(n) for pth, _, _ in b["loci"]):
            res["displayed_path_differs_from_argv"] = res.get("displayed_path_differs_from_argv", 0) + 1
        if lb is not None:
            unread = [u for u in lb["unparsed"] if u.strip(" \u00b7")]      # `·` = lines left out of the snippet
            if unread:
                res["files"][n].setdefault("unread", []).append("lines of the rendered %s not understood: %s" % (code, unread[:2]))
            res["files"][n]["labels_body"].append((code, sorted(lb["labels"])))
        if b["complex"]:
            res["complex"] += 1
            res["files"][n]["body"] = None
            continue
        if res["files"][n]["body"] is None:
            continue
        def rg(run):
            return region({"startLine": run[0], "startColumn": run[1], "endLine": run[0], "endColumn": run[2]}, index[n])
        try:
            res["files"][n]["body"].append((code, [rg(r) for r in b["runs"] if r[3] == "P"], sorted(rg(r) for r in b["runs"] if r[3] == "S")))
        except IndexError:
            res["problems"].append("displayed %s underlines %s: outside the text of %s" % (code, b["runs"], n))
    res["heads"] = heads
    for n in files:
        res["files"][n]["sarif"].sort()
        if res["files"][n]["body"] is not None:
            res["files"][n]["body"].sort()
        res["files"][n]["labels_sarif"].sort()
        res["files"][n]["labels_body"].sort()
    res["own"] = own
    if not keep_dir:
        shutil.rmtree(d, ignore_errors=True)
    return res


def same_line_overlap(found, index):
    """Two labels of one finding on one source line (codespan then draws them on shared marker lines, overlapping
    ranges merged): the positions read from the rendered text are not judged for such a file, only counted."""
    starts, _ = index
    import bisect
    def line(off):
        return bisect.bisect_right(starts, off)
    for _, prim, sec in found:
        ls = [line(a) for a, _ in prim + sec]
        if len(ls) != len(set(ls)):
            return True
    return False


def judge_cli(res, wants, srcs, var):
    """-> (list of failure texts, counters).  `wants`: base name -> the oracle's [(anchor, secondaries)];
    `srcs`: base name -> text."""
    why, cnt = [], collections.Counter()
    for n, fr in res["files"].items():
        want = sorted(wants.get(n, []))
        w1 = oracle_want(want, {"reports": fr["sarif"]})
        if w1:
            why.append("SARIF, %s: %s" % (n, w1))
        cnt["findings_in_sarif"] += len(fr["sarif"])
        crowded = same_line_overlap(fr["sarif"], offsets(srcs[n])) or \
            same_line_overlap([("", [a], list(sx)) for a, sx in want], offsets(srcs[n]))
        if fr["body"] is None:
            cnt["files_with_a_label_over_several_lines_positions_not_read"] += 1
        elif crowded:
            cnt["files_with_two_labels_on_one_line_positions_not_judged"] += 1
        else:
            w2 = oracle_want(want, {"reports": fr["body"]})
            if w2:
                why.append("rendered text, %s (ranges underlined with ^^^ / ---): %s" % (n, w2))
            cnt["findings_whose_underlined_ranges_were_judged"] += len(fr["body"])
            cnt["secondary_underlines_judged"] += sum(len(sx) for _, _, sx in fr["body"])
        if crowded:
            # codespan merges / stacks labels that share a source line: only the primary label texts are compared
            prim = lambda ls: sorted((code, [l for l in labs if l[0] == "P"][:1]) for code, labs in ls)
            if prim(fr["labels_body"]) != prim(fr["labels_sarif"]):
                why.append("%s: the primary labels displayed %s are not those of the SARIF results %s"
                           % (n, prim(fr["labels_body"])[:3], prim(fr["labels_sarif"])[:3]))
            cnt["files_with_two_labels_on_one_line_secondary_label_texts_not_compared"] += 1
            continue
        why += fr.get("unread", [])
        if fr["labels_body"] != fr["labels_sarif"]:
            bad = next((a, b) for a, b in itertools.zip_longest(fr["labels_body"], fr["labels_sarif"]) if a != b)
            why.append("%s: the labels displayed (%d findings) are not the labels of the SARIF results (%d); first difference: displayed %s, SARIF %s"
                       % (n, len(fr["labels_body"]), len(fr["labels_sarif"]), bad[0], bad[1]))
        cnt["label_texts_compared"] += sum(len(l) for _, l in fr["labels_sarif"])
    nsarif = sum(len(fr["sarif"]) for fr in res["files"].values())
    if not why and res["heads"] != nsarif:
        why.append("the output shows %d CS0005/CS0013 diagnostics, SARIF has %d results" % (res["heads"], nsarif))
    why += res["problems"]
    return why, cnt


# ----------------------------------------------------------------------------
# the run
# ----------------------------------------------------------------------------

def load_corpus():
    out = []
    for p in sorted(glob.glob(os.path.join(common.VERIF, "corpus", "C08", "*.json"))):
        c = json.load(open(p))
        c["origin"] = os.path.relpath(p, common.VERIF)
        out.append(c)
    return out


def evaluate(cases, harness, model):
    lines = [c["src"].encode().hex() for c in cases]
    impl_lines = common.run_lines(harness, [], lines, shards=common.NPROC)
    model_lines = common.run_lines(model, [], impl_lines, shards=common.NPROC)
    return [parse_impl(l) for l in impl_lines], [parse_model(l) for l in model_lines]


SELFTEST_SRC = """pragma circom 2.1.4;
template S(n) {
    signal input x;
    signal output y;
    signal output a[3];
    if (n == 0) {
        y <-- x \\ 2;
    } else {
        y <-- x \\ 2;
    }
    for (var i = 0; i < 3; i++) {
        a[i] <-- x >> i;
    }
}
"""


def hypothesis_selftest(harness, model):
    """Do the hypothesis checks really evaluate the hypothesis?  The dump of a
    real cfg is edited so that one `<--` statement occurs twice (equal meta,
    signal, access, degree): the model must answer keys_distinct = false,
    sub-keys = false, and find one report less than there are statements; the
    Python re-computation must count a duplicate; the untouched dump must pass
    all of them.  Returns None or what went wrong."""
    line = common.run_lines(harness, [], [SELFTEST_SRC.encode().hex()])[0]
    x = sexp.parse(line)
    if x[0] != "file" or len(x[3]) != 1 or x[3][0][3][0] != "ok":
        return "self-test source not analysed: " + line[:200]
    clean = parse_impl(line)["defs"]["S"]
    mclean = parse_model(common.run_lines(model, [], [line])[0]).get("S", {})
    n, nd = clean["keys"]
    if (n, nd) != (3, 3) or mclean.get("keys") is not True or mclean.get("subkeys") is not True \
            or len(clean["reports"]) != 3 or mclean.get("raw") != clean["raw"]:
        return "untouched self-test cfg: python %s model %s reports %d" % ((n, nd), mclean, len(clean["reports"]))
    done = False
    for b in x[3][0][3][1][4][1:]:
        for i, st in enumerate(b[3]):
            if st[0] == "subst" and st[3] == "sig" and not done:
                b[3].insert(i, st)
                done = True
    if not done:
        return "no `sig` substitution in the self-test dump"
    bad = sexp.show(x)
    dirty = parse_impl(bad)["defs"]["S"]
    mdirty = parse_model(common.run_lines(model, [], [bad])[0]).get("S", {})
    n, nd = dirty["keys"]
    nrep = (mdirty.get("raw") or "").count("(r ")
    sk = dirty["subkeys"]
    if (n, nd) != (4, 3) or mdirty.get("keys") is not False or mdirty.get("subkeys") is not False \
            or len(sk) == len(set(sk)) or nrep != 3:
        return "cfg with a duplicated `<--` statement: python %s model %s (model reports: %d)" % ((n, nd), mdirty, nrep)
    return None


# The source whose SSA cfg is transcribed as Proofs.SignalAssignProofs.kf_cfg
# (theorem C08_keys_distinct_fails_on_lifted_source), and the dump it was transcribed from.
KF_SRC = "template D() {\n    signal input x;\n    signal (b, b) <-- (x % 2, x % 2);\n}\n"
KF_DUMP = ("(cfg template (params) (decls ((v 62 - -) sigint) ((v 62 30 -) sigint) ((v 78 - -) sigin)) (blocks (block 0 0 "
           "((decl (m 19 33 0) ((v 78 - -)) sigin ()) (decl (m 39 71 0) ((v 62 - -)) sigint ()) (decl (m 39 71 0) ((v 62 30 -)) "
           "sigint ()) (subst (m 39 71 0) (v 62 30 -) sig (infix mod (var (v 78 - -) (k - (d l l))) (num 2 (k (f 2) (d c c))) "
           "(k - (d n n))) - sigint) (subst (m 39 71 0) (v 62 30 -) sig (infix mod (var (v 78 - -) (k - (d l l))) (num 2 "
           "(k (f 2) (d c c))) (k - (d n n))) - sigint)) () ())))")
KF_REPORTS = "((r CS0005 ((m 39 71 0)) ()))"


def kf_witness(harness):
    """Is kf_cfg still the cfg the real front end builds for KF_SRC, and does the
    real pass still answer with the single report the theorem computes?"""
    x = sexp.parse(common.run_lines(harness, [], [KF_SRC.encode().hex()])[0])
    try:
        body = x[3][0][3]
        return {"dump_is_the_transcribed_cfg": sexp.show(body[1]) == KF_DUMP,
                "real_reports_are_the_theorems": sexp.show(body[2]) == KF_REPORTS}
    except (IndexError, TypeError):
        return {"dump_is_the_transcribed_cfg": False, "real_reports_are_the_theorems": False}


def run(ctx, proofs):
    harness = common.build_harness("sigassign")
    model = common.build_model("sigassign")
    cli = common.build_cli()
    quick = ctx.tier == "quick"
    corpus = load_corpus()
    # Round 6: every file is analysed in BOTH front-end modes - as written (no main component: ParseResult::Library,
    # TemplateLibrary::new) and with its ONE `component main = T(..);` appended (ParseResult::Program, ProgramArchive::new
    # -> Merger::add_definitions).  The two paths build the TemplateData records (parallel / custom flags!) at different
    # call sites.  The appended line moves no recorded range: the same ground truth judges both, and the findings of
    # every definition must be the same in both modes.
    nfiles = 2000 if quick else 12000

    def with_main(c):
        return dict(c, src=c["src"] + c["main_line"], origin=c["origin"] + " + `%s`" % c["main_line"].strip(),
                    mode="program", base_origin=c["origin"], base_src=c["src"])

    def batches():
        yield list(corpus) + [with_main(c) for c in corpus if c.get("main_line")]
        done = 0
        while done < nfiles:
            batch = []
            for _ in range(min(500, nfiles - done)):
                c = c08gen.generate(ctx.rng, size=ctx.rng.choice([3, 6, 10, 16]))
                c["origin"] = "generated #%d" % done
                done += 1
                batch.append(c)
                batch.append(with_main(c))
            yield batch

    by_mode = {}            # (origin of the library-mode file, definition) -> its findings there
    mode_cnt = collections.Counter()
    disagreements, failing, hyp_broken = [], [], []
    listed = {k["id"] for k in ctx.known}
    known_hits = collections.Counter()
    stats = collections.Counter()
    forms = collections.Counter()
    shapes = collections.Counter()
    nontrivial = set()
    e2e_pool = []
    sample = None
    lf_sources, lf_exempt = [], set()     # for the hypothesis of the C08_liftfull_* theorems, below
    ssa_ops = {}                          # (source, definition name) -> (start, end, op) of the sig / csig substitutions of the SSA cfg
    dropped = collections.Counter()       # everything this run leaves out of a comparison, by reason
    triples = ((c, im, mo) for batch in batches() for c, im, mo in zip(batch, *evaluate(batch, harness, model)))
    for c, im, mo in triples:
        is_prog = c.get("mode") == "program"
        if is_prog or c["origin"].startswith("corpus"):
            pass
        elif any(c08gen.known_classes(d) - {c08gen.PARTIAL_CLASS} for d in c["defs"]):
            dropped["file kept out of the CLI end-to-end pool: holds a known-finding shape (judged in process)"] += 1
        elif len(e2e_pool) < 4 * (96 if quick else 600):
            e2e_pool.append(c)
        if sample is None and c["origin"].startswith("generated") and not is_prog:
            sample = c
        if "bad" in im:
            failing.append({"input": c["src"], "origin": c["origin"], "impl": im["bad"], "spec": "the file is analysed"})
            continue
        stats["files"] += 1
        if im["parse_reports"]:
            stats["files_with_parse_reports"] += 1
        # the front-end mode the harness reports for this text
        want_mode = "program" if is_prog else ("library" if c.get("main_line") else None)
        mode_cnt["files analysed in %s mode" % im.get("mode")] += 1
        if want_mode and im.get("mode") != want_mode:
            if is_prog:
                mode_cnt["files with a main component that the front end read as a library (program archive failed)"] += 1
            else:
                failing.append({"input": c["src"], "origin": c["origin"], "why": "a file without main component is read in %s mode"
                                % im.get("mode"), "impl": im.get("mode"), "spec": None})
        if not is_prog:
            # (the lifting mirror is tied on the definitions once: the main line adds no definition)
            lf_sources.append((c["origin"], c["src"]))
            for defn in c["defs"]:
                if hypothesis_exempt(defn, listed):
                    lf_exempt.add((c["src"], defn["name"]))
        for defn in c["defs"]:
            name = defn["name"]
            got = im["defs"].get(name)
            stats["definitions"] += 1
            if got is None:
                dropped["definition written by the generator but absent from the front end's output "
                        "(a failure when it holds `<--`, otherwise only counted)"] += 1
                if c08gen.expected(defn):
                    failing.append({"input": c["src"], "origin": c["origin"], "definition": name,
                                    "impl": "definition dropped by the front end", "spec": c08gen.expected(defn)})
                continue
            # round 6: the same findings in both modes; parallel / custom templates with `<--` counted per mode
            if defn.get("header") and defn["assigns"] and "reports" in got and im.get("mode") in ("program", "library"):
                hd = defn["header"].strip()
                if hd != "template":
                    mode_cnt["in process, %s mode: `%s` definitions with `<--`" % (im["mode"], hd)] += 1
                    mode_cnt["in process, %s mode: `<--` statements in `%s` definitions" % (im["mode"], hd)] += len(defn["assigns"])
            if not is_prog:
                by_mode[(c["origin"], name)] = got.get("reports", got.get("liftfail"))
            elif (c["base_origin"], name) in by_mode:
                lib_found = by_mode.pop((c["base_origin"], name))
                prog_found = got.get("reports", got.get("liftfail"))
                mode_cnt["definitions compared between library and program mode"] += 1
                if lib_found != prog_found:
                    failing.append({"input": c["src"], "origin": c["origin"], "definition": name,
                                    "why": "the CS0005 / CS0013 findings of %s `%s` depend on the front-end mode: with the main component "
                                           "(program archive) %s, without it (template library) %s"
                                           % (defn.get("header", defn["kind"]).strip(), name, prog_found, lib_found),
                                    "impl": got.get("raw", got.get("liftfail")), "spec": c08gen.expected(defn),
                                    "library_mode_input": c["base_src"]})
            # correspondence model vs implementation
            mgot = mo.get(name, {})
            if "liftfail" not in got:
                stats["lifted"] += 1
                ssa_ops[(c["src"], name)] = got["ops"]
                if got["pass_panics"]:
                    stats["pass_panics"] += 1
                if mgot.get("raw") != got["raw"]:
                    disagreements.append({"input": c["src"], "origin": c["origin"], "definition": name,
                                          "impl": got["raw"], "model": mgot.get("raw")})
                n, nd = got["keys"]
                stats["assign_statements_in_cfgs"] += n
                stats["hypothesis_evaluations"] += 1
                exempt = hypothesis_exempt(defn, listed)
                if mgot.get("keys") is not (n == nd):
                    hyp_broken.append({"input": c["src"], "origin": c["origin"], "definition": name,
                                       "hypothesis": "keys_distinct (model and Python re-computation differ)",
                                       "model": mgot.get("keys"), "python": [n, nd]})
                elif n != nd and exempt and n - nd <= sum(k - 1 for k in c08gen.dup_groups(defn).values()):
                    stats["keys_not_distinct_in_known_class"] += 1
                elif n != nd:
                    hyp_broken.append({"input": c["src"], "origin": c["origin"], "definition": name,
                                       "hypothesis": "keys_distinct", "model": mgot.get("keys"), "python": [n, nd]})
                # the source side of the hypothesis: the written `<--` statements are the cfg's, and are distinct
                if defn["kind"] != "function" and "assigns" in defn:
                    sk = got["subkeys"]
                    if mgot.get("subkeys") is not None and mgot["subkeys"] is not (len(sk) == len(set(sk))):
                        hyp_broken.append({"input": c["src"], "origin": c["origin"], "definition": name,
                                           "hypothesis": "subkeys_distinct (model and Python re-computation differ)"})
                    why_s = statements_match(defn, got)
                    if why_s:
                        hyp_broken.append({"input": c["src"], "origin": c["origin"], "definition": name,
                                           "hypothesis": "source statements = cfg statements: " + why_s})
                    elif not source_keys_distinct(defn) and not exempt:
                        hyp_broken.append({"input": c["src"], "origin": c["origin"], "definition": name,
                                           "hypothesis": "two `<--` of the source agree in range, name and component path"})
                    else:
                        stats["source_statements_matched"] += len(sk)
                # the definition type the pass branches on, against the header the generator wrote
                if "header" in defn or defn["kind"] == "function":
                    wantk = "function" if defn["kind"] == "function" else defn["kind"]
                    stats["definition_types_checked"] += 1
                    if got["ckind"] != wantk:
                        failing.append({"input": c["src"], "origin": c["origin"], "definition": name,
                                        "why": "definition written as `%s` is lifted as a %s cfg (the early exit of the pass "
                                               "depends on it)" % (defn.get("header", "function").strip(), got["ckind"]),
                                        "impl": got["ckind"], "spec": wantk})
                if not mgot.get("ckeys", False):
                    hyp_broken.append({"input": c["src"], "origin": c["origin"], "definition": name,
                                       "hypothesis": "constraint_keys_distinct"})
            else:
                stats["liftfail"] += 1
            # the oracle
            why = oracle_def(defn, got)
            want = c08gen.expected(defn)
            stats["assignments_written"] += len(defn["assigns"])
            if defn["kind"] != "template" and defn["assigns"]:
                stats["assignments_in_function_or_custom"] += len(defn["assigns"])
            if defn.get("arrow_in_function"):
                stats["functions_with_arrow"] += 1
            for a in defn["assigns"]:
                forms[a["form"]] += 1
                if a.get("dup"):
                    shapes["same target in several branches: " + a["dup"]] += 1
                if defn["kind"] == "template":
                    for flag, label in (("tagged", "`<--` to a signal declared with tags"),
                                        ("index_signal", "`<--` to an element whose index holds a signal"),
                                        ("index_local", "`<--` to an element whose index holds a local variable"),
                                        ("idx_mention", "`S <-- e` followed by a constraint that mentions S only inside an index")):
                        if a.get(flag):
                            shapes[label] += 1
                    if a.get("partial"):
                        shapes["`<--` to a whole array" if a["partial"] == "whole" else "`<--` to a partially indexed array"] += 1
                    if a.get("rest") and "." in a["key"][1]:
                        shapes["`<--` to a whole / partially indexed array PORT of a component"] += 1
                    if a.get("partial_mention"):
                        shapes["`T <-- e` followed by a constraint that mentions T only through a %s access"
                               % {"extends": "longer", "prefix": "shorter", "prefix-of-element": "shorter"}[a["partial_mention"]]] += 1
                    if a["key"][0] == "q0":
                        shapes["`<--` to an element of a 3-dimensional signal"] += 1
                    if a["key"][0] == "cm":
                        shapes["`<--` to a port of a 2-dimensional component array"] += 1
            if defn["kind"] == "template":
                akeys = [a["key"] for a in defn["assigns"]]
                inner_only = sum(1 for con in defn["constraints"] for k in con.get("only_in_index", []) if k in akeys)
                if inner_only:
                    stats["secondaries_demanded_through_an_index_only"] += inner_only
                    shapes["constraint mentions the assigned signal only inside an index"] += 1
            part = c08gen.partial_assigns(defn)
            if part:
                stats["assignments_mentioned_through_a_longer_or_shorter_access_only"] += len(part)
                for a in part:
                    for con in defn["constraints"]:
                        if c08gen.partial_only(a["key"], con):
                            longer = any(m[0] == a["key"][0] and len(m[1]) > len(a["key"][1]) and c08gen.prefix_compatible(m[1], a["key"][1])
                                         for m in con["mentions"])
                            stats["secondaries_demanded_through_a_%s_access_only" % ("longer" if longer else "shorter")] += 1
            if "header" in defn:
                shapes["header `%s`" % defn["header"].strip()] += 1
                if defn["kind"] == "template" and defn.get("parallel"):
                    stats["findings_demanded_in_parallel_templates"] += len(want)
            if why:
                kf = known_class(defn, got, listed)
                if kf:
                    for k_id in kf:
                        known_hits[k_id] += 1
                else:
                    pc = c08gen.PARTIAL_CLASS in c08gen.known_classes(defn)
                    # is it exactly what comparing accesses with `==` produces (the deviation of 517e7a0), or something else?
                    eq_out = pc and known_class(defn, got, set(listed) | {KF_IDS[c08gen.PARTIAL_CLASS]}) is not None
                    if pc:
                        stats["partial_class_failures_equal_to_the_equality_output" if eq_out else
                              "partial_class_failures_NOT_equal_to_the_equality_output"] += 1
                    failing.append({"input": c["src"], "origin": c["origin"], "definition": name,
                                    "why": why + ("" if not pc else " [class partial-access-mention: the output is %s what equality "
                                                  "of accesses gives]" % ("exactly" if eq_out else "NOT")),
                                    "impl": got.get("raw", got.get("liftfail")), "spec": want,
                                    "partial_class": pc, "equality_output": eq_out})
            elif "reports" in got:
                by_anchor = collections.defaultdict(list)
                for code, prim, sec in got["reports"]:
                    stats[code] += 1
                    if sec:
                        stats["CS0005_with_secondaries"] += 1
                    by_anchor[prim[0]].append((code, min(len(set(sec)), 4)))
                akeys_io = {tuple(k) for con in defn["constraints"] for k in con.get("only_in_index", [])}
                pkeys = {tuple(a["key"]) for a in part} if defn["kind"] == "template" else set()
                for a in defn["assigns"]:
                    for code, nsec in by_anchor.get(tuple(a["anchor"]), []):
                        if code == "CS0005" and nsec and tuple(a["key"]) in pkeys:
                            stats["CS0005_with_secondary_through_longer_or_shorter_access_only"] += 1
                        if code == "CS0005" and nsec and a.get("rest"):
                            stats["CS0005_with_secondaries_for_array_valued_target"] += 1
                        if code == "CS0005" and nsec and tuple(a["key"]) in akeys_io and defn["kind"] == "template":
                            stats["CS0005_with_secondary_through_index_only"] += 1
                        if code == "CS0005" and nsec and a.get("tagged"):
                            stats["CS0005_tagged_with_secondaries"] += 1
                        nontrivial.add((a["form"], "[" in a["key"][1], "." in a["key"][1], "#" in a["key"][1], code, nsec,
                                        bool(a.get("tagged")), bool(a.get("index_signal")), bool(a.get("index_local"))))

    # The hypothesis of C08_liftfull_distinct_sources_distinct_subkeys - no two `<--` / `-->` statements of the
    # syntax tree handed to lifting carry the same meta - EVALUATED (Model.SigAssignSource.source_metas_distinct_b,
    # extracted into the liftfull driver) on every definition the real parser + desugarer produce for the sources of
    # this run.  It is legitimately unmet by declaration tuples / lists with `<--` (every element gets the
    # declaration's own Meta): there the CONCLUSION (subkeys_distinct of the lifted graph) is evaluated directly.
    # met & conclusion false = the theorem contradicted by the extracted code; unmet & conclusion false outside the
    # listed known-finding class = two `<--` statements agree in location, name and component path.
    lf = {"sources": len(lf_sources), "definitions": 0, "definitions_with_arrow": 0, "hypothesis_met": 0,
          "hypothesis_unmet": 0, "unmet_conclusion_evaluated_true": 0, "unmet_in_known_class": 0, "not_lifted": 0,
          "arrow_statements": 0}
    lf_rows, lf_status = liftfull_engine.flags_for_sources(common, lf_sources)
    lf["sources_without_definitions"] = dict(lf_status)
    if lf_status:
        # every source of this stage was analysed by the sigassign harness; the liftfull harness must read it too
        hyp_broken.append({"input": None, "origin": "liftfull stage", "definition": "-",
                           "hypothesis": "the liftfull harness gave no definition for %d source(s) the sigassign harness "
                                         "analysed: %s" % (sum(lf_status.values()), dict(lf_status))})
    lf_seen = set()
    lf_unmet_sample = None
    # Third audit.  (1) THE TIE of Model.LiftFull on C08's own definitions (the C08_liftfull_* and C08_source_to_ssa_*
    # theorems speak about that mirror; the stage of ./check C13 runs on C13's programs): the text the extracted
    # mirror prints for the desugared definition must be the text the harness prints for the REAL into_cfg.
    # (2) THE CONCLUSION of C08_ssa_keeps_operators / C08_ssa_keeps_signal_assignments on the REAL graphs: the
    # (location, operator) sequence of the `<--` / `<==` substitutions of the real graph before SSA (liftfull
    # harness) and of the real SSA graph (sigassign harness) are equal, definition by definition.
    tie = {"definitions_compared": 0, "disagreements": 0, "errors_compared_by_kind_only": 0, "first_disagreement": None,
           "flag_failures": 0, "first_flag_failure": None}
    ssa = {"definitions_compared": 0, "substitutions_compared": 0, "differences": 0, "no_graph_before_ssa": 0,
           "no_ssa_graph": 0, "first_difference": None}
    for row in lf_rows:
        if (row["src"], row["def"]) in lf_seen:
            dropped["liftfull row skipped: the same definition text of the same source seen before"] += 1
            continue
        lf_seen.add((row["src"], row["def"]))
        fl = row["flags"]
        lf["definitions"] += 1
        dname = row["def"].split(" ")[2] if row["def"].startswith("(def ") else "?"
        text, real = row["model"], row["impl"]
        if text.startswith("(panic) site "):
            text = "(panic)"
        if real.startswith("(err "):
            k_err = real[5:].split(" ", 1)[0].rstrip(")")
            if text == "(err %s)" % k_err and real.startswith("(err %s (rep " % k_err):
                tie["errors_compared_by_kind_only"] += 1     # as lib/props/liftfull_engine.run does (invalid-name)
                text = real
        tie["definitions_compared"] += 1
        if fl.get("WF") != "1" or (real.startswith("(ok ") and (fl.get("SK") != "1" or fl.get("PV") != "1")):
            tie["flag_failures"] += 1
            if tie["first_flag_failure"] is None:
                tie["first_flag_failure"] = {"origin": row["label"], "definition": dname, "src": row["src"], "flags": fl}
        if text != real:
            tie["disagreements"] += 1
            if tie["first_disagreement"] is None:
                i = liftfull_engine.first_difference(text, real)
                tie["first_disagreement"] = {"origin": row["label"], "definition": dname, "src": row["src"],
                                             "first_difference_at": i, "impl": real[max(0, i - 150):i + 250],
                                             "model": text[max(0, i - 150):i + 250]}
        pre = pre_ssa_signal_ops(real)
        post = ssa_ops.get((row["src"], dname))
        if pre is None:
            ssa["no_graph_before_ssa"] += 1
        elif post is None:
            ssa["no_ssa_graph"] += 1
        else:
            ssa["definitions_compared"] += 1
            ssa["substitutions_compared"] += len(pre)
            if pre != post:
                ssa["differences"] += 1
                if ssa["first_difference"] is None:
                    ssa["first_difference"] = {"origin": row["label"], "definition": dname, "src": row["src"],
                                               "before_ssa": pre[:12], "after_ssa": post[:12]}
        sd, skd, sn = fl.get("SD"), fl.get("SKD"), int(fl.get("SN", "0") or 0)
        if sd not in ("0", "1"):
            hyp_broken.append({"input": row["src"], "origin": row["label"], "definition": dname,
                               "hypothesis": "source_metas_distinct_b was not evaluated by the liftfull driver: " + row["model"][:120]})
            continue
        lf["arrow_statements"] += sn
        if sn:
            lf["definitions_with_arrow"] += 1
        if skd == "-":
            lf["not_lifted"] += 1
        if sd == "1":
            lf["hypothesis_met"] += 1
            if skd == "0":
                hyp_broken.append({"input": row["src"], "origin": row["label"], "definition": dname,
                                   "hypothesis": "C08_liftfull_distinct_sources_distinct_subkeys contradicted by the extracted "
                                                 "mirror: source metas distinct, subkeys of the lifted graph not"})
        else:
            lf["hypothesis_unmet"] += 1
            if lf_unmet_sample is None:
                lf_unmet_sample = {"origin": row["label"], "definition": dname, "src": row["src"][:600]}
            if skd == "1":
                lf["unmet_conclusion_evaluated_true"] += 1
            elif skd == "0" and (row["src"], dname) in lf_exempt:
                lf["unmet_in_known_class"] += 1
            elif skd == "0":
                hyp_broken.append({"input": row["src"], "origin": row["label"], "definition": dname,
                                   "hypothesis": "source metas of the `<--` statements not distinct AND subkeys_distinct of the "
                                                 "lifted graph false, outside the known-finding class"})
    lf["unmet_sample"] = lf_unmet_sample
    lf["mirror_vs_real_into_cfg"] = tie
    lf["operators_kept_by_real_into_ssa"] = ssa
    if tie["disagreements"]:
        # the source on which mirror and implementation differ IS the failing input of the correspondence
        d = tie["first_disagreement"]
        ctx.violation("stage liftfull on C08's own definitions: Model.LiftFull and the real into_cfg disagree on %d definition(s) "
                      "(the C08_liftfull_* / C08_source_to_ssa_* theorems speak about that mirror); first: %s definition %s"
                      % (tie["disagreements"], d["origin"], d["definition"]),
                      {"input": d["src"], "liftfull_src": d["src"], "impl": d["impl"],
                       "spec": "Model.LiftFull (extracted) prints: ..." + d["model"],
                       "broken": "correspondence liftfull (Model.LiftFull vs into_cfg)", "first": d})
    if tie["flag_failures"]:
        d = tie["first_flag_failure"]
        hyp_broken.append({"input": d["src"], "origin": d["origin"], "definition": d["definition"],
                           "hypothesis": "definition_wf / the proved equations SK, PV of Model.LiftFull evaluate to false on %d of "
                                         "C08's definitions: %s" % (tie["flag_failures"], d["flags"])})
    # ... and the reduced run of C13's stage itself (fixed shapes, corpus/C13/liftfull-*, a seeded sample, both modes):
    # reports its own violations, with the source as failing input
    lf_tie = liftfull_engine.require_tie(common, ctx, "C08", extra_sources=[])
    if ssa["differences"]:
        d = ssa["first_difference"]
        failing.append({"input": d["src"], "origin": d["origin"], "definition": d["definition"],
                        "why": "the real into_ssa does not keep the `<--` / `<==` substitutions of the graph it is given "
                               "(conclusion of C08_ssa_keeps_operators on the real graphs): before %s after %s"
                               % (d["before_ssa"], d["after_ssa"]),
                        "impl": d["after_ssa"], "spec": None})
    if ssa["definitions_compared"] == 0:
        hyp_broken.append({"input": None, "origin": "liftfull stage", "definition": "-",
                           "hypothesis": "degenerate: the graphs before and after SSA were compared on no definition"})
    if lf["definitions_with_arrow"] == 0 or lf["hypothesis_met"] == 0:
        hyp_broken.append({"input": None, "origin": "liftfull stage", "definition": "-",
                           "hypothesis": "degenerate: the hypothesis of the C08_liftfull theorems was evaluated on no definition "
                                         "with a `<--` statement"})

    # ... and the evaluation is itself tested: in the DEF of a one-`<--` template the substitution is written twice
    # (same meta, same name): the driver must answer hypothesis unmet AND conclusion false; the original: met and true
    st_rows, _ = liftfull_engine.flags_for_sources(common, [("self-test", LF_SELFTEST_SRC)])
    lf_self = "no definition"
    if st_rows:
        d0 = st_rows[0]["def"]
        sub = d0[d0.index("(sub @"):-2]
        d1 = d0[:-2] + " " + sub + "))"
        m1 = common.run_lines(common.build_model("liftfull"), [], [d1])[0]
        f0 = st_rows[0]["flags"]
        f1 = dict(x.split(" ", 1) for x in m1.split("\t")[1:] if " " in x)
        want0, want1 = {"SD": "1", "SN": "1", "SKD": "1"}, {"SD": "0", "SN": "2", "SKD": "0"}
        got0, got1 = {k: f0.get(k) for k in want0}, {k: f1.get(k) for k in want1}
        lf_self = None if (got0, got1) == (want0, want1) else "original %s (want %s), duplicated statement %s (want %s)" % (got0, want0, got1, want1)
    lf["selftest"] = lf_self or "passed: a `<--` statement written twice in a real DEF is flagged (hypothesis unmet, conclusion false)"
    if lf_self:
        hyp_broken.append({"input": LF_SELFTEST_SRC, "origin": "self-test", "definition": "S",
                           "hypothesis": "the evaluation of source_metas_distinct_b / subkeys_distinct_b in the liftfull driver is broken: " + lf_self})

    # the checks of the hypotheses are themselves checked on every run
    selftest = hypothesis_selftest(harness, model)
    if selftest:
        hyp_broken.append({"input": SELFTEST_SRC, "origin": "self-test", "definition": "S",
                           "hypothesis": "the evaluation of keys_distinct is broken: " + selftest})
    # the deliberate shapes must have been generated (not left to luck)
    required = ["header `template`", "header `template parallel`", "header `template custom`",
                "header `template custom parallel`", "same target in several branches: scalar",
                "same target in several branches: elem-loop", "same target in several branches: port",
                # third audit: each is the only witness of some edit outside signal_assignments.rs
                "`<--` to a signal declared with tags", "`<--` to an element whose index holds a signal",
                "`<--` to an element whose index holds a local variable",
                "`S <-- e` followed by a constraint that mentions S only inside an index",
                "constraint mentions the assigned signal only inside an index",
                "`<--` to an element of a 3-dimensional signal", "`<--` to a port of a 2-dimensional component array",
                # fourth audit: the only witnesses of an edit of the access comparison that differs on partial accesses alone
                "`<--` to a whole array", "`<--` to a partially indexed array",
                "`T <-- e` followed by a constraint that mentions T only through a longer access",
                "`T <-- e` followed by a constraint that mentions T only through a shorter access"]
    missing = [k for k in required if not shapes[k]]
    if not (stats["CS0005_with_secondary_through_longer_or_shorter_access_only"] or known_hits.get(KF_IDS[c08gen.PARTIAL_CLASS])
            or any(f.get("partial_class") for f in failing)):
        missing.append("a CS0005 finding judged (held, known finding, or failure) whose target is mentioned through a longer / shorter access only")
    if not stats["CS0005_with_secondaries_for_array_valued_target"] and not stats["CS0005_with_secondary_through_longer_or_shorter_access_only"] \
            and not known_hits.get(KF_IDS[c08gen.PARTIAL_CLASS]) and not failing:
        missing.append("a CS0005 finding with secondaries for a whole-array / partially indexed target")
    if not stats["findings_demanded_in_parallel_templates"]:
        missing.append("`<--` inside a parallel template")
    if not stats["CS0005_with_secondary_through_index_only"]:
        missing.append("a CS0005 finding one of whose secondaries mentions the signal only inside an index")
    if not stats["CS0005_tagged_with_secondaries"]:
        missing.append("a CS0005 finding with secondaries for a signal declared with tags")
    if missing:
        hyp_broken.append({"input": None, "origin": "generator", "definition": "-",
                           "hypothesis": "generator c08gen no longer writes the shapes %s" % missing})

    # end to end through the binary (fourth audit: seeded spellings of paths and options, layouts, the rendered body)
    ne2e = 64 if quick else 400          # each picked file is run twice (without / with its main component)
    pick = e2e_pool
    random.Random(ctx.seed).shuffle(pick)
    pick = [c for c in corpus if not any(c08gen.known_classes(d) - {c08gen.PARTIAL_CLASS} for d in c["defs"])] + pick[:ne2e]
    work = os.path.join(ctx.work, "e2e")
    shutil.rmtree(work, ignore_errors=True)
    os.makedirs(work, exist_ok=True)
    vrng = random.Random(ctx.seed * 7919 + 13)
    jobs = []
    axes = ("layout", "argv", "verbose", "level", "sarif", "curve")
    for i, c in enumerate(pick):
        var = cli_variant(vrng)
        if i < 3 * len(axes) * 2:
            # the first runs walk through every value of the three axes the reviewers named, whatever the seed draws
            forced = [("argv", "abs"), ("argv", "rel"), ("argv", "dotrel"), ("verbose", None), ("verbose", "-v"), ("verbose", "--verbose"),
                      ("layout", "single"), ("layout", "second-file"), ("layout", "second-file-first"), ("layout", "included-both"),
                      ("curve", CURVES[0]), ("curve", CURVES[1]), ("curve", CURVES[2]), ("curve", None),
                      ("level", None), ("level", ["-l", "INFO"]), ("level", ["--level", "WARNING"]), ("sarif", "-s"), ("sarif", "--sarif-file")]
            if i < len(forced):
                var[forced[i][0]] = forced[i][1]
        jobs.append((len(jobs), c, var, "main"))
        if c.get("main_line"):
            # the same file with its main component, same spellings: program mode through the binary
            jobs.append((len(jobs), with_main(c), var, "program"))
    nmain = len(jobs)
    # CS0005 / CS0013 must not depend on the curve: a subset of the files is run with each of the three curves,
    # everything else equal
    ncurve = 12 if quick else 60
    for c, var0 in [(j[1], j[2]) for j in [j for j in jobs if j[3] == "main"][-min(ncurve, len(pick)):]]:
        for cv in CURVES:
            jobs.append((len(jobs), c, dict(var0, curve=cv), "curve"))
    with concurrent.futures.ThreadPoolExecutor(max_workers=common.NPROC) as ex:
        e2e_res = list(ex.map(lambda t: run_cli(cli, work, t[0], t[1]["src"], t[2]), jobs))
    e2e_checked = 0
    e2e_cnt = collections.Counter()
    e2e_variants = collections.Counter()
    by_curve = collections.defaultdict(dict)
    cli_modes = collections.defaultdict(dict)
    partial_known = (c08gen.PARTIAL_CLASS,) if KF_IDS[c08gen.PARTIAL_CLASS] in listed else ()
    for (ji, c, var, kind), res in zip(jobs, e2e_res):
        vname = variant_name(var)
        if "error" in res:
            failing.append({"input": c["src"], "origin": c["origin"], "why": "CLI (%s): %s" % (vname, res["error"]), "impl": None,
                            "spec": None, "e2e": True, "variant": var})
            continue
        e2e_checked += 1
        if kind in ("main", "program"):
            md = "program" if kind == "program" else "library"
            for defn in c["defs"]:
                hd = (defn.get("header") or "").strip()
                if hd and hd != "template" and defn["assigns"]:
                    mode_cnt["CLI, %s mode: `%s` definitions with `<--`" % (md, hd)] += 1
            cli_modes[(c.get("base_origin", c["origin"]), json.dumps(var, sort_keys=True))][md] = (c, res)
        if kind == "main":
            for ax in axes:
                v = var[ax]
                e2e_variants["%s: %s" % (ax, " ".join(v) if isinstance(v, list) else v)] += 1
            if var["options_last"]:
                e2e_variants["options after the files"] += 1
        own = res["own"]
        want = []
        for defn in c["defs"]:
            want += c08gen.expected(defn)
        wants, srcs = {own: want}, {own: c["src"]}
        if "second.circom" in res["files"]:
            wants["second.circom"], srcs["second.circom"] = second_expected(), SECOND_SRC
        if var["layout"] == "included-both":
            wants["main.circom"], srcs["main.circom"] = [], MAIN_INC
        why, cnt = judge_cli(res, wants, srcs, var)
        kf_ids = None
        if why and partial_known and any(c08gen.PARTIAL_CLASS in c08gen.known_classes(d) for d in c["defs"]):
            # the listed known finding: the run must show exactly what that defect produces
            want_k = []
            for defn in c["defs"]:
                want_k += c08gen.expected(defn, known=partial_known)
            why_k, cnt_k = judge_cli(res, dict(wants, **{own: want_k}), srcs, var)
            if not why_k:
                why, cnt, kf_ids = [], cnt_k, [KF_IDS[c08gen.PARTIAL_CLASS]]
                known_hits[kf_ids[0]] += 1
                e2e_cnt["runs_showing_the_listed_known_finding"] += 1
        e2e_cnt.update(cnt)
        e2e_cnt["diagnostics_displayed_with_a_path_spelled_differently_from_the_command_line"] += res.get("displayed_path_differs_from_argv", 0)
        e2e_cnt["findings_displayed_not_verbose" if not var["verbose"] else "findings_displayed_verbose"] += res["heads"]
        if kind == "curve":
            by_curve[(id(c), json.dumps({k: v for k, v in var.items() if k != "curve"}, sort_keys=True))][var["curve"][1]] = \
                (c, {n: fr["sarif"] for n, fr in res["files"].items()}, var)
        if why:
            failing.append({"input": c["src"], "origin": c["origin"], "why": "end to end (CLI: %s; `circomspect %s` in %s): %s"
                            % (vname, res["cmd"], res["cwd"], "; ".join(why[:3])),
                            "impl": {n: {"sarif": fr["sarif"], "rendered": fr["body"]} for n, fr in res["files"].items()},
                            "spec": want, "e2e": True, "variant": var,
                            "partial_class": any(c08gen.PARTIAL_CLASS in c08gen.known_classes(d) for d in c["defs"])})
    for key, two in cli_modes.items():
        if len(two) == 2:
            (cl, rl), (cp, rp) = two["library"], two["program"]
            e2e_cnt["files_run_without_and_with_their_main_component"] += 1
            fl, fp = ({n: fr["sarif"] for n, fr in r["files"].items()} for r in (rl, rp))
            if fl != fp:
                failing.append({"input": cp["src"], "origin": cp["origin"], "why": "end to end (CLI: %s): the CS0005 / CS0013 findings "
                                "depend on the front-end mode: `circomspect %s` with the main component %s, without it %s"
                                % (variant_name(json.loads(key[1])), rp["cmd"], fp, fl),
                                "impl": fp, "spec": fl, "e2e": True, "variant": json.loads(key[1]), "library_mode_input": cl["src"]})
    for key, runs3 in by_curve.items():
        if len(runs3) == len(CURVES):
            e2e_cnt["files_run_with_all_three_curves"] += 1
            vals = [runs3[cv[1]][1] for cv in CURVES]
            if any(v != vals[0] for v in vals[1:]):
                c = runs3[CURVES[0][1]][0]
                failing.append({"input": c["src"], "origin": c["origin"], "why": "end to end (CLI): the CS0005 / CS0013 findings depend on "
                                "the curve: " + "; ".join("%s: %d" % (cv[1], sum(len(x) for x in runs3[cv[1]][1].values())) for cv in CURVES),
                                "impl": {cv[1]: runs3[cv[1]][1] for cv in CURVES}, "spec": "the same findings for every curve",
                                "e2e": True, "variant": runs3[CURVES[0][1]][2]})
    # the axes must all have been walked, and the body reader must have read something in both modes
    e2e_missing = [k for k in ["argv: abs", "argv: rel", "argv: dotrel", "verbose: None", "verbose: -v", "verbose: --verbose",
                               "layout: single", "layout: second-file", "layout: second-file-first", "layout: included-both",
                               "curve: -c BN254", "curve: --curve BLS12_381", "curve: -c GOLDILOCKS", "sarif: -s", "sarif: --sarif-file"]
                   if not e2e_variants[k]]
    for k in ("findings_displayed_not_verbose", "findings_displayed_verbose", "secondary_underlines_judged", "label_texts_compared",
              "files_run_with_all_three_curves"):
        if not e2e_cnt[k]:
            e2e_missing.append(k)
    for where in ("in process", "CLI"):
        for md in ("library", "program"):
            for hd in ("template parallel", "template custom", "template custom parallel"):
                k = "%s, %s mode: `%s` definitions with `<--`" % (where, md, hd)
                if not mode_cnt[k]:
                    e2e_missing.append(k)
    if not mode_cnt["definitions compared between library and program mode"] or not e2e_cnt["files_run_without_and_with_their_main_component"]:
        e2e_missing.append("no file was analysed both without and with its main component")
    if e2e_missing and not failing:
        hyp_broken.append({"input": None, "origin": "CLI stage", "definition": "-",
                           "hypothesis": "degenerate generator / CLI stage: never exercised / never read: %s" % e2e_missing})

    # known findings: their witnesses are corpus files (corpus/C08/K-*.json) and were replayed above
    for k in ctx.known:
        if known_hits.get(k["id"]):
            ctx.known_finding(k["id"], k["what"])

    # verdict (failures outside the partial-access class first: that class must not hide anything else)
    failing.sort(key=lambda f: (bool(f.get("partial_class")), bool(f.get("equality_output"))))
    for f in failing[:5]:
        ctx.violation("C08 fails on %s%s: %s" % (f["origin"], (" definition " + f["definition"]) if f.get("definition") else "",
                                                   f.get("why", f.get("impl"))), f)
    if not failing:
        if hyp_broken:
            h = hyp_broken[0]
            ctx.violation("a hypothesis of the C08 theorems (or its evaluation) fails: %s (%d cases, first: %s %s)"
                          % (h["hypothesis"], len(hyp_broken), h["origin"], h["definition"]),
                          {"broken": "hypothesis " + h["hypothesis"], "first": h, "count": len(hyp_broken)}, no_input=True)
        if disagreements:
            d = disagreements[0]
            ctx.violation("correspondence Model.SignalAssign.find_signal_assignments vs signal_assignments.rs broken "
                          "(%d definitions, first: %s %s impl=%s model=%s); the property held on every explored input"
                          % (len(disagreements), d["origin"], d["definition"], d["impl"][:200], str(d["model"])[:200]),
                          {"broken": "correspondence sigassign (Model.SignalAssign)", "first": d, "count": len(disagreements)},
                          no_input=True)
        elif proofs["failures"]:
            ctx.violation("proof obligations of C08 no longer check: " + "; ".join(proofs["failures"])[:500],
                          {"broken": "props/C08.v", "failures": proofs["failures"]}, no_input=True)

    if sample is None:
        sample = corpus[0]
    ctx.coverage.update({
        "evaluations": stats["definitions"],
        "distinct_nontrivial": len(nontrivial),
        "rule": "one evaluation = one definition (template / function / custom template) of a generated or corpus file, "
                "lifted by the real front end, analysed by the real passes, mirrored by the model and judged by the "
                "generator's ground truth; distinct-nontrivial counts the distinct combinations (syntactic form of the "
                "`<--`, target is an array element, target is a component port, index uses a loop variable, finding "
                "code, number of distinct secondaries capped at 4) among the judged assignments",
        "exhaustive": False,
        "files": stats["files"],
        "corpus_files": len(corpus),
        "definitions_lifted": stats["lifted"],
        "definitions_not_lifted": stats["liftfail"],
        "assignments_written_by_generator": stats["assignments_written"],
        "assignments_in_functions_or_custom_templates": stats["assignments_in_function_or_custom"],
        "functions_with_arrow": stats["functions_with_arrow"],
        "assign_statements_in_dumped_cfgs": stats["assign_statements_in_cfgs"],
        "findings": {"CS0005": stats["CS0005"], "CS0013": stats["CS0013"],
                     "CS0005_with_secondaries": stats["CS0005_with_secondaries"]},
        "forms_of_assignment": dict(forms),
        "deliberate_shapes": dict(shapes),
        "findings_demanded_in_parallel_templates": stats["findings_demanded_in_parallel_templates"],
        "definition_types_checked_against_header": stats["definition_types_checked"],
        "hypothesis_evaluations": stats["hypothesis_evaluations"],
        "liftfull_hypothesis": lf,
        "liftfull_tie": lf_tie,
        "findings_judged_for_new_shapes": {
            "CS0005 with a secondary that mentions the signal only inside an index": stats["CS0005_with_secondary_through_index_only"],
            "CS0005 with secondaries for a tagged signal": stats["CS0005_tagged_with_secondaries"],
            "secondaries demanded through an index only": stats["secondaries_demanded_through_an_index_only"],
            "CS0005 with a secondary that mentions the signal only through a longer / shorter access":
                stats["CS0005_with_secondary_through_longer_or_shorter_access_only"],
            "CS0005 with secondaries for a whole-array / partially indexed target": stats["CS0005_with_secondaries_for_array_valued_target"],
            "assignments mentioned through a longer / shorter access only": stats["assignments_mentioned_through_a_longer_or_shorter_access_only"],
            "secondaries demanded through a longer access only": stats["secondaries_demanded_through_a_longer_access_only"],
            "secondaries demanded through a shorter access only": stats["secondaries_demanded_through_a_shorter_access_only"]},
        "left_out_of_a_comparison": dict(dropped),
        "open_statements": [
            "constraint_keys_distinct (no two constraint statements of one SSA cfg compare equal) is a hypothesis of "
            "C08_sigassign_bijection that is evaluated on every dumped cfg, not derived from the source",
            "the step through SSA is proved for the statements' locations and operators (C08_ssa_keeps_operators, "
            "C08_source_to_ssa_signal_assignments, over Model.Ssa, tied to the real into_ssa by ./check C14 and, for the "
            "`<--` / `<==` substitutions, evaluated here on the real graphs before and after SSA); that SSA keeps the "
            "ACCESS of a `<--` target up to versions, and the declaration table the pass classifies uses with, is not "
            "stated in Coq (Model.Ssa returns no declaration table): the bijection theorem takes the SSA graph as it is dumped",
            "tuple / anonymous-component forms and `anchored at the call` are produced by the desugarer: covered by the "
            "generator's ground truth and C18's theorems, no C08 theorem speaks about the tree before desugaring",
            "claimed_quadratic (the degree claim that selects CS0013 vs CS0005) is the knowledge the degree pass attached: "
            "its meaning is C07 / C20",
        ],
        "source_statements_matched_with_cfg_statements": stats["source_statements_matched"],
        "keys_not_distinct_in_known_class": stats["keys_not_distinct_in_known_class"],
        "known_finding_witness_vs_coq_term": kf_witness(harness),
        "hypothesis_selftest": selftest or "passed: a duplicated `<--` statement in a real dump is flagged by model and Python",
        "pass_panics_other_passes": stats["pass_panics"],
        "e2e_cli_files": e2e_checked,
        "e2e_cli_variants": dict(e2e_variants),
        "front_end_modes": dict(mode_cnt),
        "e2e_cli_rendered_body": dict(e2e_cnt),
        "disagreements_model_vs_impl": len(disagreements),
        "hypothesis_violations": len(hyp_broken),
        "oracle_failures": len(failing),
        "oracle_failures_outside_the_partial_access_class": sum(1 for f in failing if not f.get("partial_class")),
        "partial_class_failures_in_process": {"exactly the output of equality of accesses": stats["partial_class_failures_equal_to_the_equality_output"],
                                              "something else": stats["partial_class_failures_NOT_equal_to_the_equality_output"]},
        "known_finding_hits": dict(known_hits),
        "samples": [{"origin": sample["origin"], "src": sample["src"][:1500],
                     "expected": [[d["name"], c08gen.expected(d)] for d in sample["defs"] if d["assigns"]][:3]}],
    })
    ctx.assumptions += [
        "keys_distinct / constraint_keys_distinct (no two `<--` statements, resp. constraint statements, of one SSA cfg "
        "compare equal under the Rust Eq of Assignment / Constraint) are hypotheses of the theorems; they are evaluated "
        "by the model and re-computed in Python on every dumped cfg (and the evaluation is itself tested on every run "
        "with a dump in which one statement is duplicated), not proved from the parser: keys_distinct is FALSE for "
        "`signal (b, b) <-- (e, e)` (known finding C08-decl-tuple-duplicate-name, theorem "
        "C08_keys_distinct_fails_on_lifted_source), so it cannot follow from distinct parser ranges alone; for the graph "
        "before SSA the content-carrying lifting mirror Model.LiftFull gives it from distinct source metas (C08_liftfull_*, "
        "C08_source_to_ssa_*); what is missing for a proof from the source text is the parser / desugarer side (distinct "
        "metas of the desugared statements) and the access of the target through SSA versioning",
        "the source-level form subkeys_distinct (location, base name, component path; proved to imply keys_distinct) is "
        "checked per definition against the generator's record of the `<--` it wrote: the `sig` substitutions of the "
        "cfg are exactly the written statements (multiset equality) and the written ones are pairwise distinct",
        "the definition type of the cfg (template / custom / function), on which the early exit of the pass depends, is "
        "read from the dump by the model and compared with the header the generator wrote (`template`, `template "
        "parallel`, `template custom`, `template custom parallel`) by the check",
        "the type knowledge of expression nodes is not part of the dump; the model recomputes it as propagate_types does "
        "(declared type of the unversioned name); agreement is observed through the reports",
        "HashSet iteration order only permutes reports and secondary labels; both sides are sorted before comparison",
        "templates whose CFG/SSA construction fails are not analysed at all (C02/C18 territory); the theorems speak "
        "about cfgs that exist",
        "'constraint statements mentioning the assigned signal' is read as (fourth audit): the statement's text contains "
        "a reference with the same variable name whose access is PREFIX-COMPATIBLE with the access of the assignment "
        "target - equal, a proper extension of it (an element / sub-array of the assigned array: `q0[1] <-- ..` and "
        "`q0[1][0] === x`) or a proper prefix of it (an array that contains the assigned signal: `q0[1] <-- ..` and `q0 "
        "=== [[..]]`) - anywhere: operand, left-hand side, or inside an index expression of another reference (`t[s] === "
        "y` mentions s); access components are compared as written texts (`q0[0][0]` does not mention `q0[1]`; `a0[i]` "
        "and `a0[0]` are different texts); on fully indexed references this is the old rule (equal name, equal access). "
        "The generator records occurrences of the text it writes, it never asks the implementation what it read (DESIGN "
        "5.3); index expressions hold constants, loop variables and locals that are never reassigned, signals and `SIGNAL "
        "+ 1`, so textual and IR equality coincide.  Since /repo 4f017e8 + 96648cc the pass implements this reading, and the Coq "
        "specification states it (Spec.SigAssignSpec.same_use = prefix-compatible accesses; update_mentions for a "
        "constraint assignment `v[t] <== e`: target, e and the index expressions of t, not the whole-variable read of the "
        "Update node); the old reading 'same name and equal access' (DESIGN 5.3) is withdrawn.  The class "
        "`partial-access-mention` (c08gen) and the id C08-partial-access-mention are kept INERT (nothing is listed as "
        "known): a definition of that class is judged by the rule like any other",
        "CLI stage (fourth audit): path spellings (absolute / relative to cwd / `./relative`), option spellings (`-v`, "
        "`--verbose`, none; `-l` / `--level`; `-s` / `--sarif-file`; `-c` / `--curve`), option position and layout "
        "(single file, a second named file, the file included by a named main file and named itself) are drawn per run "
        "from the seed; a file that is ONLY included is not run (its findings are hidden by design: C03 / C19); `--level "
        "ERROR` (which hides every warning) is not run; the rendered body is read for labels drawn on one line each - a "
        "finding with a label over several lines or two labels on one source line has only its label texts compared "
        "(counted in coverage.e2e_cli_rendered_body); the tool displays the path it read the file from, not the "
        "spelling of the command line (observed, counted, not judged)",
        "hypotheses of the theorems through SSA (C08_ssa_keeps_operators, C08_ssa_keeps_signal_assignments, "
        "C08_source_to_ssa_signal_assignments): `Model.Ssa.into_ssa frontier children c = SOk c'` and `c_blocks g = "
        "c_blocks c'` relate the mirror's output to the dumped real SSA graph; they are NOT evaluated by this check "
        "(./check C14 runs Model.Ssa on the real graphs with the real tables and compares); what this check evaluates "
        "instead is their CONCLUSION on the real graphs: the (location, operator) sequence of the `<--` / `<==` "
        "substitutions before SSA (liftfull harness) and after SSA (sigassign harness) are equal on every definition "
        "(coverage liftfull_hypothesis.operators_kept_by_real_into_ssa)",
        "Model.LiftFull is tied to the real into_cfg inside this check: on every definition of the run's own sources "
        "(coverage liftfull_hypothesis.mirror_vs_real_into_cfg, desugared mode) and by the reduced run of C13's stage "
        "(coverage liftfull_tie: fixed shapes, corpus, seeded sample, both modes); a disagreement is a violation with "
        "the source as failing input",
        "type_meta.rs `TypeKnowledge::is_signal` is not read by the pass or by cache_variable_use (they match on "
        "variable_type() directly): an edit there cannot change a CS0005 / CS0013 finding and is not C08's to catch",
    ]


def replay(ctx, rep):
    harness = common.build_harness("sigassign")
    model = common.build_model("sigassign")
    if rep.get("liftfull_src"):
        return liftfull_engine.replay_tie(common, rep)
    src = rep.get("input")
    if not src:
        print("replay names a broken obligation, not an input:", rep.get("broken"))
        first = rep.get("first") or {}
        src = first.get("input")
        if not src:
            return 1
    case = {"src": src, "defs": []}
    impls, models = evaluate([case], harness, model)
    print("source:\n" + src)
    rc = 0
    for name, got in sorted(impls[0]["defs"].items()):
        print("definition %s (%s):" % (name, got["kind"]))
        print("  implementation:", got.get("raw", "liftfail " + str(got.get("liftfail"))))
        print("  model         :", models[0].get(name, {}).get("raw"))
        if "raw" in got and models[0].get(name, {}).get("raw") != got["raw"]:
            rc = 1
    if rep.get("e2e") and rep.get("variant") and rep.get("spec") is not None:
        # the run of the binary itself, with the spellings / layout of the recorded variant
        var = rep["variant"]
        work = os.path.join(ctx.work, "replay-e2e")
        shutil.rmtree(work, ignore_errors=True)
        os.makedirs(work, exist_ok=True)
        res = run_cli(common.build_cli(), work, 0, src, var, keep_dir=True)
        if "error" in res:
            print("CLI:", res["error"])
            return 1
        own = res["own"]
        wants, srcs = {own: [(tuple(a), [tuple(x) for x in secs]) for a, secs in rep["spec"]]}, {own: src}
        if "second.circom" in res["files"]:
            wants["second.circom"], srcs["second.circom"] = second_expected(), SECOND_SRC
        if var["layout"] == "included-both":
            wants["main.circom"], srcs["main.circom"] = [], MAIN_INC
        why, _ = judge_cli(res, wants, srcs, var)
        print("CLI run (%s): `circomspect %s` in %s (files kept in %s)" % (variant_name(var), res["cmd"], res["cwd"], work))
        for n, fr in sorted(res["files"].items()):
            print("  %s: SARIF findings %s" % (n, fr["sarif"]))
            print("  %s: ranges underlined in the rendered text %s" % (n, fr["body"]))
        print("now:", "; ".join(why) or "holds")
        rc = 1 if why else rc
    if rep.get("spec") is not None:
        print("ground truth (anchor, constraint ranges):", rep.get("spec"))
        print("failure:", rep.get("why"))
        name = rep.get("definition")
        if name and name in impls[0]["defs"] and not rep.get("e2e"):
            why = oracle_want([(tuple(a), [tuple(s) for s in secs]) for a, secs in rep["spec"]], impls[0]["defs"][name])
            print("now:", why or "holds")
            rc = 1 if why else rc
    return rc
