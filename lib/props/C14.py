"""C14 — SSA validity. The verified validator SsaCheck.ssa_check is run on the
implementation's real SSA graph (with the implementation's own dominator tree
as an untrusted certificate) for every generated definition; an independent
Python path walk (bounded loop unrolling) is the violation-search oracle."""
import json
import os
import common
import proggen
import propeng
import sexp
import ssacanon


def key(v):
    return (v[1], v[2])


def reads(e, out):
    t = e[0]
    if t == "var":
        out.append(e[1])
    elif t == "infix":
        reads(e[2], out); reads(e[3], out)
    elif t == "prefix":
        reads(e[2], out)
    elif t == "switch":
        reads(e[1], out); reads(e[2], out); reads(e[3], out)
    elif t in ("call",):
        for x in e[2]:
            reads(x, out)
    elif t == "array":
        for x in e[1]:
            reads(x, out)
    elif t == "access":
        out.append(e[1])
        for a in e[2]:
            if a[0] == "idx":
                reads(a[1], out)
    elif t == "update":
        out.append(e[1])
        reads(e[3], out)
        for a in e[2]:
            if a[0] == "idx":
                reads(a[1], out)


def stmt_reads(s):
    out = []
    t = s[0]
    if t == "decl":
        for d in s[4]:
            reads(d, out)
    elif t in ("if", "ret", "assert"):
        reads(s[2], out)
    elif t == "subst":
        if s[4][0] != "phi":
            reads(s[4], out)
    elif t == "ceq":
        reads(s[2], out); reads(s[3], out)
    elif t == "log":
        for a in s[2]:
            if a[0] == "e":
                reads(a[1], out)
    return out


def static_checks(ssa):
    """unique definitions, phis at block heads, versions declared, signals unversioned."""
    problems = []
    decl = {tuple(d[0][1:4]): d[1] for d in ssa[3][1:]}
    # the keys (name, suffix) of the locals: a declared version of a local, or a parameter
    local_keys = set(tuple(d[0][1:3]) for d in ssa[3][1:] if d[1] == "local" and d[0][3] != "-") | set(tuple(q[1:3]) for q in ssa[2][1:])
    defs = {}
    # "every version is covered by a declaration": by the declaration TABLE (checked per occurrence below) and by the
    # re-issued Declaration STATEMENTS: every versioned name that occurs is listed by a declaration statement of the
    # graph, or is a version of a parameter (parameters have no declaration statement)
    stmt_declared = set(tuple(n[1:4]) for b in ssa[4][1:] for s in b[3] if s[0] == "decl" for n in s[2])
    param_keys = set(tuple(q[1:3]) for q in ssa[2][1:])
    for b in ssa[4][1:]:
        head = True
        for s in b[3]:
            isphi = s[0] == "subst" and s[4][0] == "phi"
            if isphi and not head:
                problems.append("phi statement after the head of block %s" % b[1])
            if not isphi:
                head = False
            if s[0] == "subst" and s[2][3] != "-":
                k = tuple(s[2][1:4])
                if k in defs:
                    problems.append("two defining statements for %s" % (k,))
                defs[k] = True
            # a read (phi arguments apart: the unversioned name there records a path on which the variable is still
            # unassigned) or an assignment of a local must name a version
            for v in stmt_reads(s) + ([s[2]] if s[0] == "subst" else []):
                if v[3] == "-" and tuple(v[1:3]) in local_keys:
                    problems.append("block %s: the local variable %s is %s without a version (statement kind %s)"
                                    % (b[1], sexp.unhex(v[1]), "assigned" if (s[0] == "subst" and v is s[2]) else "read", s[0]))
            occ = stmt_reads(s) + ([s[2]] + (s[4][1] if isphi else []) if s[0] == "subst" else []) + (s[2] if s[0] == "decl" else [])
            for v in occ:
                k = tuple(v[1:4])
                if v[3] != "-" and k not in stmt_declared and tuple(v[1:3]) not in param_keys:
                    problems.append("versioned name %s.%s is listed by no declaration statement of the graph" % (sexp.unhex(v[1]), v[3]))
                if v[3] != "-":
                    if decl.get(k) != "local":
                        problems.append("versioned name %s is not a declared local" % (k,))
                elif decl.get(k) == "local":
                    problems.append("local %s is read or written without a version" % (k,))
    return problems


def walk_paths(ssa, max_visits=3, max_paths=400):
    """Walks paths from the entry (each block at most max_visits times per path),
    tracking the most recently assigned version per key."""
    blocks = ssa[4][1:]
    params = {key(p): p[3] for p in ssa[2][1:]}
    problems = []
    count = [0]
    all_targets = set(tuple(s[2][1:4]) for b in blocks for s in b[3] if s[0] == "subst")
    arrivals = {}      # (block, key of the phi) -> versions that arrived along the walked edges ("-": none yet)

    def go(b, L, visits, prev):
        if problems or count[0] > max_paths:
            return
        blk = blocks[b]
        L = dict(L)
        new = {}
        for s in blk[3]:
            if s[0] == "subst" and s[4][0] == "phi":
                k = key(s[2])
                cur = L.get(k)
                arrivals.setdefault((b, k), set()).add(cur if cur is not None else "-")
                if cur is not None and not any(key(a) == k and a[3] == cur for a in s[4][1]):
                    problems.append("edge %s->%s: running version %s of %s is not an argument of its phi" % (prev, b, cur, sexp.unhex(k[0])))
                new[k] = s[2][3]
            else:
                break
        L.update(new)
        for s in blk[3]:
            if s[0] == "subst" and s[4][0] == "phi":
                continue
            upd_base = tuple(s[4][1][1:4]) if (s[0] == "subst" and s[4][0] == "update") else None
            for v in stmt_reads(s):
                if v[3] != "-":
                    cur = L.get(key(v))
                    if cur is None and upd_base == tuple(v[1:4]):
                        # the first element-wise update of a never-assigned array reads a fresh version: no statement may define it
                        if upd_base in all_targets:
                            problems.append("block %s: the base %s.%s of the first element-wise update (no version is running there) is defined by a statement of the graph"
                                            % (b, sexp.unhex(v[1]), v[3]))
                        continue
                    if cur != v[3]:
                        problems.append("block %s: read of %s.%s but the most recent assignment on the path is version %s"
                                        % (b, sexp.unhex(v[1]), v[3], cur))
            if s[0] == "subst" and s[2][3] != "-":
                L[key(s[2])] = s[2][3]
        succ = [int(x) for x in blk[5]]
        if not succ:
            count[0] += 1
        for s in succ:
            if visits.get(s, 0) < max_visits:
                v2 = dict(visits)
                v2[s] = v2.get(s, 0) + 1
                go(s, L, v2, b)

    go(0, params, {0: 1}, None)
    if not problems and count[0] <= max_paths:
        # every argument of a phi is the version that arrives along some edge (the walk was not cut: every edge was taken)
        for bi, blk in enumerate(blocks):
            for s in blk[3]:
                if not (s[0] == "subst" and s[4][0] == "phi"):
                    break
                k = key(s[2])
                seen = arrivals.get((bi, k))
                if seen is None:
                    continue           # block not reached by the walk
                args = [a[3] for a in s[4][1]]
                if any(key(a) != k for a in s[4][1]):
                    problems.append("block %s: a phi for %s has an argument of another variable" % (bi, sexp.unhex(k[0])))
                elif len(set(args)) != len(args):
                    problems.append("block %s: the phi for %s lists an argument twice" % (bi, sexp.unhex(k[0])))
                else:
                    extra = [a for a in args if a not in seen]
                    if extra:
                        problems.append("block %s: argument(s) %s of the phi for %s arrive along no edge into the block (arriving: %s)"
                                        % (bi, ", ".join(extra), sexp.unhex(k[0]), ", ".join(sorted(seen))))
    return problems, count[0]


def erase_ok(pre, ssa):
    """SSA = the original statements with versions added and phis prepended."""
    def strip(x):
        if isinstance(x, list):
            if x and x[0] == "v" and len(x) == 4:
                return ["v", x[1], x[2], "-"]
            if x and x[0] == "k":
                return "k"
            if x and x[0] == "decl":
                return ["decl", x[1], sorted(set(sexp.show(strip(n)) for n in x[2])), x[3], [strip(d) for d in x[4]]]
            return [strip(y) for y in x]
        return x
    for bp, bs in zip(pre[4][1:], ssa[4][1:]):
        body = [s for s in bs[3] if not (s[0] == "subst" and s[4][0] == "phi")]
        if len(body) != len(bp[3]):
            return False
        for a, b in zip(bp[3], body):
            sa, sb = strip(a), strip(b)
            if sa[0] == "subst":
                sa, sb = sa[:5], sb[:5]
            if sa != sb:
                return False
        if bp[4] != bs[4] or bp[5] != bs[5]:
            return False
    return len(pre[4]) == len(ssa[4])


OWN_FEATURES = {
    "shadowed_name": "a local re-declared in a nested scope (internal suffix)",
    "array_updated_element_wise": "an element-wise update of an array",
    "variable_assigned_in_one_branch_only": "a phi one of whose arguments is the version from before the branch (or the unversioned name)",
    "nested_loops": "a block of loop depth >= 2",
    "reassigned_parameter": "an assignment to a parameter",
    "phi_statement": "a phi statement",
}


def own_features(pre, ssa):
    """C14's own classes of the quantifier text, counted on the dumps of one definition."""
    out = set()
    params = set((q[1], q[2]) for q in pre[2][1:])
    if any(d[0][2] != "-" for d in ssa[3][1:]):
        out.add("shadowed_name")
    for b in ssa[4][1:]:
        if int(b[2]) >= 2:
            out.add("nested_loops")
        for s in b[3]:
            if s[0] == "subst":
                if s[4][0] == "update":
                    out.add("array_updated_element_wise")
                if (s[2][1], s[2][2]) in params and s[4][0] != "phi":
                    out.add("reassigned_parameter")
                if s[4][0] == "phi":
                    out.add("phi_statement")
                    if len(b[4]) == 2 and len(s[4][1]) == 2 and any(a[3] == "-" for a in s[4][1]):
                        out.add("variable_assigned_in_one_branch_only")
    # assigned in one branch only: a join whose phi takes the version that was current at the branch
    defs_block = {}
    for b in ssa[4][1:]:
        for s in b[3]:
            if s[0] == "subst" and s[2][3] != "-":
                defs_block[tuple(s[2][1:4])] = int(b[1])
    for b in ssa[4][1:]:
        for s in b[3]:
            if s[0] == "subst" and s[4][0] == "phi" and len(b[4]) == 2:
                if any(defs_block.get(tuple(a[1:4])) is not None and defs_block[tuple(a[1:4])] not in [int(q) for q in b[4]] and defs_block[tuple(a[1:4])] < int(b[1]) for a in s[4][1]):
                    out.add("variable_assigned_in_one_branch_only")
    return out


def run(ctx, proofs):
    H = common.build_harness("ir")
    M = common.build_model("ir")
    n = 2500 if ctx.tier == "quick" else 40000
    progs = propeng.programs(ctx.rng, n, ("C14", "C10", "C06"))
    impl = propeng.lift_all(H, progs, [("0", "0")])
    lines, keys = [], []
    elines = []
    hlines = []
    mlines, mkeys = [], []
    status = {}
    failing, shapes = [], set()
    features = {}
    paths = 0
    capped = 0
    for (i, kv, kd), o in impl.items():
        tag = o.split(" ", 1)[0].strip("()")
        status[tag] = status.get(tag, 0) + 1
        if tag == "panic":
            failing.append({"input": progs[i][1], "impl": o[:200], "spec": "SSA conversion completes or reports an error"})
        if tag == "ssaerr":
            x = sexp.parse(o)
            mlines.append("ssa %s %s" % (sexp.show(x[1]), sexp.show(x[2])))
            mkeys.append((i, None))
        if tag != "ok":
            continue
        x = sexp.parse(o)
        propeng.features_of(x[1], features, None, proggen.PRIMES[progs[i][0]], progs[i][1])
        for f in own_features(x[1], x[2]):
            features[f] = features.get(f, 0) + 1
        mlines.append("ssa %s %s" % (sexp.show(x[1]), sexp.show(x[4])))
        mkeys.append((i, x[2]))
        lines.append("ssacheck %s %s" % (sexp.show(x[2]), sexp.show(x[3])))
        keys.append(i)
        elines.append("erasecheck %s %s" % (sexp.show(x[1]), sexp.show(x[2])))
        hlines.append("ssapre %s %s" % (sexp.show(x[1]), sexp.show(x[4])))
        probs = static_checks(x[2])
        wp, cnt = walk_paths(x[2])
        paths += cnt
        capped += cnt > 400
        probs += wp
        if not erase_ok(x[1], x[2]):
            probs.append("erasing versions and phis does not give back the original statements")
        nphi = sum(1 for b in x[2][4][1:] for s in b[3] if s[0] == "subst" and s[4][0] == "phi")
        shapes.add((len(x[2][4]) - 1, nphi, len(x[2][3]) - 1))
        if probs:
            failing.append({"input": progs[i][1], "impl": "SSA graph: " + sexp.show(x[2])[:1500], "spec": probs[0], "all": probs[:5]})
    outs = common.run_lines(M, [], lines, shards=common.NPROC, timeout=1200) if lines else []
    invalid = [progs[i][1] for i, o in zip(keys, outs) if o != "(valid)"]
    invalid_answers = sorted(set(o for o in outs if o != "(valid)"))
    # fourth audit: mutated REAL dumps that SsaCheck.ssa_check alone accepted although they violate the text of C14
    # (corpus/C14/rejected/*.json, made from the reviewer's scripts): the driver must reject each, and accept its
    # unmutated original (so that a change of the dump format cannot turn the witnesses into trivially rejected lines)
    wdir = os.path.join(common.VERIF, "corpus", "C14", "rejected")
    wit = [json.load(open(os.path.join(wdir, f))) for f in sorted(os.listdir(wdir)) if f.endswith(".json")] if os.path.isdir(wdir) else []
    wouts = common.run_lines(M, [], [w["original"] for w in wit] + [w["line"] for w in wit], timeout=600) if wit else []
    wit_bad = [{"witness": w["id"], "mutation": w["mutation"], "original_answer": a, "mutant_answer": b}
               for w, a, b in zip(wit, wouts[:len(wit)], wouts[len(wit):]) if a != "(valid)" or b == "(valid)" or b == "(badline)"]
    # the Coq erasure validator SsaErase.erase_check on the real graphs before and after conversion
    eouts = common.run_lines(M, [], elines, shards=common.NPROC, timeout=1200) if elines else []
    for i, o in zip(keys, eouts):
        if o != "(erasure)":
            failing.append({"input": progs[i][1], "impl": "SsaErase.erase_check answers %s on the graphs before / after SSA conversion" % o,
                            "spec": "the SSA graph is the original graph with versions added and phi statements prepended"})
    # the hypotheses of the construction theorems (C14_construction_*), on the real graph before conversion and the real children table
    houts = common.run_lines(M, [], hlines, shards=common.NPROC, timeout=1200) if hlines else []
    hyp_bad = [{"input": progs[i][1], "answer": o} for i, o in zip(keys, houts) if o != "(pre-ssa-ok)"]
    # the construction mirror Model.Ssa.into_ssa vs the implementation, modulo hash-order effects
    mouts = common.run_lines(M, [], mlines, shards=common.NPROC, timeout=1200) if mlines else []
    disagreements = []
    for (i, real), o in zip(mkeys, mouts):
        if real is None:
            if o != "(ssaerr)":
                disagreements.append({"input": progs[i][1], "impl": "(ssaerr)", "model": o[:200]})
        elif not o.startswith("(cfg"):
            disagreements.append({"input": progs[i][1], "impl": "converts", "model": o[:200]})
        elif ssacanon.canon(sexp.strip_knowledge(real)) != ssacanon.canon(sexp.parse(o)):
            disagreements.append({"input": progs[i][1], "impl": sexp.show(ssacanon.canon(sexp.strip_knowledge(real)))[:600],
                                  "model": sexp.show(ssacanon.canon(sexp.parse(o)))[:600]})
    for f in failing[:5]:
        ctx.violation("SSA form violates C14: " + f["spec"], f)
    # Each of these is reported whatever else failed (fourth audit: they used to be an elif chain, each shown only when the
    # ones before were empty); the source text of the first definition concerned is in the record.
    if invalid:
        ctx.violation("the verified validator (ssa_check / unversioned_reads_ok / ssa_strict) rejects the implementation's SSA graph (%d definitions%s)"
                      % (len(invalid), "" if failing else "; the path walk found no disagreeing read"),
                      {"broken": "validation of the implementation's SSA output by SsaCheck.ssa_check", "first": invalid[0], "first_source": invalid[0], "answers": invalid_answers}, no_input=True)
    if disagreements:
        ctx.violation("correspondence Model.Ssa.into_ssa vs Cfg::into_ssa broken (%d definitions)%s" % (len(disagreements), "" if (failing or invalid) else
                      "; the SSA graphs themselves passed the validator and the path walk"),
                      {"broken": "correspondence ssa (Model.Ssa.into_ssa)", "first": disagreements[0]}, no_input=True)
    if hyp_bad:
        ctx.violation("a graph handed to SSA conversion does not meet the hypotheses of the construction theorems (%s; %d definitions)" % (hyp_bad[0]["answer"], len(hyp_bad)),
                      {"broken": "hypotheses pre_ssa_ok / children_cover of C14_construction_*", "first": hyp_bad[0]}, no_input=True)
    if proofs["failures"]:
        ctx.violation("proof obligations of C14 no longer check: " + "; ".join(proofs["failures"])[:400],
                      {"broken": "props/C14.v", "failures": proofs["failures"]}, no_input=True)
    if wit_bad:
        ctx.violation("the validator (ssa_check + unversioned_reads_ok + SsaStrict.ssa_strict) accepts a mutated graph that violates C14, or rejects "
                      "its unmutated original (%d of %d witnesses of corpus/C14/rejected)" % (len(wit_bad), len(wit)),
                      {"broken": "strength of the validator on the rejected-graph corpus", "first": wit_bad[0]}, no_input=True)
    need = [f for f in propeng.FEATURES if f not in ("dimension_with_value_claim_on_a_non_literal", "lookalike_pair_one_constant_one_not", "constant_operand_next_to_an_unknown_operand", "zero_base_power_with_unknown_exponent")] + list(OWN_FEATURES)
    missing = [f for f in need if not features.get(f)]
    if missing:
        ctx.violation("degenerate exploration: features named in the rule text were never produced in this run: %s" % ", ".join(missing),
                      {"broken": "generator coverage (lib/proggen.py)", "missing": missing, "counted": features}, no_input=True)
    ctx.coverage.update({
        "features_produced": {f: features.get(f, 0) for f in need},
        "graphs_not_meeting_the_hypotheses_of_the_construction_theorems": len(hyp_bad),
        "evaluations": len(impl),
        "programs": len(impl),
        "distinct_nontrivial": len(shapes),
        "rule": "seeded generator lib/proggen.py (shadowed names, arrays updated element-wise, variables assigned in one branch only, nested loops, "
                "reassigned parameters, components and ports, dimensions that read variables - which the conversion must give a version -, signals declared "
                "under control flow; `features_produced` counts the lifted definitions with each feature, and the run fails if one is zero) + corpus; every SSA graph produced by the real into_ssa is (a) validated by the Coq-verified "
                "SsaCheck.ssa_check with the implementation's dominator tree as certificate, together with SsaCheck.unversioned_reads_ok (no statement reads a "
                "local or a parameter without a version; meaning: lemma Proofs.SsaUnversioned.unversioned_reads_ok_spec), (b) walked by an independent Python path oracle "
                "(each block at most 3 times per path), (c) compared with the pre-SSA graph by the Coq erasure validator SsaErase.erase_check (and by a Python erasure), (d) compared, after canonical renumbering, with "
                "the output of the construction mirror Model.Ssa.into_ssa run on the real pre-SSA graph and the real dominance frontiers/tree; distinct-nontrivial = distinct "
                "(blocks, phi statements, declared versions) shapes among converted graphs",
        "samples": [progs[0][1], progs[len(progs) // 2][1]],
        "exhaustive": False,
        "implementation_status": status,
        "graphs_validated": len(outs),
        "graphs_rejected_by_validator": len(invalid),
        "mutated_real_graphs_that_must_be_rejected": len(wit),
        "mutated_real_graphs_wrongly_accepted": len(wit_bad),
        "graphs_meeting_the_hypotheses_of_the_construction_theorems": sum(1 for o in houts if o == "(pre-ssa-ok)"),
        "graphs_accepted_by_erase_check": sum(1 for o in eouts if o == "(erasure)"),
        "construction_mirror_compared": len(mouts),
        "construction_mirror_disagreements": len(disagreements),
        "paths_walked_by_oracle": paths,
        "definitions_where_the_path_walk_stopped_at_its_cap_of_400_paths": capped,
        # rewritten after the second audit: the dominance half is no longer open
        # proof round 4: the third audit's open statement (the construction gives a version to every read of a local; every
        # version is listed by a re-issued Declaration statement) is closed: C14_construction_reads_of_locals_versioned,
        # C14_construction_unversioned_reads_ok, C14_construction_versions_stmt_declared (Proofs.SsaUnvConstruction)
        "open_statements": ["OPEN (fourth audit): `into_ssa frontier children c = SOk c' -> ssa_strict c' idom = StrictOk` for the construction MIRROR (every phi argument is the exit "
                            "version of a predecessor, a fresh update base is defined nowhere, the table is the statements plus parameter versions) is not proved; Model.SsaStrict.ssa_strict is "
                            "evaluated on every REAL SSA graph (driver command ssacheck) and its meaning on paths is proved (C14_phi_arguments_arrive, C14_read_defined_or_fresh_on_every_path)",
                            "apart from that, none as a Coq statement: that the output of the construction is an erasure of its input with phis at block heads, unique definitions "
                            "and unmixed keys (C14_construction_*) AND that every read names the running version on every path from the entry (the dominance "
                            "half, Cytron et al.'s theorem for this renaming scheme: C14_construction_paths_ok, C14_construction_read_defined_on_every_path) "
                            "are proved for ALL graphs, and C14_construction_paths_ok_on_computed_tables discharges the dominance hypotheses for the tables "
                            "the mirror of DominatorTree::new (C15) computes, in any HashSet iteration order. What remains is a matter of the tie, not of a "
                            "missing proof: (1) these theorems are about the MIRROR Model.Ssa.into_ssa, not about the Rust Cfg::into_ssa; the two are tied "
                            "per explored definition (the mirror run on the real pre-SSA graph and the real frontiers / tree, compared after canonical "
                            "renumbering: `construction_mirror_compared` / `construction_mirror_disagreements`); (2) of the hypotheses of "
                            "C14_construction_paths_ok, the decidable ones (ssa_dyn_pre_ok, pre_ssa_ok, children_coverb, children_treeb) ARE evaluated on every "
                            "explored definition with the implementation's own tables (`graphs_meeting_the_hypotheses_of_the_construction_theorems`), "
                            "while creach / children_sound / frontier_exact are NOT evaluated on the implementation's tables: they follow, by "
                            "C14_construction_paths_ok_on_computed_tables, for the tables C15's mirror computes (that those are the implementation's tables "
                            "is C15's per-case correspondence); (3) the implementation's own output with its own dominator tree is covered per case by the "
                            "verified validator SsaCheck.ssa_check (sound for all graphs and all paths: `graphs_validated`, `graphs_rejected_by_validator`)"],
    })
    ctx.assumptions += ["the S-expression dump (harness/src/irdump.rs) and its OCaml reader render the implementation's graph faithfully",
                        "validity of the IMPLEMENTATION's SSA output is established per explored definition (verified validator ssa_check with the implementation's "
                        "dominator tree, path walk, erasure check); validity of the construction MIRROR's output is proved for all graphs (C14_construction_*, "
                        "dominance half included), the mirror being tied to Cfg::into_ssa per explored definition; soundness of the validator is for all graphs and all paths"]


def replay(ctx, rep):
    if "input" not in rep:
        print("replay names a broken obligation:", rep.get("broken"))
        return 1
    H = common.build_harness("ir")
    out = common.run_lines(H, [], ["BN254 0 0 %s" % propeng.wire(rep["input"])])[0]
    x = sexp.parse(out)
    if x[0] != "ok":
        print(out[:300])
        return 1
    probs = static_checks(x[2]) + walk_paths(x[2])[0]
    print(probs)
    return 1 if probs else 0
