"""C20 — cutting propagation short never makes a claim wrong: pass budgets
0, 1, 2, 3, 5, 9, 14, 22, fixpoint for values and degrees independently, plus a
source check that the time box is consulted only where the pass budget acts."""
import os
import re
import common
import degtable
import propeng


SOURCE = {}


def _strip_comments(text):
    text = re.sub(r"/\*.*?\*/", lambda m: " " * len(m.group(0)), text, flags=re.S)
    return re.sub(r"//[^\n]*", "", text)


def _span(text, start):
    """(index of the opening brace at or after `start`, index just behind its matching closing brace)"""
    i = text.index("{", start)
    depth = 0
    for j in range(i, len(text)):
        if text[j] == "{":
            depth += 1
        elif text[j] == "}":
            depth -= 1
            if depth == 0:
                return i, j + 1
    raise ValueError("unbalanced braces")


def source_check(repo):
    """Reads cfg.rs: the time box (`MAX_ANALYSIS_DURATION`, `.elapsed()`) may be consulted only by the two guarded tests
    inside the pass loops of propagate_values / propagate_degrees (which is where the pass budget of the harness acts);
    the hook lines that make the budget act must be there. Returns {"problems": [...], "constant": ..., ...}."""
    path = os.path.join(repo, "program_structure/src/control_flow_graph/cfg.rs")
    out = {"file": path, "problems": [], "constant": None, "uses_of_the_time_box": 0}
    try:
        text = _strip_comments(open(path).read())
    except OSError as e:
        out["problems"].append("cannot read %s: %s" % (path, e))
        return out
    m = re.search(r"const\s+MAX_ANALYSIS_DURATION\s*:\s*Duration\s*=\s*([^;]+);", text)
    if not m:
        out["problems"].append("the definition `const MAX_ANALYSIS_DURATION: Duration = ...;` was not found")
        return out
    out["constant"] = " ".join(m.group(1).split())
    allowed = [(m.start(), m.end())]           # the definition itself
    mm = re.search(r"pub\s+mod\s+verif_budget\b", text)
    if mm:
        a, b = _span(text, mm.end())
        allowed.append((a, b))                 # the hook module (compiled under cfg(circomspect_verif) only)
    else:
        out["problems"].append("hook module `verif_budget` is missing")
    for fn, budget in (("propagate_degrees", "DEGREE_PASSES"), ("propagate_values", "VALUE_PASSES")):
        fm = re.search(r"fn\s+%s\s*\(" % fn, text)
        if not fm:
            out["problems"].append("fn %s not found" % fn)
            continue
        fa, fb = _span(text, fm.end())
        body = text[fa:fb]
        loops = [w for w in re.finditer(r"while\s+rerun\s*\{", body)]
        if len(loops) != 1:
            out["problems"].append("%s: expected exactly one `while rerun` pass loop, found %d" % (fn, len(loops)))
            continue
        la, lb = _span(body, loops[0].start())
        loop = body[la:lb]
        tests = list(re.finditer(r"if\s+start\s*\.\s*elapsed\s*\(\s*\)\s*>\s*MAX_ANALYSIS_DURATION\s*\{", loop))
        if len(tests) != 1:
            out["problems"].append("%s: expected exactly one test `if start.elapsed() > MAX_ANALYSIS_DURATION` inside the pass loop, found %d" % (fn, len(tests)))
        for t in tests:
            ta, tb = _span(loop, t.end() - 1)
            stmts = [x.strip() for x in re.sub(r"(debug|trace|info|warn)!\s*\([^;]*\)\s*;", "", loop[ta + 1:tb - 1]).split(";") if x.strip()]
            if stmts != ["rerun = false"]:
                out["problems"].append("%s: the body of the time-box test does more than `rerun = false`: %r" % (fn, stmts))
            allowed.append((fa + la + t.start(), fa + la + t.end()))
        # the hook lines: budget test before the loop, shifted start inside the loop (behind the passes of one round) and behind the loop
        pre, post = body[:la], body[lb:]
        if not re.search(r"verif_budget::exhausted\(\s*&verif_budget::%s" % budget, pre):
            out["problems"].append("%s: hook line `verif_budget::exhausted(&verif_budget::%s, ..)` before the pass loop is missing" % (fn, budget))
        hk = r"let\s+start\s*=\s*\{?[^;]*verif_budget::start_after\(\s*&verif_budget::%s" % budget
        inside = re.search(r"let\s+start\s*=\s*\{[^}]*verif_budget::start_after\(\s*&verif_budget::%s" % budget, loop)
        if not inside:
            out["problems"].append("%s: hook line `let start = { .. verif_budget::start_after(&verif_budget::%s, ..) }` inside the pass loop is missing" % (fn, budget))
        elif tests and inside.start() > tests[0].start():
            out["problems"].append("%s: the hook inside the pass loop stands behind the time-box test" % fn)
        after = re.search(hk, post)
        if not after:
            out["problems"].append("%s: hook line `let start = verif_budget::start_after(&verif_budget::%s, ..)` behind the pass loop is missing" % (fn, budget))
        elif re.search(r"elapsed|MAX_ANALYSIS_DURATION|Instant", post[:after.start()]):
            out["problems"].append("%s: the time box is consulted between the pass loop and the hook line behind it (there the pass budget is not visible)" % fn)
        if not re.search(r"let\s+start\s*=\s*Instant::now\(\)", pre):
            out["problems"].append("%s: `let start = Instant::now();` before the pass loop is missing" % fn)
    for u in re.finditer(r"MAX_ANALYSIS_DURATION|\.\s*elapsed\s*\(", text):
        out["uses_of_the_time_box"] += 1
        if not any(a <= u.start() < b for a, b in allowed):
            line = text.count("\n", 0, u.start()) + 1
            out["problems"].append("cfg.rs:%d: `%s` is used outside the two guarded tests inside the pass loops: %s"
                                   % (line, u.group(0).strip(), text.splitlines()[line - 1].strip()[:120]))
    # other files of the crate must not consult a clock either
    others = []
    root = os.path.join(repo, "program_structure/src")
    for d, _, fs in os.walk(root):
        for f in fs:
            if f.endswith(".rs") and os.path.join(d, f) != path:
                t = _strip_comments(open(os.path.join(d, f), errors="replace").read())
                if re.search(r"Instant::now|\.\s*elapsed\s*\(|SystemTime", t):
                    others.append(os.path.relpath(os.path.join(d, f), repo))
    if others:
        out["problems"].append("a clock is consulted in other files of program_structure: %s" % ", ".join(sorted(others)))
    return out


def gen(ctx):
    degtable.gen()
    SOURCE.clear()
    SOURCE.update(source_check(common.REPO))

# One pass of the real loops stops at the first block that learns something (`rerun = rerun || ...`), so even small
# definitions need a dozen passes and more: the larger budgets cut where claims on merged values already exist.
BUDGETS = [("0", "0"), ("1", "-"), ("-", "1"), ("2", "2"), ("3", "1"), ("1", "3"), ("5", "5"), ("-", "9"), ("14", "14"), ("-", "22"), ("-", "-")]


def run(ctx, proofs):
    r = propeng.run(ctx, proofs, BUDGETS, check_vals=True, check_degs=True,
                    n_quick=260, n_thorough=5000, props=("C06", "C07", "C20"))
    propeng.verdict(ctx, proofs, r, kinds=("value", "degree", "finding", None),
                    known_classes=(),
                    extra_cov={"budgets": BUDGETS,
                               "open_statements": ["the universal budget theorems (C20_mirror_validated_at_every_budget for value claims, "
                                                   "C20_degrees_validated_at_every_budget / C20_propagate_degrees_validated_at_every_budget for degree "
                                                   "ranges) are about the mirror Model.Propagate, which is compared with the implementation pass by pass on "
                                                   "every explored definition",
                                                   "the degree half inherits what C07's graph theorem is about: the lock-step family semantics Spec.DegSem with `pick_ok` assumed; "
                                                   "concrete runs are represented when all valuations follow the same path; families with diverging paths and signal-dependent trip "
                                                   "counts are open (see C07 open_statements); at a cut the oracle judges them per iteration context",
                                                   "the pass budget replaces the wall clock: that no other code consults the clock is a SOURCE check of cfg.rs (time_box_source_check), "
                                                   "not a theorem; budget 0 is a hook-only path (the real loop always runs one pass)"]})
    source_verdict(ctx)


def source_verdict(ctx):
    """After the normal search: the time box is consulted only where the pass budget acts."""
    if not SOURCE:
        SOURCE.update(source_check(common.REPO))
    ctx.coverage["time_box_source_check"] = {"MAX_ANALYSIS_DURATION": SOURCE.get("constant"), "uses_of_the_time_box_in_cfg_rs": SOURCE.get("uses_of_the_time_box"),
                                             "problems": SOURCE.get("problems"),
                                             "rule": "cfg.rs is read (comments stripped): MAX_ANALYSIS_DURATION and .elapsed() occur only in the definition, in the hook "
                                                     "module verif_budget and in the one test `if start.elapsed() > MAX_ANALYSIS_DURATION { rerun = false; }` inside the "
                                                     "`while rerun` loop of propagate_values and of propagate_degrees; the hook lines (budget test before the loop, shifted "
                                                     "start inside and behind the loop) are present; no other file of program_structure consults a clock"}
    if SOURCE.get("problems"):
        ctx.violation("the time box of propagation is consulted where the pass budget of the harness does not act, or the hook lines are missing: "
                      + "; ".join(SOURCE["problems"])[:600],
                      {"broken": "tie between the pass budget (verification hook) and the time box MAX_ANALYSIS_DURATION in cfg.rs", "problems": SOURCE["problems"]}, no_input=True)


def replay(ctx, rep):
    return propeng.replay(ctx, rep)
