"""C20 — cutting propagation short never makes a claim wrong: every pass
budget (0, 1, 2, 3, 5, fixpoint) for values and degrees independently."""
import common
import degtable
import propeng


def gen(ctx):
    degtable.gen()

BUDGETS = [("0", "0"), ("1", "-"), ("-", "1"), ("2", "2"), ("3", "1"), ("1", "3"), ("5", "5"), ("-", "-")]


def run(ctx, proofs):
    r = propeng.run(ctx, proofs, BUDGETS, check_vals=True, check_degs=True,
                    n_quick=350, n_thorough=5000, props=("C06", "C07", "C20"))
    propeng.verdict(ctx, proofs, r, kinds=("value", "degree", "finding", None),
                    known_classes=(),
                    extra_cov={"budgets": BUDGETS,
                               "open_statements": ["the universal budget theorems (C20_mirror_validated_at_every_budget for value claims, "
                                                   "C20_degrees_validated_at_every_budget / C20_propagate_degrees_validated_at_every_budget for degree "
                                                   "ranges) are about the mirror Model.Propagate, which is compared with the implementation pass by pass on "
                                                   "every explored definition"]})


def replay(ctx, rep):
    return propeng.replay(ctx, rep)
