"""C20 — cutting propagation short never makes a claim wrong: pass budgets 0 and
fixpoint plus nine budget pairs drawn with the seed from 1..60 (values alone,
degrees alone, both), the consumers CS0013 / CS0010 run at every cut, plus a
structural source check that the pass loops end only through the time-box test."""
import os
import re
import common
import degtable
import propeng


SOURCE = {}


def _strip_comments(text):
    text = re.sub(r"/\*.*?\*/", lambda m: " " * len(m.group(0)), text, flags=re.S)
    return re.sub(r"//[^\n]*", "", text)


def _span(text, start):
    """(index of the opening brace at or after `start`, index just behind its matching closing brace)"""
    i = text.index("{", start)
    depth = 0
    for j in range(i, len(text)):
        if text[j] == "{":
            depth += 1
        elif text[j] == "}":
            depth -= 1
            if depth == 0:
                return i, j + 1
    raise ValueError("unbalanced braces")


CLOCK = r"\.\s*elapsed\s*\(|MAX_ANALYSIS_DURATION"


def _ifs(text):
    """(start of `if`, condition text, body start, body end) of every `if <cond> {` in text (else-if included)."""
    out = []
    for m in re.finditer(r"\bif\b", text):
        try:
            a, b = _span(text, m.end())
        except ValueError:
            continue
        out.append((m.start(), text[m.end():a], a, b))
    return out


def source_check(repo):
    """Reads cfg.rs STRUCTURALLY (comments stripped; no fixed spelling of the test, of `start` or of the loop):
      * the time box (`MAX_ANALYSIS_DURATION`, `.elapsed()`) is consulted only inside the pass loops of
        propagate_values / propagate_degrees - directly (per pass or per block) or through a helper function that is called
        only from there - and a time-box test does nothing but stop (`rerun = false`, `break`, a log line);
      * a pass loop ends in no other way: every `rerun = false` / `break` / `return` inside it belongs to a time-box test,
        to the reset at the head of the loop, or to a fixpoint exit `if !<flag> { break; }` (a pass-count cap or any other
        second early stop is reported: the pass budget of the harness does not drive it);
      * nothing propagates behind the pass loop (no finalisation pass, no change of the merge control);
      * the hook lines that make the budget act are there (budget test before the loop, shifted start inside and behind it).
    Returns {"problems": [...], "constant": ..., ...}."""
    path = os.path.join(repo, "program_structure/src/control_flow_graph/cfg.rs")
    out = {"file": path, "problems": [], "constant": None, "uses_of_the_time_box": 0, "time_box_tests": 0, "helpers": []}
    try:
        text = _strip_comments(open(path).read())
    except OSError as e:
        out["problems"].append("cannot read %s: %s" % (path, e))
        return out
    m = re.search(r"const\s+MAX_ANALYSIS_DURATION\s*:\s*Duration\s*=\s*([^;]+);", text)
    if not m:
        out["problems"].append("the definition `const MAX_ANALYSIS_DURATION: Duration = ...;` was not found")
        return out
    out["constant"] = " ".join(m.group(1).split())
    allowed = [(m.start(), m.end())]
    mm = re.search(r"pub\s+mod\s+verif_budget\b", text)
    if mm:
        allowed.append(_span(text, mm.end()))
    else:
        out["problems"].append("hook module `verif_budget` is missing")
    # helper functions that consult the clock (anything but the two propagation functions and the hook module)
    helpers = {}
    for fm in re.finditer(r"\bfn\s+(\w+)\s*(?:<[^>]*>)?\s*\(", text):
        name = fm.group(1)
        try:
            fa, fb = _span(text, fm.end())
        except ValueError:
            continue
        if name in ("propagate_degrees", "propagate_values") or any(a <= fa < b for a, b in allowed[1:]):
            continue
        if re.search(CLOCK, text[fa:fb]):
            helpers[name] = (fa, fb)
    out["helpers"] = sorted(helpers)
    helper_call = ("|" + "|".join(r"\b%s\s*\(" % h for h in helpers)) if helpers else ""
    loop_spans = []
    for fn, budget in (("propagate_degrees", "DEGREE_PASSES"), ("propagate_values", "VALUE_PASSES")):
        fm = re.search(r"fn\s+%s\s*\(" % fn, text)
        if not fm:
            out["problems"].append("fn %s not found" % fn)
            continue
        fa, fb = _span(text, fm.end())
        body = text[fa:fb]
        now = re.search(r"let\s+(?:mut\s+)?(\w+)\s*=\s*Instant::now\(\)", body)
        if not now:
            out["problems"].append("%s: no `let <start> = Instant::now();`" % fn)
            continue
        lm = re.search(r"\b(while\b[^{;]*|loop\s*)\{", body[now.end():])
        if not lm:
            out["problems"].append("%s: no pass loop behind `Instant::now()`" % fn)
            continue
        la, lb = _span(body, now.end() + lm.start())
        loop = body[la:lb]
        loop_spans.append((fa + la, fa + lb))
        # time-box tests inside the loop
        stops_ok = []
        ntests = 0
        for (i0, cond, ba, bb) in _ifs(loop):
            if re.search(CLOCK + helper_call, cond):
                ntests += 1
                stmts = [x_.strip() for x_ in re.sub(r"\b(debug|trace|info|warn)!\s*\([^;]*\)\s*;", "", loop[ba + 1:bb - 1]).split(";") if x_.strip()]
                extra = [x_ for x_ in stmts if x_ not in ("rerun = false", "break") and not re.fullmatch(r"\w+\s*=\s*(false|true)", x_)]
                if extra:
                    out["problems"].append("%s: a time-box test does more than stop: %r" % (fn, extra[:3]))
                stops_ok.append((ba, bb))
            elif re.fullmatch(r"\s*!\s*\w+\s*", cond):
                stops_ok.append((ba, bb))        # the fixpoint exit of a `loop { .. }`
        out["time_box_tests"] += ntests
        if ntests == 0:
            out["problems"].append("%s: no test of the time box inside the pass loop" % fn)
        head = re.match(r"\{\s*(?:\w+\s*=\s*false\s*;)", loop)
        for st in re.finditer(r"\brerun\s*=\s*false\b|\bbreak\b|\breturn\b", loop):
            if head and st.start() < head.end():
                continue
            if not any(a <= st.start() < b for a, b in stops_ok):
                ln = text.count("\n", 0, fa + la + st.start()) + 1
                out["problems"].append("%s (cfg.rs:%d): the pass loop is left through `%s` outside a time-box test: a second early stop that the pass budget does not drive: %s"
                                       % (fn, ln, st.group(0), text.splitlines()[ln - 1].strip()[:120]))
        # hooks
        pre, post = body[:la], body[lb:]
        if not re.search(r"verif_budget::exhausted\(\s*&verif_budget::%s" % budget, pre):
            out["problems"].append("%s: hook line `verif_budget::exhausted(&verif_budget::%s, ..)` before the pass loop is missing" % (fn, budget))
        if not re.search(r"let\s+\w+\s*=\s*\{[^}]*verif_budget::start_after\(\s*&verif_budget::%s" % budget, loop):
            out["problems"].append("%s: hook line `let <start> = { .. verif_budget::start_after(&verif_budget::%s, ..) }` inside the pass loop is missing" % (fn, budget))
        after = re.search(r"let\s+\w+\s*=\s*[^;]*verif_budget::start_after\(\s*&verif_budget::%s" % budget, post)
        if not after:
            out["problems"].append("%s: hook line `let <start> = verif_budget::start_after(&verif_budget::%s, ..)` behind the pass loop is missing" % (fn, budget))
        elif re.search(CLOCK + r"|Instant", post[:after.start()]):
            out["problems"].append("%s: the time box is consulted between the pass loop and the hook line behind it (there the pass budget is not visible)" % fn)
        fin = re.search(r"\.\s*propagate_(degrees|values)\s*\(|set_merge_control|\.\s*set_degree\s*\(|\.\s*add_variable\s*\(", post)
        if fin:
            ln = text.count("\n", 0, fa + lb + fin.start()) + 1
            out["problems"].append("%s (cfg.rs:%d): propagation continues behind the pass loop (a finalisation that no pass budget cuts): %s" % (fn, ln, text.splitlines()[ln - 1].strip()[:120]))
    # calls of the helpers outside the pass loops
    for h, (ha, hb) in helpers.items():
        allowed.append((ha, hb))
        for c in re.finditer(r"\b%s\s*\(" % h, text):
            if ha - 40 <= c.start() < hb:
                continue
            if not any(a <= c.start() < b for a, b in loop_spans):
                ln = text.count("\n", 0, c.start()) + 1
                out["problems"].append("cfg.rs:%d: the helper `%s` (which consults the time box) is called outside the pass loops" % (ln, h))
    for u in re.finditer(CLOCK, text):
        out["uses_of_the_time_box"] += 1
        if not any(a <= u.start() < b for a, b in allowed + loop_spans):
            line = text.count("\n", 0, u.start()) + 1
            out["problems"].append("cfg.rs:%d: `%s` is used outside the pass loops: %s" % (line, u.group(0).strip(), text.splitlines()[line - 1].strip()[:120]))
    others = []
    root = os.path.join(repo, "program_structure/src")
    for d, _, fs in os.walk(root):
        for f in fs:
            if f.endswith(".rs") and os.path.join(d, f) != path:
                t = _strip_comments(open(os.path.join(d, f), errors="replace").read())
                if re.search(r"Instant::now|\.\s*elapsed\s*\(|SystemTime", t):
                    others.append(os.path.relpath(os.path.join(d, f), repo))
    if others:
        out["problems"].append("a clock is consulted in other files of program_structure: %s" % ", ".join(sorted(others)))
    return out


def gen(ctx):
    degtable.gen()
    SOURCE.clear()
    SOURCE.update(source_check(common.REPO))

# One pass of the real loops stops at the first block that learns something (`rerun = rerun || ...`), so even small
# definitions need a dozen passes and more: the larger budgets cut where claims on merged values already exist.
FIXED_BUDGETS = [("0", "0"), ("-", "-")]


def budgets_of(rng):
    """The cut before the first pass and the fixpoint in every run; nine more budget pairs drawn with the seed (one real
    pass stops at the first block that learns something, so definitions need dozens of passes: the cut points 1..60 are
    all reached over the seeds, for values alone, for degrees alone and for both)."""
    def k():
        return str(rng.choice([1, 2, 3, 4, 5, 6, 7, 8, 9, 10, 11, 12, 13, 14, 16, 18, 20, 22, 25, 28, 32, 36, 40, 45, 50, 60]))
    out = list(FIXED_BUDGETS)
    while len(out) < 11:
        j = len(out) % 3
        b = (k(), "-") if j == 0 else (("-", k()) if j == 1 else (k(), k()))
        if b not in out:
            out.append(b)
    return out


def long_chain(rng, n=958):
    """A definition that needs more than 4096 passes of each propagation (one pass = one fact; four passes per assignment
    of the chain): n assignments (958 for the degree side, 1004 for the value side, whose merges take fewer passes), then 30
    values merged under a condition on a signal, so that pass 4096 falls among the merges (some have their arguments known, their phi not yet). A cap on the NUMBER of passes with an optimistic
    finalisation shows on it at the fixpoint budget, with no budget hook involved."""
    m = 30
    sigs = " ".join("signal s%d;" % j for j in range(m))
    merges = " ".join("var y%d; if (a == %d) { y%d = 1; } else { y%d = 2; } s%d <-- y%d;" % (j, j % 5, j, j, j, j) for j in range(m))
    return ("template T(n) { signal input a; signal output b; %s var x = 0; " % sigs + " ".join("x = x + %d;" % (i % 7) for i in range(n + rng.randrange(3)))
            + " " + merges + " b <-- x; }")


def run(ctx, proofs):
    budgets = budgets_of(ctx.rng)
    r = propeng.run(ctx, proofs, budgets, check_vals=True, check_degs=True,
                    n_quick=260, n_thorough=5000, props=("C06", "C07", "C20"), check_advice=True,
                    extra_progs=[("BN254", long_chain(ctx.rng, 958), "long-chain"), ("BN254", long_chain(ctx.rng, 1004), "long-chain")])
    propeng.verdict(ctx, proofs, r, kinds=("value", "degree", "finding", "advice", None),
                    known_classes=("cs0013-sum-of-products",),
                    extra_cov={"budgets": budgets,
                               "open_statements": ["the universal budget theorems (C20_mirror_validated_at_every_budget for value claims, "
                                                   "C20_degrees_validated_at_every_budget / C20_propagate_degrees_validated_at_every_budget for degree "
                                                   "ranges) are about the mirror Model.Propagate, which is compared with the implementation pass by pass on "
                                                   "every explored definition",
                                                   "the degree half inherits what C07's graph theorem is about (see C07 open_statements): at a cut only the same-path "
                                                   "composition is stated (C20_any_cut_degree_claims_true_of_concrete_runs); signal-dependent trip counts: validator + oracle only",
                                                   "the pass budget replaces the wall clock: that the pass loops are left in no other way than through the time-box test (no "
                                                   "pass-count cap, no finalisation behind the loop, no clock elsewhere) is a STRUCTURAL SOURCE check of cfg.rs "
                                                   "(time_box_source_check), not a theorem; budget 0 is a hook-only path (the real loop always runs one pass)",
                                                   "consumers of partial facts: CS0013 is run by the harness at every budget and must stand on a validated claim; CS0010 "
                                                   "(and CS0014-16) are only counted at a cut, their rule is C11's"]})
    source_verdict(ctx)


def source_verdict(ctx):
    """After the normal search: the time box is consulted only where the pass budget acts."""
    if not SOURCE:
        SOURCE.update(source_check(common.REPO))
    ctx.coverage["time_box_source_check"] = {"MAX_ANALYSIS_DURATION": SOURCE.get("constant"), "uses_of_the_time_box_in_cfg_rs": SOURCE.get("uses_of_the_time_box"),
                                             "time_box_tests_inside_the_pass_loops": SOURCE.get("time_box_tests"), "helpers_that_consult_the_clock": SOURCE.get("helpers"),
                                             "problems": SOURCE.get("problems"), "rule": " ".join((source_check.__doc__ or "").split())}
    if SOURCE.get("problems"):
        ctx.violation("the time box of propagation is consulted where the pass budget of the harness does not act, or the hook lines are missing: "
                      + "; ".join(SOURCE["problems"])[:600],
                      {"broken": "tie between the pass budget (verification hook) and the time box MAX_ANALYSIS_DURATION in cfg.rs", "problems": SOURCE["problems"]}, no_input=True)


def replay(ctx, rep):
    return propeng.replay(ctx, rep)
