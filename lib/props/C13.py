"""C13 — the control-flow graph contains every source execution, statement by
statement.

Correspondence: as for C12 (real parser + into_cfg vs Model.Lift.lift), plus the
decision tree of the walk of the REAL graph (harness, rule of the property
text: true edge, else recorded false_index, else the only other successor)
against the decision tree of the walk of the model graph (Spec.CfgSpec.walk_tree).
Oracle (violation search only; the theorem is the claim): the structured
semantics of the source skeleton (Spec.CfgSpec.trace_tree, extracted) under every
decision list up to a bound must be a prefix of the real walk under the same
decisions, and equal to it when no `return` is executed.

Compound assignments (last sentence of the property): the programs are rendered
with EVERY compound assignment of ParseSubstitution (`+= -= *= **= /= \\= %= <<=
>>= &= |= ^=`, `++`, `--`) on scalars and on array elements, as statements and in
`for` headers (lifteng.Render.rich_leaf).  The harness prints each lifted
assignment in a canonical prefix form (target, operator, operands in order); it
must equal the plain assignment `x[..] = x[..] op e` given by the specification
(Spec.SurfaceSpec.expected_statement, extracted; proved to mean the compound
assignment under every interpretation of the operators) - failing input
otherwise - and the mirror Model.Shortcuts.parse_substitution (correspondence)."""
import json
import os

import common
import lifteng


def corpus_cases():
    """corpus/C13/*.json: {"body": skeleton[, "rich": salt]}; a body without salt is
    run in the C12 rendering and with salt 0."""
    d = os.path.join(common.VERIF, "corpus", "C13")
    out = []
    if os.path.isdir(d):
        for f in sorted(os.listdir(d)):
            if f.endswith(".json"):
                rec = json.load(open(os.path.join(d, f)))
                body = lifteng.from_jsonable(rec["body"])
                salts = [rec["rich"]] if "rich" in rec else [None, 0]
                for salt in salts:
                    c = lifteng.make_case(body, rich=salt)
                    c["corpus"] = f
                    out.append(c)
    return out


def gen_cases(ctx, quick_nodes, thorough_nodes, n_random_quick, n_random_thorough):
    """Every body up to the node bound and seeded random bodies, each rendered
    with its own salt (which compound assignment stands at which leaf)."""
    quick = ctx.tier == "quick"
    max_nodes = quick_nodes if quick else thorough_nodes
    cases = [lifteng.make_case(b, rich=ctx.rng.randrange(1 << 30)) for b in lifteng.bodies(max_nodes)]
    n_exh = len(cases)
    sizes = {}
    for _ in range(n_random_quick if quick else n_random_thorough):
        b = lifteng.rand_body(ctx.rng, 60, 12)
        sizes[lifteng.size(b) // 10 * 10] = sizes.get(lifteng.size(b) // 10 * 10, 0) + 1
        cases.append(lifteng.make_case(b, rich=ctx.rng.randrange(1 << 30)))
    return cases, n_exh, max_nodes, sizes


def form_kind(sx, where):
    """'(Op Sub (V q7 (V x)) ..)' -> 'Sub=/array1/statement'"""
    parts = sx[1:].split(" ", 2)
    head = parts[0] if parts[0] != "Op" else parts[1] + "="
    target = sx[sx.index("(V "):]
    depth, n_idx = 0, 0
    for ch in target:
        if ch == "(":
            depth += 1
            if depth == 2:
                n_idx += 1
        elif ch == ")":
            depth -= 1
            if depth == 0:
                break
    return "%s/%s/%s" % (head, "scalar" if n_idx == 0 else "array%d" % n_idx, where)


def failing_record(case, bound, impl, spec):
    return {"input": case["src"], "body": lifteng.to_jsonable(case["body"]), "rich": case.get("rich"),
            "bound": bound, "impl": impl, "spec": spec}


def run(ctx, proofs):
    quick = ctx.tier == "quick"
    corpus = corpus_cases()
    cases, n_exh, max_nodes, sizes = gen_cases(ctx, 7, 8, 1500, 15000)
    bound_small, bound_big = (6, 7) if quick else (7, 9)
    small = corpus + cases[:n_exh]
    big = cases[n_exh:]
    disagreements, failing = [], []
    lists_checked = 0
    returned = 0
    nontrivial = set()
    samples = []
    # the block lists themselves (the theorem speaks about Model.Lift.lift)
    for case, impl, model in lifteng.run_cfg(common, small + big):
        d = lifteng.cfg_compare(case, impl, model)
        if d is not None:
            disagreements.append(d)
    for part, bound in ((small, bound_small), (big, bound_big)):
        for case, impl, model in lifteng.run_walk(common, part, bound):
            if not (impl.startswith("W ") and model.startswith("T ") and " # W " in model):
                failing.append(failing_record(case, bound, impl[:500],
                                              "the definition parses and lifts (model: %s)" % model[:200]))
                continue
            t_text, w_model = model[2:].split(" # W ", 1)
            if w_model != impl[2:]:
                disagreements.append({"src": case["src"], "sx": case["sx"], "impl": impl[:2000], "model": "W " + w_model[:2000]})
            ttree = lifteng.parse_tree(t_text)
            wtree = lifteng.parse_tree(impl[2:])
            lists_checked += len(ttree)
            returned += sum(1 for t in ttree if t[2] == 'R')
            bad = lifteng.containment_failures(ttree, wtree)
            if bad:
                failing.append(failing_record(case, bound, impl[:3000], bad[:3]))
            if len(ttree) > 1:
                nontrivial.add(t_text)
            if len(samples) < 3 and len(ttree) > 3 and lifteng.size(case["body"]) >= 6:
                samples.append({"src": case["src"], "trace_tree": t_text[:400], "walk_tree": impl[:400]})
    # compound assignments: every lifted assignment against its expansion
    form_failing, form_kinds, n_compound = [], {}, 0
    for case, impl, model in lifteng.run_forms(common, [c for c in small + big if c.get("compound")]):
        bad, dis = lifteng.forms_compare(case, impl, model)
        if bad:
            form_failing.append(failing_record(case, 0, impl[:3000], bad[:3]))
        if dis:
            disagreements.append({"src": case["src"], "sx": case["sx"], "impl": impl[:2000], "model": dis[:3]})
        for text, sx, where in case["compound"].values():
            k = form_kind(sx, where)
            form_kinds[k] = form_kinds.get(k, 0) + 1
            n_compound += 1
    for f in failing[:5]:
        ctx.violation("the walk of the control-flow graph does not contain the source execution: %s" % (f["spec"],), f)
    for f in form_failing[:5]:
        ctx.violation("a compound assignment is not lifted as its expansion: %s" % (f["spec"],), f)
    failing = failing + form_failing
    if not failing:
        if disagreements:
            d = disagreements[0]
            ctx.violation("correspondence Model.Lift.lift / walk vs lifting.rs broken (%d cases; first: %s); the source "
                          "executions were contained in the real walk on every explored input" % (len(disagreements), d["src"]),
                          {"broken": "correspondence lift (block lists / walk trees)", "first": d,
                           "count": len(disagreements)}, no_input=True)
        elif proofs["failures"]:
            ctx.violation("proof obligations of C13 no longer check: " + "; ".join(proofs["failures"])[:500],
                          {"broken": "props/C13.v", "failures": proofs["failures"]}, no_input=True)
    ctx.coverage.update({
        "evaluations": lists_checked,
        "programs": len(small) + len(big),
        "distinct_nontrivial": len(nontrivial),
        "rule": "every surface skeleton body with at most %d nodes (%d programs, exhaustive, incl. for loops, every compound "
                "assignments, returns, bare bodies, empty blocks) under every decision list up to length %d, plus %d seeded random "
                "bodies up to 60 nodes under every decision list up to length %d and %d corpus programs; an evaluation is one "
                "(program, maximal decision list) pair of the structured semantics compared with the walk of the real graph; "
                "distinct-nontrivial = distinct decision trees with more than one decision list"
                % (max_nodes, n_exh, bound_small, len(big), bound_big, len(corpus)),
        "exhaustive": True,
        "exhaustive_part": "all %d bodies with <= %d nodes x all decision lists of length <= %d" % (n_exh, max_nodes, bound_small),
        "decision_lists_ending_in_return": returned,
        "random_size_histogram": {str(k): v for k, v in sorted(sizes.items())},
        "compound_assignments_checked": n_compound,
        "compound_kinds_seen": len(form_kinds),
        "compound_kinds_possible": 14 * 3 * 2,
        "compound_kinds_rule": "operator (12 op= tokens, ++, --) x target (scalar, a[i], a[i][j]) x position (statement, for "
                               "header); each lifted assignment compared, operands in order, with Spec.SurfaceSpec.expected_statement",
        "compound_kinds_least_seen": sorted(form_kinds.items(), key=lambda kv: kv[1])[:3],
        "samples": [disagreements[0]] if disagreements else samples,
        "disagreements_model_vs_impl": len(disagreements),
        "spec_failures": len(failing),
        "open_statements": [],   # C13_exhausted_equality is proved (coq/proofs/LiftExhausted.v)
    })
    ctx.assumptions += [
        "the skeleton abstraction of C12 (lifting looks only at statement kinds); leaf statements and conditions are "
        "identified by the number literal rendered into them",
        "the parser turns `for` into the expansion mirrored by Model.Lift.for_into_while: observed by the correspondence "
        "(block lists, walk trees) on rendered `for` loops; that this expansion has the meaning of the source `for` is "
        "proved (C13_surface_semantics_is_expansion)",
        "the parser turns every compound assignment into the plain assignment of Spec.SurfaceSpec.expected_statement "
        "(= Model.Shortcuts.parse_substitution): observed on every rendered compound assignment (all 14 operators, scalar and "
        "array-element targets, statement and for-header position), operand order included; that this assignment means the "
        "compound one is proved (C13_compound_expansion_sem); the token -> opcode table used to render the operators "
        "is lifteng.COMPOUND_OPS (trusted, 12 lines)",
        "the bounded enumeration of decision lists is only the violation search; the claim for all decision lists is the theorem",
    ]


def replay(ctx, rep):
    body = rep.get("body")
    if not body:
        print("replay names a broken obligation, not an input:", rep.get("broken"))
        return 1
    case = lifteng.make_case(lifteng.from_jsonable(body), rich=rep.get("rich"))
    bad_forms = []
    if case.get("compound"):
        (_, fi, fm), = lifteng.run_forms(common, [case])
        bad_forms, _ = lifteng.forms_compare(case, fi, fm)
    res = lifteng.run_walk(common, [case], int(rep.get("bound") or 6))
    _, impl, model = res[0]
    print("source        :", case["src"])
    print("implementation:", impl[:3000])
    print("specification :", model.split(" # W ")[0][:3000])
    if impl.startswith("W ") and model.startswith("T "):
        bad = lifteng.containment_failures(lifteng.parse_tree(model[2:].split(" # W ")[0]), lifteng.parse_tree(impl[2:]))
        for b in (bad + bad_forms)[:5]:
            print("violated      :", b)
        return 1 if bad or bad_forms else 0
    return 1
