"""C13 — the control-flow graph contains every source execution, statement by
statement.

Correspondence: as for C12 (real parser + into_cfg vs Model.Lift.lift), plus the
decision tree of the walk of the REAL graph (harness, rule of the property
text: true edge, else recorded false_index, else the only other successor)
against the decision tree of the walk of the model graph (Spec.CfgSpec.walk_tree).
Oracle (violation search only; the theorem is the claim): the structured
semantics of the source skeleton (Spec.CfgSpec.trace_tree, extracted) under every
decision list up to a bound must be a prefix of the real walk under the same
decisions, and equal to it when no `return` is executed.

Compound assignments (last sentence of the property): the programs are rendered
with EVERY compound assignment of ParseSubstitution (`+= -= *= **= /= \\= %= <<=
>>= &= |= ^=`, `++`, `--`) on scalars and on array elements, as statements and in
`for` headers (lifteng.Render.rich_leaf).  The harness prints each lifted
assignment in a canonical prefix form (target, operator, operands in order); it
must equal the plain assignment `x[..] = x[..] op e` given by the specification
(Spec.SurfaceSpec.expected_statement, extracted) - failing input otherwise - and
the mirror Model.Shortcuts.parse_substitution (correspondence).  Second audit:
expected_statement and parse_substitution are the same function written twice
(Proofs.SurfaceProofs.parse_substitution_is_expected_statement, by reflexivity),
so the two comparisons are ONE comparison made twice: a mirror disagreement
never occurs without the failing input, and only one theorem about the
expansion is an obligation (C13_compound_mirror_sem: the expansion means the
compound assignment under every interpretation of the operators)."""
import json
import os

import common
import lifteng
import sys
sys.path.insert(0, os.path.dirname(os.path.abspath(__file__)))
import liftfull_engine  # noqa: E402


def corpus_cases():
    """corpus/C13/*.json: {"body": skeleton[, "rich": salt]}; a body without salt is
    run in the C12 rendering and with salt 0."""
    d = os.path.join(common.VERIF, "corpus", "C13")
    out = []
    if os.path.isdir(d):
        for f in sorted(os.listdir(d)):
            if f.endswith(".json"):
                rec = json.load(open(os.path.join(d, f)))
                body = lifteng.from_jsonable(rec["body"])
                salts = [rec["rich"]] if "rich" in rec else [None, 0]
                for salt in salts:
                    c = lifteng.make_case(body, rich=salt)
                    c["corpus"] = f
                    out.append(c)
    return out


def liftfull_corpus():
    """corpus/C13/liftfull-*.circom: past disagreements / witnesses of the liftfull stage."""
    d = os.path.join(common.VERIF, "corpus", "C13")
    out = []
    if os.path.isdir(d):
        for f in sorted(os.listdir(d)):
            if f.startswith("liftfull-") and f.endswith(".circom"):
                out.append(("corpus/" + f, open(os.path.join(d, f)).read()))
    return out


def gen_cases(ctx, quick_nodes, thorough_nodes, n_random_quick, n_random_thorough):
    """Every body up to the node bound and seeded random bodies, each rendered
    with its own salt (which compound assignment stands at which leaf)."""
    quick = ctx.tier == "quick"
    max_nodes = quick_nodes if quick else thorough_nodes
    cases = [lifteng.make_case(b, rich=ctx.rng.randrange(1 << 30)) for b in lifteng.bodies(max_nodes)]
    n_exh = len(cases)
    sizes = {}
    for _ in range(n_random_quick if quick else n_random_thorough):
        b = lifteng.rand_body(ctx.rng, 60, 12)
        sizes[lifteng.size(b) // 10 * 10] = sizes.get(lifteng.size(b) // 10 * 10, 0) + 1
        cases.append(lifteng.make_case(b, rich=ctx.rng.randrange(1 << 30)))
    return cases, n_exh, max_nodes, sizes


def form_kind(sx, where):
    """'(Op Sub (V q7 (V x)) ..)' -> 'Sub=/array1/statement'"""
    parts = sx[1:].split(" ", 2)
    head = parts[0] if parts[0] != "Op" else parts[1] + "="
    target = sx[sx.index("(V "):]
    depth, n_idx = 0, 0
    for ch in target:
        if ch == "(":
            depth += 1
            if depth == 2:
                n_idx += 1
        elif ch == ")":
            depth -= 1
            if depth == 0:
                break
    kind = "scalar" if n_idx == 0 else "array%d" % n_idx
    if "(. " in target:
        kind = "component-access%d" % n_idx
    return "%s/%s/%s" % (head, kind, where)


def failing_record(case, bound, impl, spec):
    return {"input": case["src"], "body": lifteng.to_jsonable(case["body"]), "rich": case.get("rich"),
            "bound": bound, "impl": impl, "spec": spec}


def run(ctx, proofs):
    quick = ctx.tier == "quick"
    corpus = corpus_cases()
    cases, n_exh, max_nodes, sizes = gen_cases(ctx, 7, 8, 1500, 15000)
    bound_small, bound_big = (6, 7) if quick else (7, 9)
    small = corpus + cases[:n_exh]
    big = cases[n_exh:]
    disagreements, failing = [], []
    lists_checked = 0
    returned = 0
    nontrivial = set()
    samples = []
    # the block lists themselves (the theorem speaks about Model.Lift.lift)
    ssa_skipped = 0     # `# ssa skipped` is accepted by cfg_compare: counted (the claim of C13 is about the graph after into_cfg)
    for case, impl, model in lifteng.run_cfg(common, small + big):
        d = lifteng.cfg_compare(case, impl, model)
        if d is not None:
            disagreements.append(d)
        if impl.endswith(" # ssa skipped"):
            ssa_skipped += 1
    for part, bound in ((small, bound_small), (big, bound_big)):
        for case, impl, model in lifteng.run_walk(common, part, bound):
            if not (impl.startswith("W ") and model.startswith("T ") and " # W " in model):
                failing.append(failing_record(case, bound, impl[:500],
                                              "the definition parses and lifts (model: %s)" % model[:200]))
                continue
            t_text, w_model = model[2:].split(" # W ", 1)
            if w_model != impl[2:]:
                disagreements.append({"src": case["src"], "sx": case["sx"], "impl": impl[:2000], "model": "W " + w_model[:2000]})
            ttree = lifteng.parse_tree(t_text)
            wtree = lifteng.parse_tree(impl[2:])
            lists_checked += len(ttree)
            returned += sum(1 for t in ttree if t[2] == 'R')
            bad = lifteng.containment_failures(ttree, wtree)
            if bad:
                failing.append(failing_record(case, bound, impl[:3000], bad[:3]))
            if len(ttree) > 1:
                nontrivial.add(t_text)
            if len(samples) < 3 and len(ttree) > 3 and lifteng.size(case["body"]) >= 6:
                samples.append({"src": case["src"], "trace_tree": t_text[:400], "walk_tree": impl[:400]})
    # compound assignments: every lifted assignment against its expansion
    form_failing, form_kinds, n_compound = [], {}, 0
    for case, impl, model in lifteng.run_forms(common, [c for c in small + big if c.get("compound")]):
        bad, dis = lifteng.forms_compare(case, impl, model)
        if bad:
            form_failing.append(failing_record(case, 0, impl[:3000], bad[:3]))
        if dis:
            disagreements.append({"src": case["src"], "sx": case["sx"], "impl": impl[:2000], "model": dis[:3]})
        for text, sx, where in case["compound"].values():
            k = form_kind(sx, where)
            form_kinds[k] = form_kinds.get(k, 0) + 1
            n_compound += 1
    # stage: content-carrying lifting mirror (Model.LiftFull) vs the real into_cfg
    lf_bound = 4 if quick else 6
    lf = liftfull_engine.run(common, ctx.rng, quick, extra_programs=liftfull_corpus(), walk_bound=lf_bound)
    lf_dis, lf_wf, lf_thm = lf["disagreements"], lf["wf_failures"], lf["thm_failures"]
    # third audit: the containment oracle on content-carrying definitions (templates, real leaf statements)
    for d in lf["walk_failures"][:3]:
        ctx.violation("the walk of the control-flow graph of a definition lifted by the production code does not contain the "
                      "source execution: %s" % (d["bad"],),
                      {"input": d["src"], "liftfull_src": d["src"], "bound": lf_bound, "impl": d["impl"], "spec": d["bad"],
                       "definition": d["def"][:300]})
    if lf["walk"]["definitions"] == 0 or lf["walk"]["not_evaluated"]:
        ctx.violation("the containment oracle on content-carrying definitions was not evaluated on every lifted definition "
                      "(%d evaluated; not evaluated: %s)" % (lf["walk"]["definitions"], lf["walk"]["not_evaluated"]),
                      {"broken": "coverage of the check: trace / walk oracle of the liftfull stage", "walk": lf["walk"]},
                      no_input=True)
    # third audit: the source on which mirror and implementation disagree is at hand - it is reported as the failing
    # input of the replay (it used to be a `no-failing-input-found` line although `liftfull_src` was in the record)
    # fourth audit: a difference confined to the rich dump (metas of expression nodes / blocks, declaration records) with
    # the standard dump equal, on a source on which the searches found nothing (the walk oracle contains the source
    # execution, every C12 clause holds on the real graph), is a changed SHAPE without a failing input: one
    # `no-failing-input-found` line for the class instead of a violation with a bogus failing input per source
    walk_bad_srcs = {d["src"] for d in lf["walk_failures"]} | {d["src"] for d in lf["c12_bad"]}
    shape_only = [d for d in lf_dis if str(d.get("differs_in", "")).startswith("rich dump only") and d["src"] not in walk_bad_srcs]
    lf_dis = [d for d in lf_dis if d not in shape_only]
    if shape_only:
        d = shape_only[0]
        ctx.violation("content-carrying lifting mirror Model.LiftFull and the real into_cfg differ in the rich dump only on %d "
                      "definitions (metas of expression nodes / blocks, log strings, tags or declaration records; statements, "
                      "statement metas, blocks and edges are equal, the walk of the real graph contains the source execution and "
                      "every clause of C12 holds on them): shape changed, no failing input found; first source: %s"
                      % (len(shape_only), d["src"][:300]),
                      {"broken": "correspondence liftfull, rich dump only (Model.LiftFull vs intermediate_representation/lifting.rs)",
                       "first": d, "count": len(shape_only)}, no_input=True)
    for d in lf_dis[:3]:
        ctx.violation("content-carrying lifting mirror Model.LiftFull and the real into_cfg disagree on this source (%d definitions "
                      "in all; %s mode, label %s; differs in: %s): the theorems C13_liftfull_*, C04_liftfull_*, C08_liftfull_* "
                      "speak about a model that is not the code" % (len(lf_dis), d["mode"], d["label"], d.get("differs_in")),
                      {"input": d["src"], "liftfull_src": d["src"],
                       "impl": d.get("impl"), "spec": "Model.LiftFull.try_lift_impl (extracted) answers: %s" % (d.get("model"),),
                       "broken": "correspondence liftfull (Model.LiftFull vs control_flow_graph/lifting.rs + "
                                 "intermediate_representation/lifting.rs + unique_vars.rs)",
                       "first": d, "count": len(lf_dis)})
    for d in lf_wf[:2]:
        ctx.violation("a parsed and desugared definition does not satisfy %s, a hypothesis of the totality theorems of the "
                      "lifting mirror (%d definitions)" % (d.get("hypothesis", "LiftFull.definition_wf"), len(lf_wf)),
                      {"input": d["src"], "liftfull_src": d["src"], "impl": d.get("impl"),
                       "spec": "the hypothesis holds on every body the real parser + desugarer hand on",
                       "broken": "hypothesis " + d.get("hypothesis", "definition_wf"), "first": d})
    for d in lf_thm[:2]:
        ctx.violation("an equation proved about Model.LiftFull evaluates to false on the extracted model (%d definitions): %s"
                      % (len(lf_thm), d["flags"]),
                      {"input": d["src"], "liftfull_src": d["src"], "impl": "flags of the model driver: %s" % (d["flags"],),
                       "spec": "SK = 1 and PV = 1 (C13_liftfull_skeleton, C04_liftfull_stmt_metas_from_ast)",
                       "broken": "C13_liftfull_skeleton / C04_liftfull_stmt_metas_from_ast evaluated", "first": d})
    for f in failing[:5]:
        ctx.violation("the walk of the control-flow graph does not contain the source execution: %s" % (f["spec"],), f)
    for f in form_failing[:5]:
        ctx.violation("a compound assignment is not lifted as its expansion: %s" % (f["spec"],), f)
    failing = failing + form_failing
    if not failing:
        if disagreements:
            d = disagreements[0]
            ctx.violation("correspondence Model.Lift.lift / walk vs lifting.rs broken (%d cases; first: %s); the source "
                          "executions were contained in the real walk on every explored input" % (len(disagreements), d["src"]),
                          {"broken": "correspondence lift (block lists / walk trees)", "first": d,
                           "count": len(disagreements)}, no_input=True)
        elif proofs["failures"]:
            ctx.violation("proof obligations of C13 no longer check: " + "; ".join(proofs["failures"])[:500],
                          {"broken": "props/C13.v", "failures": proofs["failures"]}, no_input=True)
    ctx.coverage.update({
        "evaluations": lists_checked,
        "programs": len(small) + len(big),
        "distinct_nontrivial": len(nontrivial),
        "rule": "every surface skeleton body with at most %d nodes (%d programs, exhaustive, incl. for loops, every compound "
                "assignments, returns, bare bodies, empty blocks) under every decision list up to length %d, plus %d seeded random "
                "bodies up to 60 nodes under every decision list up to length %d and %d corpus programs; an evaluation is one "
                "(program, maximal decision list) pair of the structured semantics compared with the walk of the real graph; "
                "distinct-nontrivial = distinct decision trees with more than one decision list"
                % (max_nodes, n_exh, bound_small, len(big), bound_big, len(corpus)),
        "exhaustive": True,
        "exhaustive_part": "all %d bodies with <= %d nodes x all decision lists of length <= %d" % (n_exh, max_nodes, bound_small),
        "decision_lists_ending_in_return": returned,
        "random_size_histogram": {str(k): v for k, v in sorted(sizes.items())},
        "compound_assignments_checked": n_compound,
        "compound_kinds_seen": len(form_kinds),
        "compound_kinds_possible": 14 * 10 * 2,
        "compound_kinds_rule": "operator (12 op= tokens, ++, --) x target (scalar; 1, 2, 3, 4 array indices; component access with 0, 1, "
                               "3 indices behind the port; component array c[i].z, c[i][j].z[k] - fourth audit: 3+ accesses and "
                               "component accesses were never rendered) x position (statement, for header); each lifted assignment "
                               "compared, operands AND the whole access list in order, with Spec.SurfaceSpec.expected_statement",
        "compound_kinds_least_seen": sorted(form_kinds.items(), key=lambda kv: kv[1])[:3],
        "compound_comparisons": "ONE comparison per lifted assignment (implementation vs x[..] = x[..] op e); it is made against "
                                "Spec.SurfaceSpec.expected_statement and against Model.Shortcuts.parse_substitution, which are the "
                                "same function (parse_substitution_is_expected_statement) - not two independent checks",
        "into_ssa_skipped_by_driver": ssa_skipped,
        "samples": [disagreements[0]] if disagreements else samples,
        "disagreements_model_vs_impl": len(disagreements),
        "spec_failures": len(failing),
        "liftfull": {
            "stage": "content-carrying lifting mirror vs implementation",
            "what": "Model.LiftFull.try_lift_impl (extracted) on the desugared syntax tree of every definition of every generated "
                    "program, compared as text with the real into_cfg: rich dump (meta of every statement AND expression node, log "
                    "strings, tags, block metas, declaration records, parameter location), the standard irdump::cfg of the erased "
                    "graph, the shadowing reports, and the ok / error kind / panic decision; mode `raw` (no desugaring) compares "
                    "the panic decision on tuples, anonymous components and multi-substitutions",
            "generators": "proggen.Gen / proggen.targeted (IR-level programs), c18rand (grammar-based, valid and wild sugar), "
                          "c18gen.matrix sample, c18rand.deep, lifteng bodies (every skeleton <= 5 nodes, random ones up to 60 "
                          "nodes, compound assignments), %d fixed shapes (tags, custom / parallel templates, component arrays, "
                          "both arrows, accesses, shadowing cases 1-3, parameter collisions, empty bodies), corpus/C13/liftfull-*.circom"
                          % len(liftfull_engine.FIXED),
            "programs": lf["stats"]["programs"],
            "definitions_compared": lf["stats"]["definitions"] + lf["stats"]["raw_definitions"],
            "distinct_definitions_desugared": lf["stats"].get("distinct_desugared", 0),
            "distinct_definitions_raw": lf["stats"].get("distinct_raw", 0),
            "distinct_rule": "distinct DEF texts (kind, name, parameters, parameter location, body with all metas); the helper "
                             "templates that every c18 program starts with are counted once",
            "ir_statements_compared": lf["stats"]["ir_statements"],
            "results": {"ok": lf["stats"]["ok"], "error": lf["stats"]["err"], "panic": lf["stats"]["panic"]},
            "raw_results": {"ok": lf["stats"]["raw_ok"], "error": lf["stats"]["raw_err"], "panic": lf["stats"]["raw_panics"],
                            "mirror_panic_sites": lf["stats"].get("panic_sites", {})},
            "definitions_with_renamed_variables": lf["stats"]["renamed_definitions"],
            "shadowing_reports_compared": lf["stats"]["shadow_reports"],
            "by_generator": lf["stats"]["by_source"],
            "not_lifted": lf["stats"]["statuses"],
            "disagreements": len(lf_dis),
            "definition_wf_evaluations": lf["stats"].get("distinct_desugared", 0),
            "definition_wf_failures": len(lf_wf),
            "theorem_equations_evaluated_false": len(lf_thm),
            "error_reports": dict(lf["errors"], rule="on an error of into_cfg the REPORT it turns into (CFGError::into_report: code, "
                                  "message with the name, primary label = location and file) is compared with "
                                  "Model.LiftFullReport.param_collision_report, not only the kind; `invalid-name` carries no name / "
                                  "location in the mirror and is compared by kind (unreachable from parsed sources: a name never "
                                  "holds two dots); UndefinedVariableError is an answer of into_ssa, not of into_cfg (C14)"),
            "statements_sharing_a_meta": dict(lf["shared_meta"], rule="per distinct desugared definition: do two statements that "
                                              "become IR statements carry the same meta (LiftFullReport.stmt_metas_distinct_b = false)? "
                                              "The by-meta theorems (C13_liftfull_skeleton, _cfg_contains_source*) do not order such "
                                              "statements; C13_liftfull_content_provenance does. `evaluated - definitions_with_..` is the "
                                              "number of definitions on which the hypothesis NoDup metas of "
                                              "C13_liftfull_walk_statements_are_images holds (decided by stmt_metas_distinct_b, "
                                              "C13_stmt_metas_distinct_b_sound)"),
            "hypothesis_desugared_shape": lf["shape"],
            "containment_oracle": dict(lf["walk"], failures=len(lf["walk_failures"]),
                                       rule="per distinct desugared definition that lifts: Spec.CfgSpec.trace_tree of its skeleton "
                                            "(statements named by the proved-injective positional key, printed as start_end of the "
                                            "meta) under every decision list up to `bound` must be contained in the walk of the REAL "
                                            "graph printed by the harness (prefix; equal without return)"),
            "c12_clauses_on_these_definitions": {"evaluated": lf["stats"].get("c12_views", 0), "failures": len(lf["c12_bad"]),
                                                 "note": "filed under C12 (lib/props/C12.py runs the same evaluation); counted here"},
            "samples": lf["samples"][:1] if not lf_dis else lf_dis[:1],
        },
        "open_statements": [
            "for definitions in which two statements that become IR statements SHARE a meta (counted: "
            "liftfull.statements_sharing_a_meta) no theorem joins the positional content-level provenance "
            "(C13_liftfull_content_provenance) with the walk: `in the order executed` is there the by-meta containment and the "
            "block-order Forall2, two facts; for the other definitions C13_liftfull_walk_statements_are_images does the join "
            "(its hypothesis NoDup metas is evaluated per definition, flag MD)",
            "`image` is the MIRROR's per-statement function LiftFull.lift_stmt; that it is intermediate_representation/lifting.rs "
            "is the text comparison of the liftfull stage (observed on generated definitions), not a theorem",
        ],
    })
    ctx.assumptions += [
        "the skeleton abstraction of C12 (lifting looks only at statement kinds); leaf statements and conditions are "
        "identified by the number literal rendered into them",
        "the parser turns `for` into the expansion mirrored by Model.Lift.for_into_while: observed by the correspondence "
        "(block lists, walk trees) on rendered `for` loops; that this expansion has the meaning of the source `for` is "
        "proved (C13_surface_semantics_is_expansion)",
        "the parser turns every compound assignment into the plain assignment of Spec.SurfaceSpec.expected_statement "
        "(= Model.Shortcuts.parse_substitution): observed on every rendered compound assignment (all 14 operators, scalar and "
        "array-element targets, statement and for-header position), operand order included; that this assignment means the "
        "compound one is proved (C13_compound_mirror_sem; expected_statement and parse_substitution are one function written "
        "twice, so `implementation vs specification` and `implementation vs mirror` in lifteng.forms_compare are the same "
        "comparison); the token -> opcode table used to render the operators "
        "is lifteng.COMPOUND_OPS (trusted, 12 lines)",
        "the bounded enumeration of decision lists is only the violation search; the claim for all decision lists is the theorem",
        "Model.LiftFull (content-carrying lifting mirror: renaming, AST -> IR with metas, blocks, declarations) is tied to "
        "lifting.rs / intermediate_representation/lifting.rs / unique_vars.rs by the text comparison of stage `liftfull` on "
        "generated definitions only; the parser and the desugarer in front of it are the real ones (their mirrors are C18's); "
        "DominatorTree::new, cache_variable_use and the expression-level part of propagate_types are not mirrored",
        "C13_liftfull_skeleton identifies a statement / condition by an arbitrary function of its META: two statements with "
        "equal metas (the Declaration / Substitution statements one declaration list is split into, the statements a tuple or "
        "anonymous-component statement is expanded into) get the same skeleton id and are not ordered by the by-meta theorems "
        "(C13_liftfull_walk_statements_are_images joins content and walk ids for bodies WITHOUT such statements); their order is stated by "
        "C13_liftfull_content_provenance (Forall2 image); how many definitions have such statements is counted "
        "(liftfull.statements_sharing_a_meta)",
        "the text of the reports of lifting (shadowing warning, parameter collision: code, message, labels) is "
        "Model.LiftFullReport (Gallina), compared as text with CFGError::into_report on every run; the OCaml driver only prints",
    ]


def replay(ctx, rep):
    if rep.get("liftfull_src"):
        print("source:", rep["liftfull_src"])
        n = liftfull_engine.replay_source(common, rep["liftfull_src"])
        n += liftfull_engine.replay_walk(common, rep["liftfull_src"], int(rep.get("bound") or 4))
        return 1 if n else 0
    body = rep.get("body")
    if not body:
        print("replay names a broken obligation, not an input:", rep.get("broken"))
        return 1
    case = lifteng.make_case(lifteng.from_jsonable(body), rich=rep.get("rich"))
    bad_forms = []
    if case.get("compound"):
        (_, fi, fm), = lifteng.run_forms(common, [case])
        bad_forms, _ = lifteng.forms_compare(case, fi, fm)
    res = lifteng.run_walk(common, [case], int(rep.get("bound") or 6))
    _, impl, model = res[0]
    print("source        :", case["src"])
    print("implementation:", impl[:3000])
    print("specification :", model.split(" # W ")[0][:3000])
    if impl.startswith("W ") and model.startswith("T "):
        bad = lifteng.containment_failures(lifteng.parse_tree(model[2:].split(" # W ")[0]), lifteng.parse_tree(impl[2:]))
        for b in (bad + bad_forms)[:5]:
            print("violated      :", b)
        return 1 if bad or bad_forms else 0
    return 1
