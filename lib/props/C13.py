"""C13 — the control-flow graph contains every source execution, statement by
statement.

Correspondence: as for C12 (real parser + into_cfg vs Model.Lift.lift), plus the
decision tree of the walk of the REAL graph (harness, rule of the property
text: true edge, else recorded false_index, else the only other successor)
against the decision tree of the walk of the model graph (Spec.CfgSpec.walk_tree).
Oracle (violation search only; the theorem is the claim): the structured
semantics of the source skeleton (Spec.CfgSpec.trace_tree, extracted) under every
decision list up to a bound must be a prefix of the real walk under the same
decisions, and equal to it when no `return` is executed."""
import common
import lifteng
from props import C12


def run(ctx, proofs):
    quick = ctx.tier == "quick"
    corpus = C12.corpus_cases("C13")
    cases, n_exh, max_nodes, sizes = C12.gen_cases(ctx, 7, 8, 1500, 15000)
    bound_small, bound_big = (6, 7) if quick else (7, 9)
    small = corpus + cases[:n_exh]
    big = cases[n_exh:]
    disagreements, failing = [], []
    lists_checked = 0
    returned = 0
    nontrivial = set()
    samples = []
    # the block lists themselves (the theorem speaks about Model.Lift.lift)
    for case, impl, model in lifteng.run_cfg(common, small + big):
        d = lifteng.cfg_compare(case, impl, model)
        if d is not None:
            disagreements.append(d)
    for part, bound in ((small, bound_small), (big, bound_big)):
        for case, impl, model in lifteng.run_walk(common, part, bound):
            if not (impl.startswith("W ") and model.startswith("T ") and " # W " in model):
                failing.append({"input": case["src"], "body": lifteng.to_jsonable(case["body"]), "bound": bound,
                                "impl": impl[:500], "spec": "the definition parses and lifts (model: %s)" % model[:200]})
                continue
            t_text, w_model = model[2:].split(" # W ", 1)
            if w_model != impl[2:]:
                disagreements.append({"src": case["src"], "sx": case["sx"], "impl": impl[:2000], "model": "W " + w_model[:2000]})
            ttree = lifteng.parse_tree(t_text)
            wtree = lifteng.parse_tree(impl[2:])
            lists_checked += len(ttree)
            returned += sum(1 for t in ttree if t[2] == 'R')
            bad = lifteng.containment_failures(ttree, wtree)
            if bad:
                failing.append({"input": case["src"], "body": lifteng.to_jsonable(case["body"]), "bound": bound,
                                "impl": impl[:3000], "spec": bad[:3]})
            if len(ttree) > 1:
                nontrivial.add(t_text)
            if len(samples) < 3 and len(ttree) > 3 and lifteng.size(case["body"]) >= 6:
                samples.append({"src": case["src"], "trace_tree": t_text[:400], "walk_tree": impl[:400]})
    for f in failing[:5]:
        ctx.violation("the walk of the control-flow graph does not contain the source execution: %s" % (f["spec"],), f)
    if not failing:
        if disagreements:
            d = disagreements[0]
            ctx.violation("correspondence Model.Lift.lift / walk vs lifting.rs broken (%d cases; first: %s); the source "
                          "executions were contained in the real walk on every explored input" % (len(disagreements), d["src"]),
                          {"broken": "correspondence lift (block lists / walk trees)", "first": d,
                           "count": len(disagreements)}, no_input=True)
        elif proofs["failures"]:
            ctx.violation("proof obligations of C13 no longer check: " + "; ".join(proofs["failures"])[:500],
                          {"broken": "props/C13.v", "failures": proofs["failures"]}, no_input=True)
    ctx.coverage.update({
        "evaluations": lists_checked,
        "programs": len(small) + len(big),
        "distinct_nontrivial": len(nontrivial),
        "rule": "every surface skeleton body with at most %d nodes (%d programs, exhaustive, incl. for loops, compound "
                "assignments, returns, bare bodies, empty blocks) under every decision list up to length %d, plus %d seeded random "
                "bodies up to 60 nodes under every decision list up to length %d and %d corpus programs; an evaluation is one "
                "(program, maximal decision list) pair of the structured semantics compared with the walk of the real graph; "
                "distinct-nontrivial = distinct decision trees with more than one decision list"
                % (max_nodes, n_exh, bound_small, len(big), bound_big, len(corpus)),
        "exhaustive": True,
        "exhaustive_part": "all %d bodies with <= %d nodes x all decision lists of length <= %d" % (n_exh, max_nodes, bound_small),
        "decision_lists_ending_in_return": returned,
        "random_size_histogram": {str(k): v for k, v in sorted(sizes.items())},
        "samples": [disagreements[0]] if disagreements else samples,
        "disagreements_model_vs_impl": len(disagreements),
        "spec_failures": len(failing),
        "open_statements": [
            {"name": "C13_exhausted_equality_full_statement",
             "statement": "when the decisions run out at a condition the walk stops at the same point (trace = walk); "
                          "proved only as a prefix (C13_cfg_contains_source) and as equality when the program runs to its end",
             "reason": "time box; observed true on every explored (program, decision list) pair"}],
    })
    ctx.assumptions += [
        "the skeleton abstraction of C12 (lifting looks only at statement kinds); leaf statements and conditions are "
        "identified by the number literal rendered into them",
        "the parser turns `for` and compound assignments into the expansions mirrored by Model.Lift.for_into_while / "
        "assign_with_op_shortcut: observed by the correspondence on rendered `for` loops and `+=` statements",
        "the bounded enumeration of decision lists is only the violation search; the claim for all decision lists is the theorem",
    ]


def replay(ctx, rep):
    body = rep.get("body")
    if not body:
        print("replay names a broken obligation, not an input:", rep.get("broken"))
        return 1
    case = lifteng.make_case(lifteng.from_jsonable(body))
    res = lifteng.run_walk(common, [case], int(rep.get("bound", 6)))
    _, impl, model = res[0]
    print("source        :", case["src"])
    print("implementation:", impl[:3000])
    print("specification :", model.split(" # W ")[0][:3000])
    if impl.startswith("W ") and model.startswith("T "):
        bad = lifteng.containment_failures(lifteng.parse_tree(model[2:].split(" # W ")[0]), lifteng.parse_tree(impl[2:]))
        for b in bad[:5]:
            print("violated      :", b)
        return 1 if bad else 0
    return 1
