"""Generator, renderer, projection and ORACLE for property C10 (lexical scoping
and shadowing reports).

A generated definition is a small source-level AST (Python tuples). From it
this module derives, independently of each other:

* `render`     the Circom source text, with the byte range of every declaration
               statement and of the parameter list;
* `projection` the named projection in the token format of
               harness/src/bin/uniq.rs (what the parser is expected to build,
               desugaring of `for`, `var a = e, b`, `x += e`, `x++` included);
               it is the input of the Coq model;
* `resolve`    the ground truth of the property: a direct lexical-scope
               resolver over the *source-level* AST (a `for` is a scope, a
               block, a loop body and a branch are scopes whether braced or
               not, parameters are outermost, a declaration is
               visible from its own position on and not in its own dimension
               expressions). It never looks at the projection or at any
               renaming.

Expressions:  ('v', name, [accesses]) | ('n', k) | ('op', a, b) | ('call', [args])
              | ('tern', c, a, b) | ('arr', [es]) | ('neg', e)
              | ('par', e)       `parallel e` (only as a whole right-hand side / initialiser)
              an access is an index expression or ('dot', field) for `.field`
              | ('anon', [params], [signals], [input names]|None)   anonymous component
Statements:   ('decl', kw, [(name, [dims], init|None)])     kw: var | signal | signal input | signal output | component
              ('asg', name, [idx], rhs, form)               form: = <== <-- ==> -->
              ('opasg', name, [idx], rhs)   x += e          ('inc', name, [idx])   x++
              ('block', [s]) ('while', c, s) ('for', init, c, step, s) ('if', c, s, s|None)
              ('ret', e) ('log', [e]) ('assert', e) ('ceq', a, b) ('multi', [names], [es])
Definition:   (kind, name, [params], [body statements])     kind: function | template
"""

# --------------------------------------------------------------------------
# expressions
# --------------------------------------------------------------------------

# the name a ('call', ..) is rendered with: `g` (defined nowhere); the end-to-end
# files of C10.py set it to the name of another definition of the same file
CALLEE = ["g"]


def V(name, idx=()):
    return ('v', name, list(idx))


def acc_exprs(acc):
    """The index expressions of an access list (`.field` entries carry no expression)."""
    return [a for a in acc if a[0] != 'dot']


def racc(acc):
    return "".join(".%s" % a[1] if a[0] == 'dot' else "[%s]" % rexpr(a) for a in acc)


def uses_pre(e):
    """Variable names of an expression, left to right (= the visit order)."""
    k = e[0]
    if k == 'v':
        out = [e[1]]
        for i in acc_exprs(e[2]):
            out += uses_pre(i)
        return out
    if k == 'n':
        return []
    if k == 'par':
        return uses_pre(e[1])
    if k == 'op':
        return uses_pre(e[1]) + uses_pre(e[2])
    if k == 'neg':
        return uses_pre(e[1])
    if k == 'tern':
        return uses_pre(e[1]) + uses_pre(e[2]) + uses_pre(e[3])
    if k in ('call', 'arr'):
        out = []
        for a in e[1]:
            out += uses_pre(a)
        return out
    if k == 'anon':                  # C(params)(signals) / C(params)(name <== signal, ..)
        out = []
        for a in e[1] + e[2]:
            out += uses_pre(a)
        return out + list(e[3] or [])
    raise ValueError(k)


def has_sugar(x):
    """Does the statement/expression tree contain a tuple assignment or an
    anonymous component (removed by the desugarer before lifting)?"""
    if isinstance(x, (list, tuple)):
        if len(x) > 0 and x[0] in ('multi', 'anon'):
            return True
        return any(has_sugar(y) for y in x)
    return False


def rexpr(e):
    k = e[0]
    if k == 'v':
        return e[1] + racc(e[2])
    if k == 'n':
        return str(e[1])
    if k == 'par':
        return "parallel %s" % rexpr(e[1])
    if k == 'op':
        return "(%s + %s)" % (rexpr(e[1]), rexpr(e[2]))
    if k == 'neg':
        return "(-%s)" % rexpr(e[1])
    if k == 'tern':
        return "(%s ? %s : %s)" % (rexpr(e[1]), rexpr(e[2]), rexpr(e[3]))
    if k == 'call':
        return "%s(%s)" % (CALLEE[0], ", ".join(rexpr(a) for a in e[1]))
    if k == 'arr':
        return "[%s]" % ", ".join(rexpr(a) for a in e[1])
    if k == 'anon':
        if e[3]:
            sig = ", ".join("%s <== %s" % (n, rexpr(a)) for n, a in zip(e[3], e[2]))
        else:
            sig = ", ".join(rexpr(a) for a in e[2])
        return "C(%s)(%s)" % (", ".join(rexpr(a) for a in e[1]), sig)
    raise ValueError(k)


# --------------------------------------------------------------------------
# rendering (records the byte range of every declaration statement)
# --------------------------------------------------------------------------

class Out:
    def __init__(self):
        self.buf = []
        self.pos = 0
        self.decl_ranges = []     # one per declared symbol, in source order
        self.param_range = None

    def w(self, s):
        self.buf.append(s)
        self.pos += len(s.encode())

    def text(self):
        return "".join(self.buf)


def _decl_text(s):
    kw, syms = s[1], s[2]
    init_op = " = " if kw in ("var", "component") else " <== "
    parts = []
    for name, dims, init in syms:
        t = name + "".join("[%s]" % rexpr(d) for d in dims)
        if init is not None:
            t += init_op + rexpr(init)
        parts.append(t)
    return kw + " " + ", ".join(parts)


def _simple_text(s):
    """Text of a substitution-like statement without the `;`."""
    k = s[0]
    if k == 'asg':
        lhs = s[1] + racc(s[2])
        if s[4] in ("==>", "-->"):
            return "%s %s %s" % (rexpr(s[3]), s[4], lhs)
        return "%s %s %s" % (lhs, s[4], rexpr(s[3]))
    if k == 'opasg':
        return "%s += %s" % (s[1] + racc(s[2]), rexpr(s[3]))
    if k == 'inc':
        return "%s++" % (s[1] + racc(s[2]))
    raise ValueError(k)


def rstmt(s, o, ind):
    k = s[0]
    pad = "  " * ind
    if k == 'decl':
        o.w(pad)
        start = o.pos
        o.w(_decl_text(s))
        for _ in s[2]:
            o.decl_ranges.append((start, o.pos))
        o.w(";\n")
    elif k in ('asg', 'opasg', 'inc'):
        o.w(pad + _simple_text(s) + ";\n")
    elif k == 'block':
        o.w(pad + "{\n")
        for t in s[1]:
            rstmt(t, o, ind + 1)
        o.w(pad + "}\n")
    elif k == 'while':
        o.w(pad + "while (%s)\n" % rexpr(s[1]))
        rstmt(s[2], o, ind + 1)
    elif k == 'for':
        o.w(pad + "for (")
        init = s[1]
        if init[0] == 'decl':
            start = o.pos
            o.w(_decl_text(init))
            for _ in init[2]:
                o.decl_ranges.append((start, o.pos))
        else:
            o.w(_simple_text(init))
        o.w("; %s; %s)\n" % (rexpr(s[2]), _simple_text(s[3])))
        rstmt(s[4], o, ind + 1)
    elif k == 'if':
        o.w(pad + "if (%s)\n" % rexpr(s[1]))
        rstmt(s[2], o, ind + 1)
        if s[3] is not None:
            o.w(pad + "else\n")
            rstmt(s[3], o, ind + 1)
    elif k == 'ret':
        o.w(pad + "return %s;\n" % rexpr(s[1]))
    elif k == 'log':
        o.w(pad + "log(%s);\n" % ", ".join(rexpr(e) for e in s[1]))
    elif k == 'assert':
        o.w(pad + "assert(%s);\n" % rexpr(s[1]))
    elif k == 'ceq':
        o.w(pad + "%s === %s;\n" % (rexpr(s[1]), rexpr(s[2])))
    elif k == 'multi':
        o.w(pad + "(%s) = (%s);\n" % (", ".join(s[1]), ", ".join(rexpr(e) for e in s[2])))
    else:
        raise ValueError(k)


def render(d):
    """-> (text, decl_ranges, param_range)"""
    kind, name, params, body = d
    o = Out()
    o.w("%s %s(" % (kind, name))
    a = o.pos
    o.w(", ".join(params))
    o.param_range = (a, o.pos)
    o.w(") {\n")
    for s in body:
        rstmt(s, o, 1)
    o.w("}\n")
    return o.text(), o.decl_ranges, o.param_range


# --------------------------------------------------------------------------
# projection: what the parser builds, as tokens
# --------------------------------------------------------------------------

KIND = {"var": "v", "component": "c", "signal": "s", "signal input": "s", "signal output": "s"}


def _cnt(tag, names):
    return [tag, str(len(names))] + list(names)


def _flat(es):
    out = []
    for e in es:
        out += uses_pre(e)
    return out


def pstmt(s, ranges, out):
    """Appends the tokens of s; `ranges` is an iterator over decl ranges."""
    k = s[0]
    if k == 'decl':
        items = []
        n = 0
        for name, dims, init in s[2]:
            a, b = next(ranges)
            items.append(["D", KIND[s[1]], name, str(a), str(b)] + _cnt("", _flat(dims))[1:])
            n += 1
            if init is not None:
                items.append(["S", name] + _cnt("", uses_pre(init))[1:])
                n += 1
        out += ["I", str(n)]
        for it in items:
            out += it
    elif k == 'asg':
        out += ["S", s[1]] + _cnt("", _flat(acc_exprs(s[2])) + uses_pre(s[3]))[1:]
    elif k == 'opasg':
        out += ["S", s[1]] + _cnt("", _flat(acc_exprs(s[2])) + [s[1]] + _flat(acc_exprs(s[2])) + uses_pre(s[3]))[1:]
    elif k == 'inc':
        out += ["S", s[1]] + _cnt("", _flat(acc_exprs(s[2])) + [s[1]] + _flat(acc_exprs(s[2])))[1:]
    elif k == 'block':
        out += ["B", str(len(s[1]))]
        for t in s[1]:
            pstmt(t, ranges, out)
    elif k == 'while':
        out += _cnt("W", uses_pre(s[1]))
        pstmt(s[2], ranges, out)
    elif k == 'for':
        # for_into_while: Block[init, While(cond, Block[body, step])]
        out += ["B", "2"]
        pstmt(s[1], ranges, out)
        out += _cnt("W", uses_pre(s[2]))
        out += ["B", "2"]
        pstmt(s[4], ranges, out)
        pstmt(s[3], ranges, out)
    elif k == 'if':
        out += _cnt("F", uses_pre(s[1]))
        pstmt(s[2], ranges, out)
        if s[3] is None:
            out.append("-")
        else:
            pstmt(s[3], ranges, out)
    elif k == 'ret':
        out += _cnt("R", uses_pre(s[1]))
    elif k == 'log':
        out += _cnt("L", _flat(s[1]))
    elif k == 'assert':
        out += _cnt("A", uses_pre(s[1]))
    elif k == 'ceq':
        out += _cnt("C", uses_pre(s[1]) + uses_pre(s[2]))
    elif k == 'multi':
        out += _cnt("M", list(s[1]) + _flat(s[2]))
    else:
        raise ValueError(k)


def projection(d, decl_ranges, param_range):
    kind, name, params, body = d
    out = ["P", str(len(params))] + list(params) + [str(param_range[0]), str(param_range[1])]
    out += ["B", str(len(body))]
    it = iter(decl_ranges)
    for s in body:
        pstmt(s, it, out)
    return " ".join(out)


# --------------------------------------------------------------------------
# ORACLE: lexical scope resolution on the source-level AST
# --------------------------------------------------------------------------

def resolve(d):
    """-> dict(occ=[(kind, name, decl)], shadows=[(decl index, shadowed)], ndecl, dup_param, kw=[keyword per declaration])
    kind: d declaration, t assignment target, u other use. decl: index of the
    declaration (in source order) the occurrence denotes, ('p', i) for a
    parameter, None for a name that is not declared at that point.
    shadowed: a declaration index or ('p', i)."""
    kind, name, params, body = d
    scopes = [{}]
    for i, p in enumerate(params):
        scopes[0].setdefault(p, ('p', i))
    occ, shadows = [], []
    ndecl = [0]
    kws = []

    def lookup(n):
        for sc in reversed(scopes):
            if n in sc:
                return sc[n]
        return None

    def use(n, kind='u'):
        occ.append((kind, n, lookup(n)))

    def expr(e):
        for n in uses_pre(e):
            use(n)

    def declare(kw, syms):
        for nm, dims, init in syms:
            for dd in dims:
                expr(dd)           # the declared name is not yet visible here
            prev = lookup(nm)
            me = ndecl[0]
            ndecl[0] += 1
            kws.append(kw)
            if prev is not None:
                shadows.append((me, prev))
            scopes[-1][nm] = me
            occ.append(('d', nm, me))
            if init is not None:
                use(nm, 't')
                expr(init)

    def stmt(s):
        k = s[0]
        if k == 'decl':
            declare(s[1], s[2])
        elif k == 'asg':
            use(s[1], 't')
            for i in acc_exprs(s[2]):
                expr(i)
            expr(s[3])
        elif k == 'opasg':
            use(s[1], 't')
            for i in acc_exprs(s[2]):
                expr(i)
            use(s[1])
            for i in acc_exprs(s[2]):
                expr(i)
            expr(s[3])
        elif k == 'inc':
            use(s[1], 't')
            for i in acc_exprs(s[2]):
                expr(i)
            use(s[1])
            for i in acc_exprs(s[2]):
                expr(i)
        elif k == 'block':
            scopes.append({})
            for t in s[1]:
                stmt(t)
            scopes.pop()
        elif k == 'while':
            expr(s[1])
            scopes.append({})      # a loop body is a scope, block or not
            stmt(s[2])
            scopes.pop()
        elif k == 'for':
            scopes.append({})      # the loop header is a scope of its own
            stmt(s[1])
            expr(s[2])
            scopes.append({})      # one iteration: body, then step
            stmt(s[4])
            stmt(s[3])
            scopes.pop()
            scopes.pop()
        elif k == 'if':
            expr(s[1])
            scopes.append({})      # so is each branch: nothing declared in it is visible
            stmt(s[2])             # in the other branch or after the `if`
            scopes.pop()
            if s[3] is not None:
                scopes.append({})
                stmt(s[3])
                scopes.pop()
        elif k == 'ret':
            expr(s[1])
        elif k == 'log':
            for e in s[1]:
                expr(e)
        elif k == 'assert':
            expr(s[1])
        elif k == 'ceq':
            expr(s[1])
            expr(s[2])
        elif k == 'multi':
            for n in s[1]:
                use(n)
            for e in s[2]:
                expr(e)
        else:
            raise ValueError(k)

    scopes.append({})              # the body block
    for s in body:
        stmt(s)
    scopes.pop()
    dup = None
    for i, p in enumerate(params):
        if p in params[:i]:
            dup = p
            break
    return {"occ": occ, "shadows": shadows, "ndecl": ndecl[0], "dup_param": dup, "kw": kws}


# --------------------------------------------------------------------------
# exhaustive space: scope forests over leaves D n / U n / T n
# --------------------------------------------------------------------------

def forests(k, depth, leaves):
    """All sequences of items with exactly k leaves; an item is a leaf or a
    block ('b', items) of nesting depth <= depth. Blocks are non-empty and
    never consist of a single block (that nesting adds no scope pattern)."""
    if k == 0:
        yield []
        return
    for leaf in leaves:
        for rest in forests(k - 1, depth, leaves):
            yield [leaf] + rest
    if depth > 0:
        for inner in range(1, k + 1):
            for blk in forests(inner, depth - 1, leaves):
                if len(blk) == 1 and blk[0][0] == 'b':
                    continue
                for rest in forests(k - inner, depth, leaves):
                    yield [('b', blk)] + rest


def count_forests(k, depth, nleaves, memo={}):
    key = (k, depth, nleaves)
    if key in memo:
        return memo[key]
    if k == 0:
        return 1
    n = nleaves * count_forests(k - 1, depth, nleaves)
    if depth > 0:
        for inner in range(1, k + 1):
            n += (count_forests(inner, depth - 1, nleaves) - _single(inner, depth - 1, nleaves)) * count_forests(k - inner, depth, nleaves)
    memo[key] = n
    return n


def _single(k, depth, nleaves):
    """Number of forests with k leaves (depth <= depth) that are one block."""
    if depth <= 0 or k == 0:
        return 0
    return count_forests(k, depth - 1, nleaves) - _single(k, depth - 1, nleaves)


def realise(items, rng, kind, counter):
    """Turns a scope forest into statements. Blocks become plain blocks, loop
    bodies or branches (seeded choice); leaves become the simplest statement
    of their kind."""
    out = []
    i = 0
    while i < len(items):
        it = items[i]
        if it[0] == 'b':
            inner = ('block', realise(it[1], rng, kind, counter))
            c = rng.randrange(4)
            counter[0] += 1
            num = ('n', counter[0])
            if c == 0:
                out.append(inner)
            elif c == 1:
                out.append(('while', num, inner))
            elif c == 2:
                out.append(('if', num, inner, None))
            else:
                # if/else: the next sibling block (if any) becomes the else branch
                if i + 1 < len(items) and items[i + 1][0] == 'b':
                    i += 1
                    els = ('block', realise(items[i][1], rng, kind, counter))
                    out.append(('if', num, inner, els))
                else:
                    out.append(('if', num, inner, ('block', [])))
        else:
            tag, n = it
            counter[0] += 1
            num = ('n', counter[0])
            if tag == 'D':
                kw = "var"
                if kind == "template":
                    kw = rng.choice(["var", "var", "signal", "component"])
                init = num if kw == "var" else None
                out.append(('decl', kw, [(n, [], init)]))
            elif tag == 'U':
                c = rng.randrange(3)
                if c == 0:
                    out.append(('log', [V(n)]))
                elif c == 1:
                    out.append(('assert', ('op', V(n), num)))
                else:
                    out.append(('log', [('op', num, V(n))]))
            else:
                c = rng.randrange(3)
                if c == 0:
                    out.append(('asg', n, [], num, "="))
                elif c == 1:
                    out.append(('opasg', n, [], num))
                else:
                    out.append(('inc', n, []))
        i += 1
    return out


# --------------------------------------------------------------------------
# random definitions
# --------------------------------------------------------------------------

NAMES = ["x", "x_0", "y", "x_1", "x_0_0", "x_0_1", "$x", "_x", "x$0", "T_3_45",
         "x0", "x1", "x00", "x_", "x__0", "x_00", "x01", "x10", "x0_0", "x_0_", "x$", "x$$0", "xx", "x_x"]

# Identifiers the grammar accepts that look like a renamed / suffixed / versioned
# `x`: whatever separator (none, `_`, `$`, `__`) a key or a printed form puts
# between the name and a suffix or version number, one of these collides with
# it. `x.0` itself is not an identifier (C10_identifiers_have_no_dot).
LOOKALIKES = ["x_0", "x0", "x_1", "x1", "x00", "x_0_0", "x0_0", "x$0", "x__0", "x_00", "x_0_1", "x01", "x10", "x_", "x$"]


# identifiers that are themselves the key of a suffixed `x` under the key format the
# lint read from ssa_impl.rs (empty for `name.suffix`: `x.0` is no identifier)
EXTRA_LOOKALIKES = []


def name_pool(rng):
    """The names of one random definition: `x`, one to three lookalikes of a
    suffixed `x`, `y`, now and then a few unrelated shapes. `x_0` (the D20
    pattern) and `x0` (no separator) are the most frequent lookalikes."""
    r = rng.random()
    if r < 0.30:
        look = ["x_0"]
    elif r < 0.55:
        look = ["x0"]
    elif r < 0.70:
        look = ["x_0", "x0"]
    elif r < 0.80:
        look = ["x1", "x_1"] if rng.random() < 0.5 else ["x0", "x1"]
    else:
        look = rng.sample(LOOKALIKES, 1 + rng.randrange(3))
    if EXTRA_LOOKALIKES and rng.random() < 0.6:
        look = rng.sample(EXTRA_LOOKALIKES, min(len(EXTRA_LOOKALIKES), 1 + rng.randrange(2))) + look[:1]
    names = ["x"] + look + ["y"]
    if rng.random() < 0.15:
        names += rng.sample(["$x", "_x", "T_3_45", "xx", "x_x"], 1 + rng.randrange(2))
    return names


FIELDS = ["out", "in", "x", "x_0"]      # `.field` after a component (or any) name; never a variable occurrence


def rand_def(rng, size, names=None, kind=None, clean=False, maxdepth=4):
    """A random definition with about `size` declarations/uses. `clean`
    restricts to functions in which every variable is initialised where it is
    declared and every use is declared (SSA construction must succeed)."""
    names = names or name_pool(rng)
    kind = kind or ("function" if clean or rng.random() < 0.6 else "template")
    nparams = rng.choice([0, 1, 1, 2, 3, 4, 5])
    params = []
    for _ in range(nparams):
        p = rng.choice(names)
        if p not in params or (not clean and rng.random() < 0.05):
            params.append(p)
    if not clean and nparams >= 4 and rng.random() < 0.04:
        # two different names repeat: `the first repeated parameter` is not `any repeated one`
        extra = [n for n in names if n not in params][:2] or ["p", "q"]
        params = (params + extra)[:3]
        a, b = rng.sample(params, 2) if len(params) >= 2 else (params[0], params[0])
        params = params + ([b, a] if rng.random() < 0.5 else [a, b])
    budget = [size]
    counter = [0]

    def num():
        counter[0] += 1
        return ('n', counter[0])

    def visible_names(vis):
        return [n for n in names if n in vis]

    def pick(vis):
        if clean:
            c = visible_names(vis)
            return rng.choice(c) if c else None
        return rng.choice(names)

    def expr(vis, depth=0):
        budget[0] -= 1
        r = rng.random()
        n = pick(vis)
        if n is None:
            return num()
        if depth >= 2 or r < 0.45:
            if not clean and rng.random() < 0.18:
                return V(n, accesses(vis, depth + 1))
            return V(n)
        if r < 0.7:
            return ('op', expr(vis, depth + 1), expr(vis, depth + 1))
        if r < 0.8:
            return ('op', expr(vis, depth + 1), num())
        if r < 0.86:
            return ('call', [expr(vis, depth + 1), num()])
        if r < 0.92:
            return ('tern', expr(vis, depth + 1), expr(vis, depth + 1), num())
        if r < 0.96:
            return ('neg', expr(vis, depth + 1))
        return ('arr', [expr(vis, depth + 1), num()]) if not clean else ('op', num(), expr(vis, depth + 1))

    def accesses(vis, depth):
        """One to three accesses: index expressions and (templates) `.field`s."""
        out = []
        for _ in range(rng.choice([1, 1, 2, 2, 3])):
            if kind == "template" and rng.random() < 0.3:
                out.append(('dot', rng.choice(FIELDS)))
            else:
                out.append(top(expr(vis, min(depth, 2)), 0.05))
        return out

    def top(e, p=0.08):
        """A whole expression, now and then under `parallel`."""
        return ('par', e) if rng.random() < p else e

    def simple_assign(vis):
        n = pick(vis)
        if n is None:
            return ('log', [num()])
        budget[0] -= 1
        c = rng.randrange(6)
        if c == 0:
            return ('opasg', n, accesses(vis, 1) if not clean and rng.random() < 0.15 else [], top(expr(vis, 1)))
        if c == 1:
            return ('inc', n, accesses(vis, 1) if not clean and rng.random() < 0.15 else [])
        if c == 2 and not clean:
            return ('asg', n, accesses(vis, 1), top(expr(vis, 1)), "=")
        return ('asg', n, [], top(expr(vis, 1)), "=")

    def block(vis, depth, top=False):
        vis = set(vis)
        out = []
        n = 1 + rng.randrange(4) if not top else 2 + rng.randrange(4)
        for _ in range(n):
            if budget[0] <= 0:
                break
            out.append(stmt(vis, depth))
        return out

    def braced(vis, depth):
        return ('block', block(vis, depth + 1))

    def unbraced(vis, depth, lvl):
        """A body without braces: never a declaration (the grammar has none there).
        lvl follows the statement tiers of lang.lalrpop: 2 = loop body (no `if` at
        all), 1 = a then-branch that is followed by `else` (only `if`s that have an
        else themselves), 0 = anything (an else-less `if` too)."""
        r = rng.random()
        if r < 0.50 or budget[0] <= 0 or depth >= maxdepth:
            return simple_assign(vis)
        if r < 0.62:
            return ('log', [expr(vis, 1)])
        if r < 0.70:
            return ('assert', expr(vis, 1))
        if r < 0.80:
            return ('while', expr(vis, 1), unbraced(vis, depth + 1, 2))
        if lvl <= 1 and r < 0.90:
            return ('if', expr(vis, 1), unbraced(vis, depth + 1, 1), unbraced(vis, depth + 1, lvl))
        if lvl == 0:
            return ('if', expr(vis, 1), unbraced(vis, depth + 1, 0), None)
        return simple_assign(vis)

    def stmt(vis, depth):
        r = rng.random()
        if r < 0.30:
            # declaration
            budget[0] -= 1
            kw = "var"
            if kind == "template" and rng.random() < 0.5:
                kw = rng.choice(["signal", "signal input", "signal output", "component"])
            syms = []
            for _ in range(1 if rng.random() < 0.85 else 2):
                n = rng.choice(names)
                dims = []
                if not clean and rng.random() < 0.18:
                    dims = [top(expr(vis, 1), 0.05) for _ in range(rng.choice([1, 2, 2, 3]))]
                init = None
                if kw == "var" and clean:
                    init = top(expr(vis - {n}, 1))      # `var n = n` would read the new, unassigned n
                elif kw == "var" and rng.random() < 0.7:
                    init = top(expr(vis, 1))            # may mention n itself (the new binding)
                elif kw in ("signal", "signal output") and rng.random() < 0.3:
                    init = expr(vis, 1)
                elif kw == "component" and rng.random() < 0.6:
                    init = ('call', [expr(vis, 1), num()])     # C(args): the arguments are occurrences
                    if rng.random() < 0.5:
                        init = ('par', init)                   # component c = parallel C(args)
                syms.append((n, dims, init))
                vis.add(n)
            return ('decl', kw, syms)
        if r < 0.50:
            return simple_assign(vis)
        if r < 0.60:
            return ('log', [top(expr(vis), 0.04)])
        if r < 0.64:
            return ('assert', top(expr(vis), 0.04))
        if r < 0.67 and not clean and kind == "template":
            if rng.random() < 0.5:
                return ('multi', [rng.choice(names), rng.choice(names)], [expr(vis, 1), expr(vis, 1)])
            anon = ('anon', [expr(vis, 1)], [expr(vis, 1), expr(vis, 1)], ["in1", "in2"] if rng.random() < 0.5 else None)
            n = rng.choice(names)
            vis.add(n)
            return ('decl', "signal", [(n, [], anon)])
        if depth < maxdepth and budget[0] > 0:
            if r < 0.72:
                return braced(vis, depth)
            if r < 0.80:
                body = braced(vis, depth) if rng.random() < 0.8 else unbraced(vis, depth, 2)
                return ('while', top(expr(vis, 1), 0.04), body)
            if r < 0.90:
                els = None
                if rng.random() < 0.5:
                    q = rng.random()
                    if q < 0.70:
                        els = braced(vis, depth)
                    elif q < 0.85:
                        # else if (..) .. [else ..]
                        e2 = (braced(vis, depth) if rng.random() < 0.6 else unbraced(vis, depth, 0)) if rng.random() < 0.5 else None
                        t2 = braced(vis, depth) if rng.random() < 0.7 else unbraced(vis, depth, 0 if e2 is None else 1)
                        els = ('if', expr(vis, 1), t2, e2)
                    else:
                        els = unbraced(vis, depth, 0)
                # a then-branch followed by `else` must not be (or end in) an else-less `if`
                then = braced(vis, depth) if rng.random() < 0.85 else unbraced(vis, depth, 0 if els is None else 1)
                return ('if', top(expr(vis, 1), 0.04), then, els)
            if r < 0.97:
                v2 = set(vis)
                if rng.random() < 0.75:
                    n = rng.choice(names)
                    budget[0] -= 1
                    init = ('decl', "var", [(n, [], num())])
                    v2.add(n)
                    if rng.random() < 0.25:
                        # for (var i = 0, j = i; ..): several declarators in the header
                        m = rng.choice(names)
                        init = ('decl', "var", [(n, [], num()), (m, [], V(n) if m != n or not clean else num())])
                        v2.add(m)
                else:
                    n = pick(vis)
                    init = ('asg', n, [], num(), "=") if n is not None else ('decl', "var", [(names[0], [], num())])
                    if n is None:
                        n = names[0]
                        v2.add(n)
                cond = ('op', V(n), num())
                step = ('inc', n, []) if rng.random() < 0.6 else ('opasg', n, [], num())
                body = braced(v2, depth) if rng.random() < 0.85 else unbraced(v2, depth, 2)
                return ('for', init, cond, step, body)
        if kind == "template" and not clean and r > 0.97:
            return ('ceq', expr(vis, 1), expr(vis, 1))
        return simple_assign(vis)

    body = block(set(params), 0, top=True)
    if kind == "function":
        body.append(('ret', num()))
    return (kind, "f" if kind == "function" else "T", params, body)


# --------------------------------------------------------------------------
# deep family: nesting > 4 and two-digit suffixes
# --------------------------------------------------------------------------

DEEP_LOOKALIKES = ["x_10", "x10", "x_11", "x11", "x_1", "x1", "x_9", "x_12", "x12", "x_0", "x0"]


def deep_def(rng, clean=True):
    """A function (or template) with 12..16 declarations of `x` (the 12th is
    renamed x.10: two-digit suffixes) in blocks nested 5..9 deep and in sibling
    blocks, next to variables literally called x_10, x10, x_11 .. (the names a
    key `name_suffix` / `namesuffix` gives the renamed x). Every variable is
    initialised where it is declared and every use is declared, so the SSA
    construction must succeed when `clean`; otherwise templates with signals /
    components among the redeclarations and uses of undeclared names."""
    kind = "function" if clean or rng.random() < 0.5 else "template"
    looks = rng.sample(DEEP_LOOKALIKES, 2 + rng.randrange(3))
    if EXTRA_LOOKALIKES:
        looks = rng.sample(EXTRA_LOOKALIKES, min(len(EXTRA_LOOKALIKES), 2)) + looks[:1]
    counter = [0]

    def num():
        counter[0] += 1
        return ('n', counter[0])

    params = [rng.choice(["x", "a"])] if rng.random() < 0.5 else []
    body = []
    vis = list(params)
    if "x" not in params or rng.random() < 0.5:
        body.append(('decl', "var", [("x", [], num())]))
        if "x" not in vis:
            vis.append("x")
    for l in looks:
        body.append(('decl', "var", [(l, [], num())]))
        vis.append(l)
    total = [12 + rng.randrange(5)]
    depth_goal = 5 + rng.randrange(5)

    def use_stmt(vis):
        a, b = rng.choice(vis), rng.choice(vis)
        c = rng.randrange(4)
        if c == 0:
            return ('asg', a, [], ('op', V(b), V("x")), "=")
        if c == 1:
            return ('opasg', a, [], V(b))
        if c == 2:
            return ('log', [('op', V(a), V(b))])
        return ('inc', a, [])

    def wrap(stmts):
        inner = ('block', stmts)
        c = rng.randrange(5)
        if c == 0:
            return ('while', ('op', V("x"), num()), inner)
        if c == 1:
            return ('if', ('op', V(rng.choice(vis)), num()), inner, None)
        if c == 2:
            return ('if', num(), inner, ('block', [use_stmt(vis)]))
        return inner

    def level(d):
        out = []
        if total[0] > 0:
            total[0] -= 1
            kw = "var"
            if kind == "template" and rng.random() < 0.3:
                kw = rng.choice(["signal", "component"])
            out.append(('decl', kw, [("x", [], num() if kw == "var" else None)]))
        out.append(use_stmt(vis))
        if d < depth_goal and total[0] > 0:
            out.append(wrap(level(d + 1)))
            out.append(use_stmt(vis))
        # sibling blocks at this level use up what the chain left over
        while total[0] > 0 and d <= 1:
            total[0] -= 1
            out.append(wrap([('decl', "var", [("x", [], num())]), use_stmt(vis)]))
        return out

    body += level(1)
    if not clean and rng.random() < 0.5:
        body.append(('log', [V("undeclared")]))
    if kind == "function":
        body.append(('ret', ('op', V("x"), V(looks[0]))))
    return (kind, "f" if kind == "function" else "T", params, body)


# --------------------------------------------------------------------------
# outside the grammar: a declaration as the body of a loop or a branch
# --------------------------------------------------------------------------

def unbraced_def(rng):
    """A function in which a bare declaration is the body of a `while` or a
    branch of an `if`, with uses of the name in the other branch and after the
    statement. Circom's grammar derives a declaration only inside `{ }` and in
    a `for` header, so the parser must reject every one of these; the theorems
    that compare the renaming pass with the scoping rule are stated for the
    shape this guarantees (Spec.ScopeSpec.branch_closed). Were such a program
    accepted, the pass would let the declaration leak out of the branch, which
    the oracle (every loop body and branch is a scope) reports."""
    n = rng.choice(["x", "x", "x_0", "x0"])
    other = rng.choice(["y", "x_0", "x0"])
    counter = [0]

    def num():
        counter[0] += 1
        return ('n', counter[0])

    def decl():
        return ('decl', "var", [(n, [], num())])

    def use():
        c = rng.randrange(3)
        if c == 0:
            return ('log', [V(n)])
        if c == 1:
            return ('asg', n, [], ('op', V(n), num()), "=")
        return ('log', [('op', V(n), V(other))])

    params = rng.choice([[], [n], [other], ["a"]])
    body = []
    if rng.random() < 0.8:
        body.append(decl())
    if other not in params:
        body.append(('decl', "var", [(other, [], num())]))
    c = rng.randrange(6)
    if c == 0:
        ctl = ('if', num(), decl(), None)
    elif c == 1:
        ctl = ('if', num(), decl(), use())
    elif c == 2:
        ctl = ('if', num(), use(), decl())
    elif c == 3:
        ctl = ('if', num(), decl(), decl())
    elif c == 4:
        ctl = ('while', num(), decl())
    else:
        ctl = ('if', num(), ('while', num(), decl()), use())
    if rng.random() < 0.3:
        ctl = ('block', [ctl, use()])
    body.append(ctl)
    body.append(use())
    body.append(('ret', V(n)))
    return ("function", "f", params, body)
