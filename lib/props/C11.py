"""C11 — curve-dependent checks follow the documented table and thresholds.

gen(ctx)   regenerates coq/gen/{CurveTables,DocTable,Primes,CurveNames}.v from the
           CURRENT tree: the two PROBLEMATIC_* arrays, the curve dispatch, the
           guard comparisons/offsets and the template-name literals are parsed
           out of the three pass sources; the doc table and the CLI help out of
           doc/analysis_passes.md and cli/src/main.rs; primes and the
           accept/reject table of Curve::from_str are obtained by EXECUTING the
           code through harness binary `curves`.
run(ctx)   end-to-end sweep of the real CLI binary under --curve over generated
           .circom files, compared with (a) the Gallina model Model.Curves
           evaluated by vm_compute over the same abstract programs and (b) the
           documented semantics (doc table with Circomlib's spelling; n < 254;
           2^k - 1 <= p/2 with the documented primes; ASCII case-insensitive
           curve names) as the oracle.
"""
import concurrent.futures
import itertools
import json
import os
import re

import common

P = "C11"
REL = {
    "bn254": "program_analysis/src/bn254_specific_circuit.rs",
    "nonstrict": "program_analysis/src/nonstrict_binary_conversion.rs",
    "lessthan": "program_analysis/src/unconstrained_less_than.rs",
    "constants": "program_structure/src/utils/constants.rs",
    "doc": "doc/analysis_passes.md",
    "cli": "cli/src/main.rs",
}
VARIANTS = ["Bn254", "Bls12_381", "Goldilocks"]
CANON = {"Bn254": "BN254", "Bls12_381": "BLS12_381", "Goldilocks": "GOLDILOCKS"}

# ---------------------------------------------------------------------------
# documented semantics (the oracle; independent of /repo's Rust sources)
# ---------------------------------------------------------------------------
# The scalar fields Circom documents for the three curves.
DOC_PRIME = {
    "Bn254": 0x30644e72e131a029b85045b68181585d2833e84879b9709143e1f593f0000001,
    "Bls12_381": 0x73eda753299d7d483339d80809a1d80553bda402fffe5bfeffffffff00000001,
    "Goldilocks": 2 ** 64 - 2 ** 32 + 1,
}
# The documentation writes two template names differently from Circomlib
# (circuits/pointbits.circom defines Bits2Point_Strict / Point2Bits_Strict).
CIRCOMLIB_SPELLING = {"Bits2Point_strict": "Bits2Point_Strict", "Point2Bits_strict": "Point2Bits_Strict"}


def circomlib_spelling(name):
    return CIRCOMLIB_SPELLING.get(name, name)


def src(key):
    return open(os.path.join(common.REPO, REL[key]), encoding="utf-8").read()


# ---------------------------------------------------------------------------
# a small Rust tokenizer (comments stripped, string literals kept as tokens)
# ---------------------------------------------------------------------------
TOK = re.compile(r'''
    (?P<lc>//[^\n]*) | (?P<bc>/\*.*?\*/) |
    (?P<raw>r\#"(?:.|\n)*?"\#) |
    (?P<str>"(?:[^"\\]|\\.)*") |
    (?P<chr>'(?:[^'\\]|\\.)') |
    (?P<id>[A-Za-z_][A-Za-z0-9_]*) |
    (?P<num>[0-9][0-9_]*) |
    (?P<op>::|=>|==|!=|<=|>=|&&|\|\||->|[-+*/%<>=!&|^~?.,;:(){}\[\]\#@$'])
    | (?P<ws>\s+)
''', re.X | re.S)


def tokens(text):
    out, i = [], 0
    while i < len(text):
        m = TOK.match(text, i)
        if not m:
            out.append(("op", text[i]))
            i += 1
            continue
        i = m.end()
        k = m.lastgroup
        if k in ("lc", "bc", "ws"):
            continue
        out.append((k, m.group(k)))
    return out


def unquote(s):
    body = s[1:-1]
    return re.sub(r'\\(.)', lambda m: {"n": "\n", "t": "\t", "\\": "\\", '"': '"'}.get(m.group(1), m.group(1)), body)


def joined(toks):
    """Token stream as one normalised string (single spaces between tokens)."""
    return " ".join(t[1] for t in toks)


def fn_body(text, name):
    """Normalised token text of `fn name ... { body }`."""
    toks = tokens(text)
    for i in range(len(toks) - 1):
        if toks[i] == ("id", "fn") and toks[i + 1] == ("id", name):
            j = i
            while toks[j][1] != "{":
                j += 1
            depth, k = 0, j
            while True:
                if toks[k][1] == "{":
                    depth += 1
                elif toks[k][1] == "}":
                    depth -= 1
                    if depth == 0:
                        return joined(toks[j:k + 1])
                k += 1
    return ""


CMP = {"<": "CLt", "<=": "CLe", ">": "CGt", ">=": "CGe", "==": "CEq", "!=": "CNe"}


def parse_sources():
    """Everything that is read (not executed) from the Rust sources."""
    problems = []
    res = {}
    # --- bn254_specific_circuit.rs: const arrays + curve dispatch -----------
    t = tokens(src("bn254"))
    arrays = []
    i = 0
    while i < len(t):
        if t[i] == ("id", "const") and t[i + 1][0] == "id" and t[i + 2][1] == ":" and t[i + 3][1] == "[":
            name = t[i + 1][1]
            # [ & str ; N ] = [ "..." , ... ] ;
            j = i + 4
            decl = None
            while t[j][1] != "]":
                if t[j][0] == "num":
                    decl = int(t[j][1].replace("_", ""))
                j += 1
            while t[j][1] != "[":
                j += 1
            j += 1
            items = []
            while t[j][1] != "]":
                if t[j][0] == "str":
                    items.append(unquote(t[j][1]))
                elif t[j][1] != ",":
                    problems.append("unexpected token %r in array %s" % (t[j][1], name))
                j += 1
            arrays.append((name, decl if decl is not None else -1, items))
            i = j
        i += 1
    res["arrays"] = arrays
    if len(arrays) != 2:
        problems.append("expected two const arrays in bn254_specific_circuit.rs, found %d" % len(arrays))
    body = fn_body(src("bn254"), "find_bn254_specific_circuits")
    dispatch = []
    for m in re.finditer(r"Curve :: (\w+) => (?:HashSet :: from \( (\w+) \)|\{ return ReportCollection :: new \( \) ; \})", body):
        dispatch.append((m.group(1), m.group(2)))
    res["dispatch"] = dispatch
    if sorted(d[0] for d in dispatch) != sorted(VARIANTS):
        problems.append("curve dispatch of find_bn254_specific_circuits not recognised: %r" % (dispatch,))
    vbody = fn_body(src("bn254"), "visit_statement")
    res["bn254_exact_match"] = ("if problematic_templates . contains ( && component_name [ . . ] ) "
                                "{ reports . push ( build_report ( component_meta , component_name ) ) ; }") in vbody
    if not res["bn254_exact_match"]:
        problems.append("membership test of the bn254 pass not recognised")
    # --- nonstrict_binary_conversion.rs --------------------------------------
    body = fn_body(src("nonstrict"), "find_nonstrict_binary_conversion")
    m = re.search(r"if cfg \. constants \( \) \. curve \( \) (==|!=) & Curve :: (\w+) \{ return ReportCollection :: new \( \) ; \}", body)
    if m:
        res["nonstrict_curve"] = (CMP[m.group(1)], m.group(2))
    else:
        res["nonstrict_curve"] = ("CUnrecognised", "")
        problems.append("curve guard of the non-strict conversion pass not recognised")
    m = re.search(r"let prime_size = BigInt :: from \( cfg \. constants \( \) \. prime_size \( \)(?: ([-+]) (\d+))? \) ;", body)
    if m:
        off = int(m.group(2) or 0) * (-1 if m.group(1) == "-" else 1)
    else:
        off = None
        problems.append("prime_size binding of the non-strict conversion pass not recognised")
    res["nonstrict_exempt"] = re.findall(r"matches ! \( cfg \. definition_type \( \) , ([\w |]+) \)", body)
    vbody = fn_body(src("nonstrict"), "visit_statement")
    guards = []
    for m in re.finditer(r'if component_name == ("(?:[^"\\]|\\.)*") && args \. len \( \) == (\d+) \{ let arg = & args \[ (\d+) \] ; '
                         r'if let Some \( FieldElement \{ value \} \) = arg \. value \( \) \{ if value (<=|>=|==|!=|<|>) &? ?prime_size \{ return ; \} \} '
                         r'reports \. push', vbody):
        guards.append((unquote(m.group(1)), int(m.group(2)), int(m.group(3)), CMP[m.group(4)], off))
    n_if = len(re.findall(r"if component_name ==", vbody))
    if off is None or len(guards) != n_if or not guards:
        problems.append("guards of the non-strict conversion pass not recognised (%d of %d)" % (len(guards), n_if))
        guards = [(g[0], g[1], g[2], "CUnrecognised", 0) for g in guards] or [("Num2Bits", 1, 0, "CUnrecognised", 0)]
    res["nonstrict_guards"] = guards
    # --- unconstrained_less_than.rs ------------------------------------------
    body = fn_body(src("lessthan"), "find_unconstrained_less_than")
    m = re.search(r"let max_value = BigInt :: from \( cfg \. constants \( \) \. prime_size \( \)(?: ([-+]) (\d+))? \) ;", body)
    m2 = re.search(r"if let Some \( ValueReduction :: FieldElement \{ value \} \) = bit_size \. value \( \) \{ "
                   r"if value (<=|>=|==|!=|<|>) &? ?max_value \{ is_positive = true ; break ; \} \}", body)
    if m and m2:
        res["lessthan_guard"] = (CMP[m2.group(1)], int(m.group(2) or 0) * (-1 if m.group(1) == "-" else 1))
    else:
        res["lessthan_guard"] = ("CUnrecognised", 0)
        problems.append("guard of the unconstrained-less-than pass not recognised")
    cbody = fn_body(src("lessthan"), "update_components")
    comp = re.findall(r'component_name == ("(?:[^"\\]|\\.)*") && args \. len \( \) == (\d+)', cbody)
    ibody = fn_body(src("lessthan"), "update_inputs")
    sigs = re.findall(r'signal_name != ("(?:[^"\\]|\\.)*")', ibody)
    if len(comp) == 2 and len(sigs) == 2 and ibody.find("Component :: Num2Bits") < ibody.find("Component :: LessThan"):
        res["lessthan_literals"] = ((unquote(comp[0][0]), int(comp[0][1])), (unquote(comp[1][0]), int(comp[1][1])),
                                    unquote(sigs[0]), unquote(sigs[1]))
    else:
        res["lessthan_literals"] = (("", 0), ("", 0), "", "")
        problems.append("template/signal literals of the unconstrained-less-than pass not recognised")
    # --- constants.rs: the arms of FromStr -----------------------------------
    body = fn_body(src("constants"), "from_str")
    m = re.search(r"match & curve \. (\w+) \( \) \[ \. \. \] \{", body)
    res["from_str_normaliser"] = m.group(1) if m else "unrecognised"
    if not m:
        problems.append("normalisation in Curve::from_str not recognised")
    res["from_str_arms"] = [(unquote(a), v) for a, v in re.findall(r'("(?:[^"\\]|\\.)*") => Ok \( Curve :: (\w+) \)', body)]
    enum = re.search(r"pub enum Curve \{(.*?)\}", joined(tokens(src("constants"))))
    res["enum_variants"] = [v for v in re.findall(r"(\w+) ,", re.sub(r"# \[ \w+ \]", "", enum.group(1)))] if enum else []
    if sorted(res["enum_variants"]) != sorted(VARIANTS):
        problems.append("enum Curve no longer has exactly the variants %s: %r" % (VARIANTS, res["enum_variants"]))
    res["problems"] = problems
    return res


def parse_doc():
    """The template/curve table and the documented bit sizes of analysis_passes.md,
    and the curve names of the CLI help text."""
    problems = []
    text = src("doc")
    rows, header = [], None
    in_table = False
    for line in text.splitlines():
        s = line.strip()
        if s.startswith("|") and "Template" in s and header is None:
            header = [c.strip() for c in s.strip("|").split("|")]
            in_table = True
            continue
        if in_table:
            if not s.startswith("|"):
                in_table = False
                continue
            cells = [c.strip() for c in s.strip("|").split("|")]
            if all(re.fullmatch(r":?-+:?", c) for c in cells):
                continue
            name = cells[0].strip("`")
            marks = []
            for c in cells[1:]:
                if c not in ("x", ""):
                    problems.append("unexpected cell %r in the documentation table row %s" % (c, name))
                marks.append(c == "x")
            rows.append((name, marks))
    cols, bits = [], []
    for h in (header or [])[1:]:
        m = re.match(r"(.*?)\s*\((\d+) bits\)", h)
        label = (m.group(1) if m else h).strip()
        key = re.sub(r"[^A-Z0-9]", "", label.upper())
        var = {"GOLDILOCKS": "Goldilocks", "BLS12381": "Bls12_381", "BN254": "Bn254"}.get(key)
        if var is None:
            problems.append("column %r of the documentation table is not one of the three curves" % h)
            var = label
        cols.append(var)
        bits.append(int(m.group(2)) if m else -1)
    m = re.search(r"BN254 scalar field \(a (\d+)-bit prime field\)", text)
    default_bits = int(m.group(1)) if m else -1
    cli = src("cli")
    m = re.search(r"///\s*Set curve \(([^)]*)\)", cli)
    help_names = [x.strip() for x in re.split(r",\s*(?:or\s+)?|\s+or\s+", m.group(1))] if m else []
    m = re.search(r'DEFAULT_CURVE: &str = "([^"]*)"', open(os.path.join(common.REPO, "program_analysis/src/config.rs")).read())
    default_curve = m.group(1) if m else ""
    return {"rows": rows, "columns": cols, "bits": bits, "default_bits": default_bits, "help_names": help_names,
            "default_curve": default_curve, "problems": problems}


# ---------------------------------------------------------------------------
# the universe of curve-name spellings
# ---------------------------------------------------------------------------
def case_variants(name):
    letters = [(c.lower(), c.upper()) if c.isalpha() else (c,) for c in name]
    return ["".join(p) for p in itertools.product(*letters)]


NEAR_MISS_ASCII = [
    "", " ", "BN254 ", " BN254", "BN-254", "BN_254", "BN25", "BN2544", "BN 254", "BN254\t", "B", "254", "BN128", "ALTBN128",
    "BLS12-381", "BLS12381", "BLS12_38", "BLS12_3811", "BLS12__381", "BLS_12_381", "bls12-381", "BLS12_381 ", "BLS",
    "GOLDILOCK", "GOLDILOCKSS", "GOLDI_LOCKS", "GOLDILOCKS64", "goldilock", "Gold", "GOLDILOCKS ", "G0LDILOCKS", "GOLDILOCKS_",
    "BN254BLS12_381", "BN254,BLS12_381", "Bn254;", "0", "default", "Curve::Bn254", "Bls12_381_", "_BLS12_381", "bn254.", "'BN254'",
    "SECP256K1", "ED25519", "PALLAS", "VESTA", "GRUMPKIN", "@N254", "`n254", "BN254{", "[N254", "bLS12^381",
]
NON_ASCII = [
    "blſ12_381", "BLſ12_381", "goldılocks", "GOLDıLOCKS", "goldİlocks", "bn２５４",
    "ＢＮ254", "ｂｎ254", "blß12_381", "bK254", "goldilocKs", "GOLDILOCKS", "goldiloсks",
    "bn254̇", "вn254", "blѕ12_381", "ﬁ", "goldilockſ", "BLS12_381 ", " BN254",
]


def spelling_universe():
    uni = []
    for v in VARIANTS:
        uni += case_variants(CANON[v])
    uni += NEAR_MISS_ASCII
    seen, out = set(), []
    for s in uni:
        if s not in seen:
            seen.add(s)
            out.append(s)
    return out


def hexs(s):
    return s.encode("utf-8").hex() or "-"


def exec_from_str(binary, spellings):
    out = common.run_lines(binary, ["parse"], [hexs(s) for s in spellings])
    res = []
    for s, line in zip(spellings, out):
        h, r = line.split(" = ")
        if h != hexs(s):
            raise common.BuildError("curves parse: output out of step", line)
        res.append(r)
    return res


def exec_primes(binary):
    rc, out, err = common.sh([binary, "primes"], timeout=60)
    if rc != 0:
        raise common.BuildError("curves primes failed", err[-2000:])
    table = {}
    for line in out.splitlines():
        f = line.split()
        if len(f) == 4:
            table[f[0]] = {"stored": f[1], "prime": int(f[2]), "size": int(f[3])}
        else:
            table[f[0]] = {"stored": "panic", "prime": 0, "size": 0}
    return table


# ---------------------------------------------------------------------------
# Coq text
# ---------------------------------------------------------------------------
def cstr(s):
    if any(ord(c) < 32 or ord(c) > 126 for c in s):
        raise ValueError("not printable ASCII: %r" % s)
    return '"' + s.replace('"', '""') + '"'


def clist(items, per_line=6, indent="  "):
    if not items:
        return "[]"
    lines = []
    for i in range(0, len(items), per_line):
        lines.append(indent + "; ".join(items[i:i + per_line]))
    return "[\n" + ";\n".join(lines) + "\n]"


def cz(n):
    return "(%d)" % n if n < 0 else "%d" % n


HEAD = ("(* GENERATED by lib/props/C11.py (gen) from the current tree of the analysed\n"
        "   repository on every run - do not edit, not under version control.\n   Source: %s *)\n"
        "From Coq Require Import String List ZArith.\nImport ListNotations.\nLocal Open Scope string_scope.\nLocal Open Scope Z_scope.\n\n")


def printable(s):
    return all(32 <= ord(c) <= 126 for c in s)


def gen(ctx):
    binary = common.build_harness("curves")
    ps = parse_sources()
    pd = parse_doc()
    g = os.path.join(common.COQ, "gen")
    # --- CurveTables.v ---
    t = HEAD % ", ".join(REL[k] for k in ("bn254", "nonstrict", "lessthan", "constants"))
    t += "Inductive cmp := CLt | CLe | CGt | CGe | CEq | CNe | CUnrecognised.\n\n"
    t += "(* const arrays of bn254_specific_circuit.rs: (identifier, declared length, elements) *)\n"
    t += "Definition const_arrays : list (string * (Z * list string)) := %s.\n\n" % clist(
        ["(%s, (%s, %s))" % (cstr(n), cz(d), clist([cstr(x) for x in items], indent="     ")) for n, d, items in ps["arrays"]], per_line=1)
    t += "(* match cfg.constants().curve() in find_bn254_specific_circuits: variant -> array, None = early return *)\n"
    t += "Definition bn254_dispatch : list (string * option string) := %s.\n\n" % clist(
        ["(%s, %s)" % (cstr(v), "Some " + cstr(a) if a else "None") for v, a in ps["dispatch"]], per_line=1)
    t += "(* the membership test is HashSet<&str>::contains(&component_name[..]): exact string equality *)\n"
    t += "Definition bn254_exact_match : bool := %s.\n\n" % ("true" if ps["bn254_exact_match"] else "false")
    t += "(* `if curve() <op> &Curve::<variant> { return }` of find_nonstrict_binary_conversion *)\n"
    t += "Definition nonstrict_curve_guard : cmp * string := (%s, %s).\n\n" % (ps["nonstrict_curve"][0], cstr(ps["nonstrict_curve"][1]))
    t += ("(* visit_statement of the non-strict conversion pass, in source order:\n"
          "   (template literal, args.len(), index of the inspected argument, comparison, offset):\n"
          "   the instantiation is safe iff  value <cmp> prime_size + offset *)\n")
    t += "Definition nonstrict_guards : list (string * (Z * (Z * (cmp * Z)))) := %s.\n\n" % clist(
        ["(%s, (%s, (%s, (%s, %s))))" % (cstr(n), cz(a), cz(i), c, cz(o)) for n, a, i, c, o in ps["nonstrict_guards"]], per_line=1)
    t += "(* find_unconstrained_less_than: is_positive iff  value <cmp> prime_size + offset *)\n"
    t += "Definition lessthan_guard : cmp * Z := (%s, %s).\n\n" % (ps["lessthan_guard"][0], cz(ps["lessthan_guard"][1]))
    (a, an), (b, bn), s1, s2 = ps["lessthan_literals"]
    t += ("(* update_components: first the comparator template, then the range-check template (name, args.len());\n"
          "   update_inputs: input signal of the range check, input signal of the comparator *)\n")
    t += "Definition lessthan_template : string * Z := (%s, %s).\n" % (cstr(a), cz(an))
    t += "Definition rangecheck_template : string * Z := (%s, %s).\n" % (cstr(b), cz(bn))
    t += "Definition rangecheck_signal : string := %s.\nDefinition lessthan_signal : string := %s.\n\n" % (cstr(s1), cstr(s2))
    t += "(* Curve::from_str: match &curve.<normaliser>()[..] { literal => Ok(Curve::variant), ... } *)\n"
    t += "Definition from_str_normaliser : string := %s.\n" % cstr(ps["from_str_normaliser"])
    t += "Definition from_str_arms : list (string * string) := %s.\n" % clist(
        ["(%s, %s)" % (cstr(l), cstr(v)) for l, v in ps["from_str_arms"]], per_line=1)
    common.write_if_changed(os.path.join(g, "CurveTables.v"), t)
    # --- DocTable.v ---
    t = HEAD % ", ".join(REL[k] for k in ("doc", "cli"))
    t += "(* header cells 2.. of the table, mapped to curve variants, and their `(N bits)` annotations *)\n"
    t += "Definition doc_columns : list string := %s.\n" % clist([cstr(c) for c in pd["columns"]])
    t += "Definition doc_column_bits : list Z := %s.\n" % clist([cz(b) for b in pd["bits"]])
    t += "(* `BN254 scalar field (a N-bit prime field)` *)\nDefinition doc_default_bits : Z := %s.\n\n" % cz(pd["default_bits"])
    t += "(* rows: (template name as printed, one mark per column) *)\n"
    t += "Definition doc_table : list (string * list bool) := %s.\n\n" % clist(
        ["(%s, [%s])" % (cstr(n), "; ".join("true" if m else "false" for m in marks)) for n, marks in pd["rows"]], per_line=1)
    t += "(* cli/src/main.rs: `/// Set curve (...)` and program_analysis config DEFAULT_CURVE *)\n"
    t += "Definition cli_help_names : list string := %s.\n" % clist([cstr(n) for n in pd["help_names"]])
    t += "Definition cli_default_curve : string := %s.\n" % cstr(pd["default_curve"])
    common.write_if_changed(os.path.join(g, "DocTable.v"), t)
    # --- Primes.v (executed) ---
    pt = exec_primes(binary)
    t = HEAD % "execution of UsefulConstants::new(&curve) through harness/src/bin/curves.rs"
    t += "(* (variant, (variant stored in the constants, (prime(), prime_size()))) *)\n"
    t += "Definition prime_table : list (string * (string * (Z * Z))) := %s.\n" % clist(
        ["(%s, (%s, (%d, %d)))" % (cstr(v), cstr(pt[v]["stored"]), pt[v]["prime"], pt[v]["size"]) for v in VARIANTS if v in pt], per_line=1)
    common.write_if_changed(os.path.join(g, "Primes.v"), t)
    # --- CurveNames.v (executed) ---
    uni = [s for s in spelling_universe() if printable(s)]
    res = exec_from_str(binary, uni)
    t = HEAD % "execution of <Curve as FromStr>::from_str through harness/src/bin/curves.rs"
    t += "(* (spelling, accepted variant | None = rejected); %d spellings: every case variant of the three names + near misses *)\n" % len(uni)
    t += "Definition curve_name_table : list (string * option string) := %s.\n" % clist(
        ["(%s, %s)" % (cstr(s), "None" if r == "reject" else "Some " + cstr(r)) for s, r in zip(uni, res)], per_line=4)
    common.write_if_changed(os.path.join(g, "CurveNames.v"), t)
    ctx.c11 = {"sources": ps, "doc": pd, "primes": pt, "from_str": dict(zip(uni, res))}
    return ctx.c11
