"""C11 — curve-dependent checks follow the documented table and thresholds.

gen(ctx)   regenerates coq/gen/{CurveTables,DocTable,Primes,CurveNames}.v from the
           CURRENT tree: the two PROBLEMATIC_* arrays, the curve dispatch, the
           guard comparisons/offsets and the template-name literals are read
           STRICTLY out of the three pass sources and constants.rs (the whole
           token stream of every anchored item must match a template with named
           holes, lib/props/c11shape.py; anything left over = `unrecognised`); the doc table and the CLI help out of
           doc/analysis_passes.md and cli/src/main.rs; primes and the
           accept/reject table of Curve::from_str are obtained by EXECUTING the
           code through harness binary `curves`.
run(ctx)   end-to-end sweep of the real CLI binary under --curve over generated
           .circom files, compared with (a) the Gallina model Model.Curves
           evaluated by vm_compute over abstract programs that are DERIVED FROM THE
           TOOL'S IR (third audit: harness `curves ir` sends each file through
           AnalysisRunner::with_files per curve and prints what the passes inspect of
           every statement; the generator only states its expectation of that) and
           (b) the documented semantics (doc table with Circomlib's spelling; n < 254;
           2^k - 1 <= p/2 with the documented primes; syntactic identity of values;
           ASCII case-insensitive curve names for EVERY spelling, non-ASCII ones
           included) as the oracle.  Every file is also run WITHOUT --curve
           (the default curve is observed, not read: compared under BN254), and
           the `default_value` of the `curve` field of struct Cli plus the const
           DEFAULT_CURVE are anchored items of the source reader.  Expression::eq /
           Hash are executed against structural identity on every pair of key
           expressions; three main-component probes (known finding when listed).
"""
import concurrent.futures
import itertools
import json
import os
import re
import sys

import common

sys.path.insert(0, os.path.dirname(os.path.abspath(__file__)))
import c11shape as S  # noqa: E402

P = "C11"
REL = {
    "bn254": "program_analysis/src/bn254_specific_circuit.rs",
    "nonstrict": "program_analysis/src/nonstrict_binary_conversion.rs",
    "lessthan": "program_analysis/src/unconstrained_less_than.rs",
    "constants": "program_structure/src/utils/constants.rs",
    "doc": "doc/analysis_passes.md",
    "cli": "cli/src/main.rs",
    "config": "program_analysis/src/config.rs",
}
VARIANTS = ["Bn254", "Bls12_381", "Goldilocks"]
CANON = {"Bn254": "BN254", "Bls12_381": "BLS12_381", "Goldilocks": "GOLDILOCKS"}

# ---------------------------------------------------------------------------
# documented semantics (the oracle; independent of /repo's Rust sources)
# ---------------------------------------------------------------------------
# The scalar fields Circom documents for the three curves.
DOC_PRIME = {
    "Bn254": 0x30644e72e131a029b85045b68181585d2833e84879b9709143e1f593f0000001,
    "Bls12_381": 0x73eda753299d7d483339d80809a1d80553bda402fffe5bfeffffffff00000001,
    "Goldilocks": 2 ** 64 - 2 ** 32 + 1,
}
# The documentation writes two template names differently from Circomlib
# (circuits/pointbits.circom defines Bits2Point_Strict / Point2Bits_Strict).
CIRCOMLIB_SPELLING = {"Bits2Point_strict": "Bits2Point_Strict", "Point2Bits_strict": "Point2Bits_Strict"}


def circomlib_spelling(name):
    return CIRCOMLIB_SPELLING.get(name, name)


def src(key):
    return open(os.path.join(common.REPO, REL[key]), encoding="utf-8").read()


# ---------------------------------------------------------------------------
# strict reading of the Rust sources (lib/props/c11shape.py): the whole token
# stream of every anchored item is matched against a template with named holes
# ---------------------------------------------------------------------------
CMP = {"<": "CLt", "<=": "CLe", ">": "CGt", ">=": "CGe", "==": "CEq", "!=": "CNe"}
DEFTYPES = ("Function", "Template", "CustomTemplate")


FLIP = {"<": ">", "<=": ">=", ">": "<", ">=": "<=", "==": "==", "!=": "!="}


def _cmp(env, what, problems):
    """The comparison `value <op> bound`, written either way round (`bound <op'> value`): exactly one
    of the two optional groups of the template matched."""
    if len(env["fwd"]) + len(env["rev"]) != 1:
        problems.append("%s: the guard comparison is not one comparison of the value with the bound" % what)
        return None
    return env["fwd"][0]["op"] if env["fwd"] else FLIP[env["rev"][0]["op"]]


def _one_of(env, a, b, what, problems):
    if len(env[a]) + len(env[b]) != 1:
        problems.append("%s: expected exactly one of the two accepted spellings" % what)
        return False
    return True


def _offset(env):
    """`prime_size() - 1` -> -1 (the optional `<sign> <number>` group)."""
    if not env["off"]:
        return 0
    o = env["off"][0]
    return o["n"] * (-1 if o["s"] == "-" else 1)


def parse_sources():
    """Everything that is read (not executed) from the Rust sources.  An item
    that does not match its template completely leaves `unrecognised` markers in
    every table entry read from it, and is listed in res["problems"]."""
    problems, shape, env = [], [], {}
    for key in ("bn254", "nonstrict", "lessthan", "constants"):
        try:
            r = S.read_file(key, src(key))
        except Exception as e:  # noqa: BLE001 - never abort: an unreadable file is an unrecognised file
            r = {"shape": [("%s::inventory" % key, False)] + [(a[3], False) for a in S.ANCHORS[key]], "env": {},
                 "problems": ["%s: the strict reader failed on the current tree: %r" % (key, e)]}
        shape += r["shape"]
        env.update(r["env"])
        problems += r["problems"]
    # the two CLI items the default curve comes from (second audit): the `curve` field of struct Cli
    # with its whole #[clap(...)] attribute, and the const DEFAULT_CURVE of program_analysis/src/config.rs
    try:
        r = S.read_cli(src("cli"), src("config"))
    except Exception as e:  # noqa: BLE001
        r = {"shape": [(l, False) for l in S.CLI_LABELS], "env": {}, "default_curve": "",
             "problems": ["cli: the strict reader failed on the current tree: %r" % (e,)]}
    shape += r["shape"]
    env.update(r["env"])
    problems += r["problems"]
    res = {"cli_default_curve": r["default_curve"]}

    def invalidate(label, why):
        """A binding that matched its hole but is not the pinned value: the item's row of source_shape becomes false."""
        problems.append("%s: %s" % (label, why))
        for i, (l, ok) in enumerate(shape):
            if l == label:
                shape[i] = (l, False)
        env.pop(label, None)
    # --- bn254_specific_circuit.rs: const arrays + curve dispatch -----------
    arrays = []
    for label, ok in shape:
        if label.startswith("bn254::const#") and ok:
            e = env[label]
            arrays.append((e["name"], e["decl"], [x["item"] for x in e["items"]] + [x["item"] for x in e["last"]]))
    res["arrays"] = arrays
    if len(arrays) != 2:
        problems.append("expected two const arrays in bn254_specific_circuit.rs, recognised %d" % len(arrays))
    dispatch = []
    for arm in env.get("bn254::find_bn254_specific_circuits", {}).get("arms", []):
        if len(arm["arr"]) + len(arm["ret"]) + len(arm["ret2"]) != 1:
            problems.append("curve dispatch of find_bn254_specific_circuits: arm %s not recognised" % arm["variant"])
            continue
        dispatch.append((arm["variant"], arm["arr"][0]["array"] if arm["arr"] else None))
    res["dispatch"] = dispatch
    if sorted(d[0] for d in dispatch) != sorted(VARIANTS):
        problems.append("curve dispatch of find_bn254_specific_circuits not recognised: %r" % (dispatch,))
    e = env.get("bn254::visit_statement")
    if e and not _one_of(e, "ls", "sl", "bn254::visit_statement (is_local / is_signal test)", problems):
        invalidate("bn254::visit_statement", "the type test is not `is_local() || is_signal()` in either order")
    res["bn254_exact_match"] = "bn254::visit_statement" in env
    # --- nonstrict_binary_conversion.rs --------------------------------------
    e = env.get("nonstrict::find_nonstrict_binary_conversion")
    if e:
        res["nonstrict_curve"] = (CMP[e["curve_op"]], e["curve_variant"])
        res["nonstrict_exempt"] = [e["exempt0"]] + [x["d"] for x in e["exempt"]]
        off = _offset(e)
        bad = [d for d in res["nonstrict_exempt"] if d not in DEFTYPES]
        if bad:
            # an identifier that is no variant of DefinitionType is a binding pattern: it matches everything
            problems.append("matches!(cfg.definition_type(), ...) names %r, not variants of DefinitionType" % bad)
            res["nonstrict_curve"] = ("CUnrecognised", "")
    else:
        res["nonstrict_curve"] = ("CUnrecognised", "")
        res["nonstrict_exempt"] = []
        off = None
    e = env.get("nonstrict::visit_statement")
    if e and not _one_of(e, "ls", "sl", "nonstrict::visit_statement (is_local / is_signal test)", problems):
        invalidate("nonstrict::visit_statement", "the type test is not `is_local() || is_signal()` in either order")
        e = None
    if e:
        for gd in e["guards"]:
            gd["op"] = _cmp(gd, "nonstrict::visit_statement, block of %r" % gd["lit"], problems)
        if any(gd["op"] is None for gd in e["guards"]):
            invalidate("nonstrict::visit_statement", "a guard comparison was not recognised")
            e = None
    if e:
        # the report builder of each block is pinned to its literal (second audit): `build_num2bits` in the
        # Num2Bits block, `build_bits2num` in the Bits2Num block - a swapped builder changes the message only
        bad = [(g["lit"], g["builder"]) for g in e["guards"] if g["builder"] != "build_" + g["lit"].lower()]
        if bad:
            invalidate("nonstrict::visit_statement", "the guard block of %r pushes the report of `%s`, expected `build_%s`"
                       % (bad[0][0], bad[0][1], bad[0][0].lower()))
            e = None
    if e and off is not None and e["guards"]:
        res["nonstrict_guards"] = [(g["lit"], g["arity"], g["idx"], CMP[g["op"]], off) for g in e["guards"]]
    else:
        res["nonstrict_guards"] = [("Num2Bits", 1, 0, "CUnrecognised", 0)]
    # --- unconstrained_less_than.rs ------------------------------------------
    e = env.get("lessthan::find_unconstrained_less_than")
    if e:
        e["op"] = _cmp(e, "lessthan::find_unconstrained_less_than", problems)
        if e["op"] is None:
            invalidate("lessthan::find_unconstrained_less_than", "the guard comparison was not recognised")
            e = None
    helpers = [a[3] for a in S.ANCHORS["lessthan"] if a[3] not in ("lessthan::find_unconstrained_less_than",
                                                                    "lessthan::update_components", "lessthan::update_inputs")]
    res["lessthan_guard"] = (CMP[e["op"]], _offset(e)) if e and all(h in env for h in helpers) else ("CUnrecognised", 0)
    ec, ei = env.get("lessthan::update_components"), env.get("lessthan::update_inputs")
    if ec and not _one_of(ec, "ls", "sl", "lessthan::update_components (is_local / is_signal test)", problems):
        invalidate("lessthan::update_components", "the type test is not `is_local() || is_signal()` in either order")
        ec = None
    # what a second assignment of a component key does (fourth audit): `insert` = the last one wins (the tool until the
    # deviation C11-component-assigned-on-two-paths is repaired), `weakest` = the weaker bit size is kept (the proposed repair)
    res["rangecheck_policy"] = "unrecognised"
    if ec:
        w, pl, gd = ec["weakest"], ec["plain"], ec["guarded"]
        if len(pl) == 1 and not w and not gd:
            res["rangecheck_policy"], ec["rc_idx"] = "insert", pl[0]["rc_idx"]
        elif len(w) == 1 and len(gd) == 1 and not pl and w[0]["w_idx"] == gd[0]["rc_idx"]:
            res["rangecheck_policy"], ec["rc_idx"] = "weakest", gd[0]["rc_idx"]
        else:
            invalidate("lessthan::update_components", "the Num2Bits arm is neither a plain insert nor the keep-the-weakest form")
            ec = None
    if ec and ei and ec["rc_idx"] == 0:
        res["lessthan_literals"] = ((ec["lt_name"], ec["lt_arity"]), (ec["rc_name"], ec["rc_arity"]), ei["rc_signal"], ei["lt_signal"])
    else:
        if ec and ec["rc_idx"] != 0:
            problems.append("update_components stores args[%d] as the bit size; the model reads args[0]" % ec["rc_idx"])
        res["lessthan_literals"] = (("", 0), ("", 0), "", "")
    # --- constants.rs ----------------------------------------------------------
    e = env.get("constants::Curve::from_str")
    res["from_str_normaliser"] = e["normaliser"] if e else "unrecognised"
    res["from_str_arms"] = [(a["lit"], a["variant"]) for a in e["arms"]] if e else []
    e = env.get("constants::Curve")
    if e and e["first"] != "Bn254":
        # `#[default]` is pinned to the first variant by the template; that variant must be the documented default
        invalidate("constants::Curve", "`#[default]` sits on variant %s, the documented default curve is BN254" % e["first"])
        e = None
    if e and not e["c0"] and (e["variants"] or e["last"]):
        invalidate("constants::Curve", "enum Curve: no comma after the first variant")
        e = None
    res["enum_variants"] = [e["first"]] + [v["variant"] for v in e["variants"]] + [v["variant"] for v in e["last"]] if e else []
    if sorted(res["enum_variants"]) != sorted(VARIANTS):
        problems.append("enum Curve no longer has exactly the variants %s: %r" % (VARIANTS, res["enum_variants"]))
    e = env.get("constants::Curve::prime")
    lits = []
    for arm in (e["arms"] if e else []):
        ps = [x["p"] for x in arm["block"]] + [x["p"] for x in arm["plain"]]
        if len(ps) == 1 and re.fullmatch(r"[0-9]+", ps[0]):
            lits.append((arm["variant"], int(ps[0])))
        else:
            problems.append("Curve::prime: arm %s not recognised" % arm["variant"])
    res["prime_literals"] = lits
    res["shape"] = shape
    res["problems"] = problems
    return res


def parse_doc():
    """The template/curve table and the documented bit sizes of analysis_passes.md,
    and the curve names of the CLI help text."""
    problems = []
    text = src("doc")
    rows, header = [], None
    in_table = False
    for line in text.splitlines():
        s = line.strip()
        if s.startswith("|") and "Template" in s and header is None:
            header = [c.strip() for c in s.strip("|").split("|")]
            in_table = True
            continue
        if in_table:
            if not s.startswith("|"):
                in_table = False
                continue
            cells = [c.strip() for c in s.strip("|").split("|")]
            if all(re.fullmatch(r":?-+:?", c) for c in cells):
                continue
            name = cells[0].strip("`")
            marks = []
            for c in cells[1:]:
                if c not in ("x", ""):
                    problems.append("unexpected cell %r in the documentation table row %s" % (c, name))
                marks.append(c == "x")
            rows.append((name, marks))
    cols, bits = [], []
    for h in (header or [])[1:]:
        m = re.match(r"(.*?)\s*\((\d+)[ -]?bits?\)", h)
        label = (m.group(1) if m else h).strip()
        key = re.sub(r"[^A-Z0-9]", "", label.upper())
        var = {"GOLDILOCKS": "Goldilocks", "BLS12381": "Bls12_381", "BN254": "Bn254"}.get(key)
        if var is None:
            problems.append("column %r of the documentation table is not one of the three curves" % h)
            var = label
        cols.append(var)
        bits.append(int(m.group(2)) if m else -1)
    m = re.search(r"BN254 scalar field \(an? (\d+)[ -]bit prime field\)", text)
    if not m:
        # a reworded sentence (fourth audit): the first bit size stated within the sentence that names BN254
        m = re.search(r"BN254[^.\n]{0,160}?\b(\d+)[ -]?bits?\b", text)
    default_bits = int(m.group(1)) if m else -1
    cli = src("cli")
    m = re.search(r"///\s*Set curve \(([^)]*)\)", cli)
    help_names = [x.strip() for x in re.split(r",\s*(?:or\s+)?|\s+or\s+", m.group(1))] if m else []
    return {"rows": rows, "columns": cols, "bits": bits, "default_bits": default_bits, "help_names": help_names,
            "problems": problems}


# ---------------------------------------------------------------------------
# the universe of curve-name spellings
# ---------------------------------------------------------------------------
def case_variants(name):
    letters = [(c.lower(), c.upper()) if c.isalpha() else (c,) for c in name]
    return ["".join(p) for p in itertools.product(*letters)]


NEAR_MISS_ASCII = [
    "", " ", "BN254 ", " BN254", "BN-254", "BN_254", "BN25", "BN2544", "BN 254", "BN254\t", "B", "254", "BN128", "ALTBN128",
    "BLS12-381", "BLS12381", "BLS12_38", "BLS12_3811", "BLS12__381", "BLS_12_381", "bls12-381", "BLS12_381 ", "BLS",
    "GOLDILOCK", "GOLDILOCKSS", "GOLDI_LOCKS", "GOLDILOCKS64", "goldilock", "Gold", "GOLDILOCKS ", "G0LDILOCKS", "GOLDILOCKS_",
    "BN254BLS12_381", "BN254,BLS12_381", "Bn254;", "0", "default", "Curve::Bn254", "Bls12_381_", "_BLS12_381", "bn254.", "'BN254'",
    "SECP256K1", "ED25519", "PALLAS", "VESTA", "GRUMPKIN", "@N254", "`n254", "BN254{", "[N254", "bLS12^381",
]
# Non-ASCII near misses (third audit).  Under the previous normaliser, str::to_uppercase, the ones built
# from a dotless i (U+0131 -> I) or a long s (U+017F -> S) WERE accepted - the genuine defect repaired in
# /repo; the sweep keeps all of them so that a regression is reported with the spelling as failing input.
CONFUSABLE = {
    "i": ["\u0131", "\u0130", "\u00ec", "\u0456", "\u2170"],      # dotless i, I with dot, i grave, Cyrillic i, roman numeral
    "s": ["\u017f", "\u00df", "\u0455", "\ua731"],                # long s, sharp s, Cyrillic dze, small capital s
    "k": ["\u212a", "\u043a", "\u03ba"],                          # Kelvin sign, Cyrillic ka, Greek kappa
    "b": ["\u0432", "\u0253"], "n": ["\u0578", "\u0274"], "l": ["\u217c", "\u04cf"], "o": ["\u043e", "\u03bf"],
    "g": ["\u0261"], "d": ["\u217e"], "c": ["\u0441", "\u217d"],
}
LIGATURES = ["\ufb00", "\ufb01", "\ufb02", "\ufb03", "\ufb04", "\ufb05", "\ufb06"]
COMBINING = ["\u0307", "\u0301", "\u200d", "\ufe0f"]


def fullwidth(ch):
    return chr(ord(ch) + 0xFEE0) if "!" <= ch <= "~" else ch


def non_ascii_universe():
    out = []

    def add(s):
        if s not in out and not s.isascii():
            out.append(s)
    for v in VARIANTS:
        for name in (CANON[v], CANON[v].lower()):
            for pos, ch in enumerate(name):
                for sub in CONFUSABLE.get(ch.lower(), []):
                    add(name[:pos] + sub + name[pos + 1:])
                add(name[:pos] + fullwidth(ch) + name[pos + 1:])            # one fullwidth letter / digit / underscore
                for cm in COMBINING[:2]:
                    add(name[:pos + 1] + cm + name[pos + 1:])               # a combining mark after the letter
            add("".join(fullwidth(c) for c in name))                        # all fullwidth
            for cm in COMBINING:
                add(name + cm)
                add(cm + name)
            add(name + "\u00a0")
            add("\ufeff" + name)
        low = CANON[v].lower()
        # every subset of the letters i / s replaced by dotless i / long s (these upper-case to the name)
        pos = [k for k, ch in enumerate(low) if ch in "is"]
        for mask in range(1, 2 ** len(pos)):
            s = list(low)
            for b, k in enumerate(pos):
                if mask >> b & 1:
                    s[k] = "\u0131" if low[k] == "i" else "\u017f"
            add("".join(s))
            add("".join(s).capitalize())
    for s in ("bl\u00df12_381", "goldilock\u00df", "BL\u00df12_381", "\ufb01", "goldilock\ufb06", "gol\ufb04ocks", "bl\ufb0612_381",
              "\u0432n254", "bn\uff12\uff15\uff14", "\uff22\uff2e254", "bn254\u0307", "gold\u0130locks", "goldilo\u0441ks"):
        add(s)
    for lg in LIGATURES:
        add("goldilock" + lg)
    return out


NON_ASCII = non_ascii_universe()


def spelling_universe():
    uni = []
    for v in VARIANTS:
        uni += case_variants(CANON[v])
    uni += NEAR_MISS_ASCII
    uni += NON_ASCII
    seen, out = set(), []
    for s in uni:
        if s not in seen:
            seen.add(s)
            out.append(s)
    return out


def hexs(s):
    return s.encode("utf-8").hex() or "-"


def exec_from_str(binary, spellings):
    out = common.run_lines(binary, ["parse"], [hexs(s) for s in spellings])
    res = []
    for s, line in zip(spellings, out):
        h, r = line.split(" = ")
        if h != hexs(s):
            raise common.BuildError("curves parse: output out of step", line)
        res.append(r)
    return res


def exec_upper_table(binary):
    """[(code point, ASCII text)] for every character >= 128 whose upper-casing is ASCII text (executed)."""
    rc, out, err = common.sh([binary, "upper-table"], timeout=120)
    if rc != 0:
        raise common.BuildError("curves upper-table failed", err[-2000:])
    table = []
    for line in out.splitlines():
        cp, u = line.split(" ", 1)
        table.append((int(cp), u))
    return table


def exec_primes(binary):
    rc, out, err = common.sh([binary, "primes"], timeout=60)
    if rc != 0:
        raise common.BuildError("curves primes failed", err[-2000:])
    table = {}
    for line in out.splitlines():
        f = line.split()
        if len(f) == 4:
            table[f[0]] = {"stored": f[1], "prime": int(f[2]), "size": int(f[3])}
        else:
            table[f[0]] = {"stored": "panic", "prime": 0, "size": 0}
    return table


# ---------------------------------------------------------------------------
# Coq text
# ---------------------------------------------------------------------------
def cstr(s):
    if any(ord(c) < 32 or ord(c) > 126 for c in s):
        raise ValueError("not printable ASCII: %r" % s)
    return '"' + s.replace('"', '""') + '"'


def cbytes(s):
    """Any text as a Coq string: the sequence of its UTF-8 bytes (a Coq string is a list of bytes)."""
    if printable(s):
        return cstr(s)
    return "(bs [%s])" % "; ".join("%d" % b for b in s.encode("utf-8"))


def clist(items, per_line=6, indent="  "):
    if not items:
        return "[]"
    lines = []
    for i in range(0, len(items), per_line):
        lines.append(indent + "; ".join(items[i:i + per_line]))
    return "[\n" + ";\n".join(lines) + "\n]"


def cz(n):
    return "(%d)" % n if n < 0 else "%d" % n


HEAD = ("(* GENERATED by lib/props/C11.py (gen) from the current tree of the analysed\n"
        "   repository on every run - do not edit, not under version control.\n   Source: %s *)\n"
        "From Coq Require Import String Ascii List ZArith.\nImport ListNotations.\nLocal Open Scope string_scope.\nLocal Open Scope Z_scope.\n\n")


def printable(s):
    return all(32 <= ord(c) <= 126 for c in s)


def safe(fn, fallback):
    """The extractors must never abort the run: an unreadable source becomes a
    recorded problem and an `unrecognised` table (the lemmas then fail and the
    sweep still searches for a failing input)."""
    try:
        return fn()
    except Exception as e:  # noqa: BLE001
        fb = dict(fallback)
        fb["problems"] = ["extractor %s failed on the current tree: %r" % (fn.__name__, e)]
        return fb


PS_FALLBACK = {"arrays": [], "dispatch": [], "bn254_exact_match": False, "nonstrict_curve": ("CUnrecognised", ""),
               "nonstrict_exempt": [], "nonstrict_guards": [("Num2Bits", 1, 0, "CUnrecognised", 0)], "lessthan_guard": ("CUnrecognised", 0),
               "lessthan_literals": (("", 0), ("", 0), "", ""), "rangecheck_policy": "unrecognised", "from_str_normaliser": "unrecognised", "from_str_arms": [], "enum_variants": [],
               "prime_literals": [], "shape": [("extractor", False)], "cli_default_curve": ""}
PD_FALLBACK = {"rows": [], "columns": [], "bits": [], "default_bits": -1, "help_names": []}


def gen(ctx):
    binary = common.build_harness("curves")
    ps = safe(parse_sources, PS_FALLBACK)
    pd = safe(parse_doc, PD_FALLBACK)
    g = os.path.join(common.COQ, "gen")
    # --- CurveTables.v ---
    t = HEAD % ", ".join(REL[k] for k in ("bn254", "nonstrict", "lessthan", "constants", "cli", "config"))
    t += "Inductive cmp := CLt | CLe | CGt | CGe | CEq | CNe | CUnrecognised.\n\n"
    t += "(* const arrays of bn254_specific_circuit.rs: (identifier, declared length, elements) *)\n"
    t += "Definition const_arrays : list (string * (Z * list string)) := %s.\n\n" % clist(
        ["(%s, (%s, %s))" % (cstr(n), cz(d), clist([cstr(x) for x in items], indent="     ")) for n, d, items in ps["arrays"]], per_line=1)
    t += "(* match cfg.constants().curve() in find_bn254_specific_circuits: variant -> array, None = early return *)\n"
    t += "Definition bn254_dispatch : list (string * option string) := %s.\n\n" % clist(
        ["(%s, %s)" % (cstr(v), "Some " + cstr(a) if a else "None") for v, a in ps["dispatch"]], per_line=1)
    t += "(* the membership test is HashSet<&str>::contains(&component_name[..]): exact string equality *)\n"
    t += "Definition bn254_exact_match : bool := %s.\n\n" % ("true" if ps["bn254_exact_match"] else "false")
    t += "(* `if curve() <op> &Curve::<variant> { return }` of find_nonstrict_binary_conversion *)\n"
    t += "Definition nonstrict_curve_guard : cmp * string := (%s, %s).\n\n" % (ps["nonstrict_curve"][0], cstr(ps["nonstrict_curve"][1]))
    t += "(* `if matches!(cfg.definition_type(), A | B) { return }` *)\n"
    t += "Definition nonstrict_exempt_definitions : list string := %s.\n\n" % clist([cstr(x) for x in ps["nonstrict_exempt"]])
    t += ("(* visit_statement of the non-strict conversion pass, in source order:\n"
          "   (template literal, args.len(), index of the inspected argument, comparison, offset):\n"
          "   the instantiation is safe iff  value <cmp> prime_size + offset *)\n")
    t += "Definition nonstrict_guards : list (string * (Z * (Z * (cmp * Z)))) := %s.\n\n" % clist(
        ["(%s, (%s, (%s, (%s, %s))))" % (cstr(n), cz(a), cz(i), c, cz(o)) for n, a, i, c, o in ps["nonstrict_guards"]], per_line=1)
    t += "(* find_unconstrained_less_than: is_positive iff  value <cmp> prime_size + offset *)\n"
    t += "Definition lessthan_guard : cmp * Z := (%s, %s).\n\n" % (ps["lessthan_guard"][0], cz(ps["lessthan_guard"][1]))
    (a, an), (b, bn), s1, s2 = ps["lessthan_literals"]
    t += ("(* update_components: first the comparator template, then the range-check template (name, args.len());\n"
          "   update_inputs: input signal of the range check, input signal of the comparator *)\n")
    t += "Definition lessthan_template : string * Z := (%s, %s).\n" % (cstr(a), cz(an))
    t += "Definition rangecheck_template : string * Z := (%s, %s).\n" % (cstr(b), cz(bn))
    t += "Definition rangecheck_signal : string := %s.\nDefinition lessthan_signal : string := %s.\n\n" % (cstr(s1), cstr(s2))
    t += ("(* a second assignment of a component key to the range-check template: \"insert\" = HashMap::insert, the last one wins;\n"
          "   \"weakest\" = the weaker bit size is kept *)\n")
    t += "Definition rangecheck_policy : string := %s.\n\n" % cstr(ps.get("rangecheck_policy", "unrecognised"))
    t += "(* Curve::from_str: match &curve.<normaliser>()[..] { literal => Ok(Curve::variant), ... } *)\n"
    t += "Definition from_str_normaliser : string := %s.\n" % cstr(ps["from_str_normaliser"])
    t += "Definition from_str_arms : list (string * string) := %s.\n" % clist(
        ["(%s, %s)" % (cstr(l), cstr(v)) for l, v in ps["from_str_arms"]], per_line=1)
    t += ("\n(* strict reading (lib/props/c11shape.py): every anchored item of the four sources - and the inventory of\n"
          "   impl headers / functions / consts / types of each file - with `true` iff its WHOLE token stream matched\n"
          "   the template (nothing left over: no extra statement, early return, conjunct, changed operator) *)\n")
    t += "Definition source_shape : list (string * bool) := %s.\n\n" % clist(
        ["(%s, %s)" % (cstr(l), "true" if ok else "false") for l, ok in ps["shape"]], per_line=1)
    t += "(* the decimal literals of Curve::prime(), per variant *)\n"
    t += "Definition source_prime_literals : list (string * Z) := %s.\n" % clist(
        ["(%s, %d)" % (cstr(v), n) for v, n in ps["prime_literals"]], per_line=1)
    common.write_if_changed(os.path.join(g, "CurveTables.v"), t)
    # --- DocTable.v ---
    t = HEAD % ", ".join(REL[k] for k in ("doc", "cli", "config"))
    t += "(* header cells 2.. of the table, mapped to curve variants, and their `(N bits)` annotations *)\n"
    t += "Definition doc_columns : list string := %s.\n" % clist([cstr(c) for c in pd["columns"]])
    t += "Definition doc_column_bits : list Z := %s.\n" % clist([cz(b) for b in pd["bits"]])
    t += "(* `BN254 scalar field (a N-bit prime field)` *)\nDefinition doc_default_bits : Z := %s.\n\n" % cz(pd["default_bits"])
    t += "(* rows: (template name as printed, one mark per column) *)\n"
    t += "Definition doc_table : list (string * list bool) := %s.\n\n" % clist(
        ["(%s, [%s])" % (cstr(n), "; ".join("true" if m else "false" for m in marks)) for n, marks in pd["rows"]], per_line=1)
    t += ("(* cli/src/main.rs: `/// Set curve (...)`; the string `--curve` defaults to: the `default_value` of the `curve`\n"
          "   field of struct Cli, read strictly (source_shape rows cli::Cli::curve, config::DEFAULT_CURVE) - either a\n"
          "   string literal or config::DEFAULT_CURVE of program_analysis/src/config.rs *)\n")
    t += "Definition cli_help_names : list string := %s.\n" % clist([cstr(n) for n in pd["help_names"]])
    t += "Definition cli_default_curve : string := %s.\n" % cstr(ps["cli_default_curve"] if printable(ps["cli_default_curve"]) else "unrecognised")
    common.write_if_changed(os.path.join(g, "DocTable.v"), t)
    # --- Primes.v (executed) ---
    pt = exec_primes(binary)
    t = HEAD % "execution of UsefulConstants::new(&curve) through harness/src/bin/curves.rs"
    t += "(* (variant, (variant stored in the constants, (prime(), prime_size()))) *)\n"
    t += "Definition prime_table : list (string * (string * (Z * Z))) := %s.\n" % clist(
        ["(%s, (%s, (%d, %d)))" % (cstr(v), cstr(pt[v]["stored"]), pt[v]["prime"], pt[v]["size"]) for v in VARIANTS if v in pt], per_line=1)
    common.write_if_changed(os.path.join(g, "Primes.v"), t)
    # --- CurveNames.v (executed) ---
    uni = spelling_universe()
    res = exec_from_str(binary, uni)
    ut = exec_upper_table(binary)
    t = HEAD % "execution of <Curve as FromStr>::from_str and of char::to_uppercase through harness/src/bin/curves.rs"
    t += "(* a text given by its UTF-8 bytes *)\nDefinition bs (l : list Z) : string := string_of_list_ascii (List.map (fun b => ascii_of_N (Z.to_N b)) l).\n\n"
    t += ("(* (code point, upper-cased text): EVERY character >= 128 whose char::to_uppercase() is ASCII text, obtained by\n"
          "   executing it on all code points; the only way a non-ASCII spelling can upper-case to an ASCII name *)\n")
    t += "Definition unicode_upper_ascii : list (Z * string) := %s.\n\n" % clist(["(%d, %s)" % (cp, cstr(u)) for cp, u in ut], per_line=4)
    t += ("(* (spelling, accepted variant | None = rejected); %d spellings: every case variant of the three names, ASCII near\n"
          "   misses and %d non-ASCII near misses (dotless i, long s, Kelvin sign, fullwidth, combining marks, ligatures) *)\n"
          % (len(uni), sum(1 for s in uni if not s.isascii())))
    t += "Definition curve_name_table : list (string * option string) := %s.\n" % clist(
        ["(%s, %s)" % (cbytes(s), "None" if r == "reject" else "Some " + cstr(r)) for s, r in zip(uni, res)], per_line=4)
    common.write_if_changed(os.path.join(g, "CurveNames.v"), t)
    ctx.c11 = {"sources": ps, "doc": pd, "primes": pt, "from_str": dict(zip(uni, res))}
    return ctx.c11


# ---------------------------------------------------------------------------
# generated .circom files and their abstract programs
# ---------------------------------------------------------------------------
RULES = {"CS0016": "bn254", "CS0010": "nonstrict", "CS0014": "lessthan"}
DEFAULT_RUN = "default"     # a CLI run without `--curve`
DOC_DEFAULT = "Bn254"       # the documented default curve (doc/analysis_passes.md, CLI help)
CURVE_ARG = {"Bn254": "BN254", "Bls12_381": "BLS12_381", "Goldilocks": "GOLDILOCKS"}


def q(s):
    return '"' + s.replace('"', '""') + '"'


# ---------------------------------------------------------------------------
# the model statements, derived from the tool's IR (third audit)
# ---------------------------------------------------------------------------
TK = {"local": "TLocal", "signal": "TSignal", "component": "TComponent", "none": "TNone"}


def coq_argval(a):
    """arg.value() as dumped by `curves ir`: FieldElement / Boolean / unknown."""
    if a["v"] == "f":
        return "(VField (%d)%%Z)" % int(a["n"])
    if a["v"] == "b":
        return "(VBool %s)" % ("true" if a["b"] else "false")
    return "VUnknown"


def coq_acc(acc):
    """[["i", identity of the index expression] | ["f", signal name]]"""
    return "[" + "; ".join(("AIndex %s" if k == "i" else "AField %s") % q(x) for k, x in acc) + "]"


def coq_stmt(s):
    """One statement of the IR dump -> Gallina (Model.Curves.stmt)."""
    if s["k"] == "assign":
        c = s["call"]
        rhs = "ROther" if c is None else "(RCall (mkCall %s [%s]))" % (q(c["name"]), "; ".join(coq_argval(a) for a in c["args"]))
        return "SAssign %s %s %s %s" % (TK[s["tk"]], q(s["var"]), coq_acc(s["acc"]), rhs)
    if s["k"] == "constrain":
        return "SConstrain %s %s %s" % (q(s["var"]), coq_acc(s["acc"]) if s["update"] else "[]", q(s["value"]))
    return "SOther"


def ir_programs(binary, paths):
    """{(file name, curve variant): dump} - every generated file through the tool's own front end
    (AnalysisRunner::with_files), once per curve: the statements the three passes visit, in their
    order, with the type knowledge, the value knowledge of call arguments and the structural
    identity of constrained values as the TOOL computed them."""
    jobs = [(name, cv) for name in paths for cv in VARIANTS]
    lines = ["%s %s" % (cv, paths[name].encode("utf-8").hex()) for name, cv in jobs]
    out = common.run_lines(binary, ["ir"], lines, shards=common.NPROC)
    if len(out) != len(jobs):
        raise common.BuildError("curves ir: %d results for %d files" % (len(out), len(jobs)), "\n".join(out[:3])[:1000])
    res = {}
    for job, line in zip(jobs, out):
        try:
            res[job] = json.loads(line)
        except ValueError:
            res[job] = {"error": "unreadable dump: " + line[:200]}
    return res


class Tmpl:
    """One definition = one abstract program of the model."""

    def __init__(self, name, params="", kind="template", deftype="DTemplate"):
        self.name, self.params, self.kind, self.deftype = name, params, kind, deftype
        self.body = []          # (circom text, stmt or None)
        self.stmts = []         # dicts: coq, checks, line (set by render)
        self.values = {}        # printed value -> check dict

    def raw(self, text):
        self.body.append((text, None))

    def assign(self, text, tk, var, acc, tname, args, checks=()):
        """`var[acc] = tname(args)`.  Third audit: the model statement is no longer written here - it is DERIVED
        from the tool's IR (harness `curves ir`, see ir_programs).  tk / var / tname / args are kept as the
        generator's EXPECTATION of that abstraction and compared with the derived one (expectation_mismatches)."""
        st = {"expect": {"k": "assign", "tk": tk, "var": var, "name": tname, "acc": list(acc),
                         "args": [a if (a is None or isinstance(a, (bool, int))) else "curve-dependent" for a in args]},
              "checks": list(checks), "text": text.strip()}
        self.stmts.append(st)
        self.body.append((text, st))

    def constrain(self, text, var, acc, value):
        st = {"expect": {"k": "constrain", "var": var, "shown": value, "acc": list(acc)}, "checks": [], "text": text.strip()}
        self.stmts.append(st)
        self.body.append((text, st))

    def lt_value(self, value, sizes, note="", shown=None, two_paths=False):
        """Oracle entry: `value` (a key unique in the file) is an input of LessThan, printed as `shown` (default:
        the key itself; two structurally different values may print alike, e.g. `x[j]` before and after `j = j + 1`);
        sizes = the range checks it is also fed to, each int | None for non-constant | callable(curve variant) -> int |
        ("every", [sizes]) for ONE component variable that is assigned Num2Bits(k) on several paths - such a component
        is a range check only if every one of its assignments is (fourth audit)."""
        self.values[value] = {"sizes": sizes, "note": note, "shown": shown or value, "two_paths": two_paths}


class CFile:
    def __init__(self, name, pre=(), post=()):
        self.name, self.pre, self.post, self.tmpls = name, list(pre), list(post), []

    def add(self, t):
        self.tmpls.append(t)
        return t

    def render(self):
        lines = ["pragma circom 2.1.0;"] + self.pre
        for t in self.tmpls:
            head = {"template": "template %s(%s) {", "custom": "template custom %s(%s) {", "function": "function %s(%s) {"}[t.kind]
            lines.append(head % (t.name, t.params))
            for text, st in t.body:
                lines.append("  " + text)
                if st is not None:
                    st["line"] = len(lines)
            lines.append("}")
        lines += self.post
        return "\n".join(lines) + "\n"


def name_universe(doc_rows):
    """The documented names, Circomlib's spelling of them, and near misses."""
    base = []
    for n, _ in doc_rows:
        for x in (n, circomlib_spelling(n)):
            if x not in base:
                base.append(x)
    uni = []

    def add(x):
        if x and x not in uni and re.fullmatch(r"[A-Za-z_][A-Za-z0-9_]*", x):
            uni.append(x)
    for n in base:
        add(n)
    for n in base:
        for x in (n.lower(), n.upper(), n.swapcase(), n[0].lower() + n[1:], n[0] + n[1:].lower(),
                  n.replace("_strict", "_Strict"), n.replace("_Strict", "_strict"), n.replace("_strict", "").replace("_Strict", ""),
                  n + "_strict", n + "_Strict", "X" + n, "_" + n, n + "X", n + "_", n + "2", n[:-1], n[1:], n + n,
                  n.replace("Verifier", "verifier"), n.replace("MiMC", "Mimc"), n.replace("SMT", "Smt"), n.replace("EdDSA", "Eddsa")):
            add(x)
    for x in ("Num2Bits", "Bits2Num", "Bits2Point", "Point2Bits", "EscalarMul", "EscalarMulFix", "SMTHash", "LessThan", "IsZero",
              "Poseidon2", "PoseidonEx2", "MiMC", "MiMC5", "BabyAdd", "BabyDbl", "BabyCheck", "Sign0", "sign", "SIGN", "Pedersen2",
              "Num2BitsNeg", "Num2Bits_strict_", "AliasCheck_", "CompConstant2", "SMTVerifierSM", "SMTProcessorSM", "SMTLevIns", "T"):
        add(x)
    return uni


def sub0(lit, k):
    """Gallina value of the Circom expression `0 - (lit - k)` in the field of curve c
    (Model.Field.sub is the proved mirror of the implementation's field subtraction)."""
    return "(VField (Field.sub 0 (Field.sub (%d) (%d) (prime c)) (prime c)))" % (lit, k)


def sentinel_sizes():
    """Large sizes far from the thresholds: every power of two up to 2^70, the
    machine-integer boundaries (i32/u32/i64/u64/usize +- 1), 5000 and its
    neighbours, a few round numbers, sizes just below/at/above each documented
    prime.  A comparison that goes through a machine integer, a special-cased
    value or a truncation shows here and not in the dense range 0..300."""
    v = set(2 ** i for i in range(0, 71))
    for b in (15, 16, 31, 32, 63, 64):
        v |= {2 ** b - 1, 2 ** b + 1}
    v |= {4999, 5000, 5001, 1000, 10 ** 6, 10 ** 9, 10 ** 18, 10 ** 19, 10 ** 20, 2 ** 64 + 254, 2 ** 64 + 5000,
          2 ** 128, 2 ** 128 + 253, 2 ** 200, 2 ** 253, 2 ** 254 - 1}
    for var in VARIANTS:
        pr = DOC_PRIME[var]
        b = pr.bit_length()
        v |= {pr - 1, pr, pr + 1, pr + b - 2, pr + b - 1, pr + b, 2 * pr + 5, pr // 2, pr // 2 + 1}
    return sorted(v)


def big(v):
    """A literal size as the tool sees it: reduced modulo the prime of the curve.
    -> (model argument (raw Gallina), oracle size (function of the curve variant))"""
    return "(VField (Z.modulo (%d) (prime c)))" % v, (lambda cv, v=v: v % DOC_PRIME[cv])


def forms_files(ctx):
    """The forms in which a value reaches a LessThan / Num2Bits input.  The oracle entries (lt_value) state the
    documented semantics where it is clear: a value is range-checked when a Num2Bits(k) with 2^k - 1 <= p/2 is fed
    the SAME expression (syntactically: same operators, same operands, same indices).  Forms the pass does not track
    at all (`<--`, an array literal, the inputs of an anonymous component, a range check in another loop) carry no
    oracle entry: the property speaks of what counts as range-checked, not of which inputs are found; there the
    comparison is model (derived from the tool's IR) against the binary."""
    pre = ["template Num2Bits(n) { signal input in; signal output out[n]; out[0] <== in; }",
           "template LessThan(n) { signal input in[2]; signal output out; out <== in[0]; }"]
    files = []
    f = CFile("lt_forms", pre=pre)
    good, bad = 20, 300
    for vi, var in enumerate(VARIANTS):
        b = DOC_PRIME[var].bit_length()
        for (g, w) in ((good, bad), (b - 2, b - 1)):
            u = "%d_%d" % (vi, g)            # unique suffix of the names of this template
            t = f.add(Tmpl("Forms%s" % u, "n"))
            for nm in ("in", "p", "q"):
                t.raw("signal input %s%s[4];" % (nm, u))
            t.raw("signal input m%s[2][3];" % u)
            for nm in "abcdefgh":
                t.raw("signal input %s%s;" % (nm, u))
            t.raw("signal input e2%s[2];" % u)
            t.raw("signal output o%s;" % u)
            cnt = [0]

            def n2b(k, value_text, shown, signal="in", arrow="<=="):
                cnt[0] += 1
                c = "n%s_%d" % (u, cnt[0])
                t.assign("component %s = Num2Bits(%d);" % (c, k), "TComponent", c, [], "Num2Bits", [k], checks=[("nonstrict", "Num2Bits", k)])
                if arrow == "==>":
                    t.constrain("%s ==> %s.%s;" % (value_text, c, signal), c, [signal], shown)
                elif arrow == "<--":
                    t.raw("%s.%s <-- %s;" % (c, signal, value_text))
                else:
                    t.constrain("%s.%s <== %s;" % (c, signal, value_text), c, [signal], shown)

            def lt(pairs, arrow="<=="):
                """pairs: [(index, value text, printed form)]"""
                cnt[0] += 1
                c = "l%s_%d" % (u, cnt[0])
                t.assign("component %s = LessThan(8);" % c, "TComponent", c, [], "LessThan", [8])
                for idx, value_text, shown in pairs:
                    if arrow == "==>":
                        t.constrain("%s ==> %s.in[%d];" % (value_text, c, idx), c, ["in", idx], shown)
                    elif arrow == "<--":
                        t.raw("%s.in[%d] <-- %s;" % (c, idx, value_text))
                    else:
                        t.constrain("%s.in[%d] <== %s;" % (c, idx, value_text), c, ["in", idx], shown)
            # array elements: the range check is on element 0, elements 0 and 1 are compared
            n2b(g, "in%s[0]" % u, "in%s[0]" % u)
            lt([(0, "in%s[0]" % u, "in%s[0]" % u), (1, "in%s[1]" % u, "in%s[1]" % u)])
            t.lt_value("in%s[0]" % u, [g])
            t.lt_value("in%s[1]" % u, [])
            # ... an insufficient check on element 2, a sufficient one on element 3
            n2b(w, "in%s[2]" % u, "in%s[2]" % u)
            n2b(g, "in%s[3]" % u, "in%s[3]" % u)
            lt([(0, "in%s[2]" % u, "in%s[2]" % u), (1, "in%s[3]" % u, "in%s[3]" % u)])
            t.lt_value("in%s[2]" % u, [w])
            t.lt_value("in%s[3]" % u, [g])
            # two-dimensional elements that differ in one index
            n2b(g, "m%s[1][2]" % u, "m%s[1][2]" % u)
            lt([(0, "m%s[1][2]" % u, "m%s[1][2]" % u), (1, "m%s[1][1]" % u, "m%s[1][1]" % u)])
            t.lt_value("m%s[1][2]" % u, [g])
            t.lt_value("m%s[1][1]" % u, [])
            lt([(0, "m%s[0][2]" % u, "m%s[0][2]" % u)])
            t.lt_value("m%s[0][2]" % u, [])
            # compound values: same operands, another operator
            a, bb, c, d, e, ff, gg, h = ["%s%s" % (nm, u) for nm in "abcdefgh"]
            n2b(g, "%s - %s" % (a, bb), "(%s - %s)" % (a, bb))
            lt([(0, "%s + %s" % (a, bb), "(%s + %s)" % (a, bb)), (1, "%s - %s" % (a, bb), "(%s - %s)" % (a, bb))])
            t.lt_value("(%s + %s)" % (a, bb), [])
            t.lt_value("(%s - %s)" % (a, bb), [g])
            lt([(0, "%s * %s" % (a, bb), "(%s * %s)" % (a, bb)), (1, "%s - %s" % (bb, a), "(%s - %s)" % (bb, a))])
            t.lt_value("(%s * %s)" % (a, bb), [])
            t.lt_value("(%s - %s)" % (bb, a), [])
            # compound values over array elements: same array, other index
            n2b(g, "p%s[0] + q%s[1]" % (u, u), "(p%s[0] + q%s[1])" % (u, u))
            lt([(0, "p%s[0] + q%s[1]" % (u, u), "(p%s[0] + q%s[1])" % (u, u)), (1, "p%s[1] + q%s[1]" % (u, u), "(p%s[1] + q%s[1])" % (u, u))])
            t.lt_value("(p%s[0] + q%s[1])" % (u, u), [g])
            t.lt_value("(p%s[1] + q%s[1])" % (u, u), [])
            # prefix operator
            n2b(g, "-%s" % c, "-(%s)" % c)
            lt([(0, "-%s" % c, "-(%s)" % c), (1, c, c)])
            t.lt_value("-(%s)" % c, [g])
            t.lt_value(c, [])
            # the reversed arrow is the same constraint
            n2b(g, d, d, arrow="==>")
            lt([(0, d, d)], arrow="==>")
            t.lt_value(d, [g])
            n2b(w, e, e, arrow="==>")
            lt([(1, e, e)], arrow="==>")
            t.lt_value(e, [w])
            # `<--` is not a constraint: neither the check nor the comparison input is tracked (model against binary);
            # the constrained second input is reported
            n2b(g, "e2%s[0]" % u, "e2%s[0]" % u, arrow="<--")
            cnt[0] += 1
            c4 = "l%s_%d" % (u, cnt[0])
            t.assign("component %s = LessThan(8);" % c4, "TComponent", c4, [], "LessThan", [8])
            t.raw("%s.in[0] <-- e2%s[0];" % (c4, u))
            t.constrain("%s.in[1] <== e2%s[1];" % (c4, u), c4, ["in", 1], "e2%s[1]" % u)
            t.lt_value("e2%s[1]" % u, [])
            # an array literal and an anonymous component: the inputs are not tracked (model against binary)
            cnt[0] += 1
            c5 = "l%s_%d" % (u, cnt[0])
            t.assign("component %s = LessThan(8);" % c5, "TComponent", c5, [], "LessThan", [8])
            t.constrain("%s.in <== [%s, %s];" % (c5, ff, gg), c5, ["in"], "[%s, %s]" % (ff, gg))
            t.raw("signal an%s <== LessThan(8)([%s, %s]);" % (u, ff, gg))
            t.raw("signal am%s[%d] <== Num2Bits(%d)(%s);" % (u, max(g, 1), g, ff))
            # inputs inside a loop: check and comparison in the same iteration
            for nm in ("fa", "fb", "fc"):
                t.raw("signal input %s%s[3];" % (nm, u))
            t.raw("component nl%s[3];" % u)
            t.raw("component ll%s[3];" % u)
            t.raw("component nw%s[3];" % u)
            t.raw("component lw%s[3];" % u)
            t.raw("for (var i = 0; i < 3; i++) {")
            t.assign("  nl%s[i] = Num2Bits(%d);" % (u, g), "TComponent", "nl" + u, ["i"], "Num2Bits", [g], checks=[("nonstrict", "Num2Bits", g)])
            t.constrain("  nl%s[i].in <== fa%s[i];" % (u, u), "nl" + u, ["i", "in"], "fa%s[i]" % u)
            t.assign("  ll%s[i] = LessThan(8);" % u, "TComponent", "ll" + u, ["i"], "LessThan", [8])
            t.constrain("  ll%s[i].in[0] <== fa%s[i];" % (u, u), "ll" + u, ["i", "in", 0], "fa%s[i]" % u)
            t.assign("  nw%s[i] = Num2Bits(%d);" % (u, w), "TComponent", "nw" + u, ["i"], "Num2Bits", [w], checks=[("nonstrict", "Num2Bits", w)])
            t.constrain("  nw%s[i].in <== fb%s[i];" % (u, u), "nw" + u, ["i", "in"], "fb%s[i]" % u)
            t.assign("  lw%s[i] = LessThan(8);" % u, "TComponent", "lw" + u, ["i"], "LessThan", [8])
            t.constrain("  lw%s[i].in[1] <== fb%s[i];" % (u, u), "lw" + u, ["i", "in", 1], "fb%s[i]" % u)
            t.raw("}")
            t.lt_value("fa%s[i]" % u, [g])
            t.lt_value("fb%s[i]" % u, [w])
            # ... the check in one loop, the comparison in another: other index variable, not matched (model against binary)
            t.raw("component nm%s[3];" % u)
            t.raw("component lm%s[3];" % u)
            t.raw("for (var i = 0; i < 3; i++) {")
            t.assign("  nm%s[i] = Num2Bits(%d);" % (u, g), "TComponent", "nm" + u, ["i"], "Num2Bits", [g], checks=[("nonstrict", "Num2Bits", g)])
            t.constrain("  nm%s[i].in <== fc%s[i];" % (u, u), "nm" + u, ["i", "in"], "fc%s[i]" % u)
            t.raw("}")
            t.raw("for (var j = 0; j < 3; j++) {")
            t.assign("  lm%s[j] = LessThan(8);" % u, "TComponent", "lm" + u, ["j"], "LessThan", [8])
            t.constrain("  lm%s[j].in[0] <== fc%s[j];" % (u, u), "lm" + u, ["j", "in", 0], "fc%s[j]" % u)
            t.raw("}")
            # a component name declared again in an inner block: two components
            t.assign("component sh%s = Num2Bits(%d);" % (u, w), "TComponent", "sh" + u, [], "Num2Bits", [w], checks=[("nonstrict", "Num2Bits", w)])
            t.constrain("sh%s.in <== %s;" % (u, gg), "sh" + u, ["in"], gg)
            t.raw("if (n == 1) {")
            t.assign("  component sh%s = Num2Bits(%d);" % (u, g), "TComponent", "sh" + u, [], "Num2Bits", [g], checks=[("nonstrict", "Num2Bits", g)])
            t.constrain("  sh%s.in <== %s;" % (u, h), "sh" + u, ["in"], h)
            t.raw("}")
            lt([(0, gg, gg), (1, h, h)])
            t.lt_value(gg, [w])
            t.lt_value(h, [g])
            # hexadecimal sizes
            for k in (g, w, 253, 254):
                cnt[0] += 1
                cx = "x%s_%d" % (u, cnt[0])
                t.assign("component %s = Num2Bits(0x%X);" % (cx, k), "TComponent", cx, [], "Num2Bits", [k], checks=[("nonstrict", "Num2Bits", k)])
                cnt[0] += 1
                cx = "x%s_%d" % (u, cnt[0])
                t.assign("component %s = Bits2Num(0x%x);" % (cx, k), "TComponent", cx, [], "Bits2Num", [k], checks=[("nonstrict", "Bits2Num", k)])
            t.raw("o%s <== %s;" % (u, a))
    files.append(f)
    # a file WITH a main component (the parser returns a program, not a library): the definitions are analysed
    # as before; the instantiation in the main component itself is the subject of main_component_probe
    f = CFile("with_main", pre=pre, post=["component main = Num2Bits(254);"])
    t = f.add(Tmpl("WithMain"))
    t.raw("signal input a;")
    t.raw("signal input b;")
    t.assign("component n = Num2Bits(253);", "TComponent", "n", [], "Num2Bits", [253], checks=[("nonstrict", "Num2Bits", 253)])
    t.assign("component m = Num2Bits(254);", "TComponent", "m", [], "Num2Bits", [254], checks=[("nonstrict", "Num2Bits", 254)])
    t.assign("component s = Sign();", "TComponent", "s", [], "Sign", [], checks=[("bn254", "Sign")])
    t.constrain("n.in <== a;", "n", ["in"], "a")
    t.assign("component l = LessThan(8);", "TComponent", "l", [], "LessThan", [8])
    t.constrain("l.in[0] <== a;", "l", ["in", 0], "a")
    t.constrain("l.in[1] <== b;", "l", ["in", 1], "b")
    t.lt_value("a", [253])
    t.lt_value("b", [])
    files.append(f)
    return files


def keys_files(ctx):
    """Fourth audit.  (1) Keys of EVERY constructor of `Expression` that can stand on the right of `<==` and of every
    field `Expression::eq` inspects: calls that differ in the function or in an argument, ternaries that differ in the
    condition / the true branch / the false branch, the three prefix operators over one operand, two numbers, the same
    array element before and after its index variable is re-assigned (the keys differ in an SSA version only), nested
    compounds that differ deep inside, a signal declared again in an inner block (the keys differ in the shadowing
    suffix only).  In each group one value is range-checked and a structurally different one is compared: it must be
    reported.  (2) A component VARIABLE assigned on several paths (`x = Num2Bits(300)` in one branch, `x = Num2Bits(20)`
    in the other): a range check only if every assignment is one."""
    f = CFile("lt_keys", pre=["function kf(x) { return x + 1; }", "function kg(x) { return x + 2; }"])
    for vi, var in enumerate(VARIANTS):
        b = DOC_PRIME[var].bit_length()
        for (g, w) in ((20, 300), (b - 2, b - 1)):
            u = "%d_%d" % (vi, g)
            t = f.add(Tmpl("Keys%s" % u, "c"))
            for nm in "abyz":
                t.raw("signal input %s%s;" % (nm, u))
            t.raw("signal input x%s[4];" % u)
            a, bb, y, z = ["%s%s" % (nm, u) for nm in "abyz"]
            cnt = [0]

            def group(checked, compared, size=g):
                """checked: (text, printed) fed to Num2Bits(size); compared: [(text, printed, reported?)] fed to one LessThan each"""
                cnt[0] += 1
                c = "n%s_%d" % (u, cnt[0])
                t.assign("component %s = Num2Bits(%d);" % (c, size), "TComponent", c, [], "Num2Bits", [size], checks=[("nonstrict", "Num2Bits", size)])
                t.constrain("%s.in <== %s;" % (c, checked[0]), c, ["in"], checked[1])
                for k, (text, shown, reported) in enumerate(compared):
                    cnt[0] += 1
                    l = "l%s_%d" % (u, cnt[0])
                    t.assign("component %s = LessThan(8);" % l, "TComponent", l, [], "LessThan", [8])
                    t.constrain("%s.in[%d] <== %s;" % (l, k % 2, text), l, ["in", k % 2], shown)
                    t.lt_value("%s#%d" % (shown, cnt[0]), [] if reported else [size], shown=shown)
            # calls: other function, other argument
            group(("kf(%s)" % a, "kf(%s)" % a), [("kg(%s)" % a, "kg(%s)" % a, True), ("kf(%s)" % a, "kf(%s)" % a, False), ("kf(%s)" % bb, "kf(%s)" % bb, True)])
            # ternaries: other condition, other branches
            sw = lambda k, p, q: ("(c == %d) ? %s : %s" % (k, p, q), "((c == %d)? %s : %s)" % (k, p, q))
            group(sw(1, a, bb), [sw(2, a, bb) + (True,), sw(1, a, bb) + (False,), sw(1, bb, bb) + (True,), sw(1, a, a) + (True,)])
            # the three prefix operators over one operand
            group(("-%s" % y, "-(%s)" % y), [("~%s" % y, "~(%s)" % y, True), ("!%s" % y, "!(%s)" % y, True), ("-%s" % y, "-(%s)" % y, False)])
            group(("~%s" % z, "~(%s)" % z), [("-%s" % z, "-(%s)" % z, True), ("~%s" % z, "~(%s)" % z, False)])
            # numbers
            num = 1000 + 10 * len(f.tmpls)            # printed forms are compared file-wide: other numbers in each template
            group((str(num), str(num)), [(str(num + 1), str(num + 1), True), (str(num), str(num), False)])
            # nested compounds that differ deep inside
            group(("kf(%s) + %s" % (a, z), "(kf(%s) + %s)" % (a, z)),
                  [("kf(%s) + %s" % (bb, z), "(kf(%s) + %s)" % (bb, z), True), ("kf(%s) + %s" % (a, z), "(kf(%s) + %s)" % (a, z), False),
                   ("kf(%s) - %s" % (a, z), "(kf(%s) - %s)" % (a, z), True)])
            # the same array element before and after its index variable changes: the printed form is the same,
            # the keys differ in the SSA version of j
            t.raw("var j%s = 0;" % u)
            cnt[0] += 1
            c = "n%s_%d" % (u, cnt[0])
            t.assign("component %s = Num2Bits(%d);" % (c, g), "TComponent", c, [], "Num2Bits", [g], checks=[("nonstrict", "Num2Bits", g)])
            t.constrain("%s.in <== x%s[j%s];" % (c, u, u), c, ["in"], "x%s[j%s]" % (u, u))
            cnt[0] += 1
            l = "l%s_%d" % (u, cnt[0])
            t.assign("component %s = LessThan(8);" % l, "TComponent", l, [], "LessThan", [8])
            t.constrain("%s.in[0] <== x%s[j%s];" % (l, u, u), l, ["in", 0], "x%s[j%s]" % (u, u))
            t.lt_value("x%s[j%s]#before" % (u, u), [g], shown="x%s[j%s]" % (u, u))
            t.raw("j%s = j%s + 1;" % (u, u))
            cnt[0] += 1
            l = "l%s_%d" % (u, cnt[0])
            t.assign("component %s = LessThan(8);" % l, "TComponent", l, [], "LessThan", [8])
            t.constrain("%s.in[1] <== x%s[j%s];" % (l, u, u), l, ["in", 1], "x%s[j%s]" % (u, u))
            t.lt_value("x%s[j%s]#after" % (u, u), [], shown="x%s[j%s]" % (u, u))
            # a component variable assigned on several paths
            for pi, (first, second) in enumerate(((w, g), (g, w), (g, g), (w, w), (None, g), (g, None))):
                sig = "tp%s_%d" % (u, pi)
                x = "xp%s_%d" % (u, pi)
                t.raw("signal input %s;" % sig)
                t.raw("component %s;" % x)
                t.raw("if (c == %d) {" % (pi + 1))
                t.assign("  %s = Num2Bits(%s);" % (x, "c" if first is None else first), "TComponent", x, [], "Num2Bits", [first],
                         checks=[("nonstrict", "Num2Bits", first)])
                t.raw("} else {")
                t.assign("  %s = Num2Bits(%s);" % (x, "c" if second is None else second), "TComponent", x, [], "Num2Bits", [second],
                         checks=[("nonstrict", "Num2Bits", second)])
                t.raw("}")
                t.constrain("%s.in <== %s;" % (x, sig), x, ["in"], sig)
                cnt[0] += 1
                l = "l%s_%d" % (u, cnt[0])
                t.assign("component %s = LessThan(8);" % l, "TComponent", l, [], "LessThan", [8])
                t.constrain("%s.in[0] <== %s;" % (l, sig), l, ["in", 0], sig)
                t.lt_value(sig, [("every", [first, second])], two_paths=True)
    return [f]


def build_files(ctx, doc_rows):
    files = []
    uni = name_universe(doc_rows)
    # 1. names: one plain instantiation per name
    f = CFile("names_a")
    per = 120
    for part in range(0, len(uni), per):
        t = f.add(Tmpl("NamesA%d" % (part // per)))
        for i, n in enumerate(uni[part:part + per]):
            v = "c%d" % (part + i)
            t.assign("component %s = %s();" % (v, n), "TComponent", v, [], n, [], checks=[("bn254", n)])
    files.append(f)
    # 2. statement shapes
    f = CFile("names_b", pre=["function fsign(x) {", "  var s = Sign(x);", "  var b = BabyPbk();", "  return s + b;", "}"])
    t = f.add(Tmpl("NamesB", "n"))
    t.raw("signal input a;")
    t.raw("component arr[6];")
    t.assign("arr[0] = Sign();", "TComponent", "arr", [0], "Sign", [], checks=[("bn254", "Sign")])
    t.assign("arr[1] = BabyPbk();", "TComponent", "arr", [1], "BabyPbk", [], checks=[("bn254", "BabyPbk")])
    t.assign("arr[2] = sign();", "TComponent", "arr", [2], "sign", [], checks=[("bn254", "sign")])
    t.raw("component late;")
    t.assign("late = Poseidon(2);", "TComponent", "late", [], "Poseidon", [2], checks=[("bn254", "Poseidon")])
    t.assign("component par = parallel Sign();", "TComponent", "par", [], "Sign", [], checks=[("bn254", "Sign")])
    # a call assigned to a local variable is a function call, not an instantiation: nothing is flagged (oracle entry
    # since the fourth audit: the type knowledge the harness reads is the tool's own, only the oracle can object)
    t.assign("var loc = Sign();", "TLocal", "loc", [], "Sign", [], checks=[("none", "Sign")])
    t.assign("var loc2 = Num2Bits(254);", "TLocal", "loc2", [], "Num2Bits", [254], checks=[("none", "Num2Bits")])
    t.assign("var loc3 = Bits2Num(n);", "TLocal", "loc3", [], "Bits2Num", [None], checks=[("none", "Bits2Num")])
    t.assign("var loc4 = BabyPbk();", "TLocal", "loc4", [], "BabyPbk", [], checks=[("none", "BabyPbk")])
    t.assign("component withargs = MiMC7(91);", "TComponent", "withargs", [], "MiMC7", [91], checks=[("bn254", "MiMC7")])
    t.assign("component two = Pedersen(n, 3);", "TComponent", "two", [], "Pedersen", [None, 3], checks=[("bn254", "Pedersen")])
    t.raw("if (n == 1) {")
    t.assign("  arr[3] = EscalarMulAny(n);", "TComponent", "arr", [3], "EscalarMulAny", [None], checks=[("bn254", "EscalarMulAny")])
    t.raw("} else {")
    t.assign("  arr[4] = Bits2Point_Strict();", "TComponent", "arr", [4], "Bits2Point_Strict", [], checks=[("bn254", "Bits2Point_Strict")])
    t.raw("}")
    t.raw("component loop[3];")
    t.raw("for (var i = 0; i < 3; i++) {")
    t.assign("  loop[i] = SMTVerifier(i);", "TComponent", "loop", [-1], "SMTVerifier", [None], checks=[("bn254", "SMTVerifier")])
    t.raw("}")
    t.raw("component loop2[3];")
    t.raw("for (var j = 0; j < 3; j++) {")
    t.assign("  loop2[j] = Num2Bits(j);", "TComponent", "loop2", [-2], "Num2Bits", [None], checks=[("nonstrict", "Num2Bits", None)])
    t.raw("}")
    t = f.add(Tmpl("NamesBCustom", "", kind="custom", deftype="DCustomTemplate"))
    t.raw("signal input a;")
    t.assign("component cs = Sign();", "TComponent", "cs", [], "Sign", [], checks=[("bn254", "Sign")])
    t.assign("component cn = Num2Bits(254);", "TComponent", "cn", [], "Num2Bits", [254])
    files.append(f)
    # 3. anonymous components (the template must exist for the desugarer)
    f = CFile("names_anon", pre=["template Sign() { signal input in; signal output sign; sign <== in; }",
                                 "template BabyPbk() { signal input in; signal output Ax; Ax <== in; }",
                                 "template IsZero() { signal input in; signal output out; out <== in; }",
                                 "template Num2Bits(n) { signal input in; signal output out[n]; out[0] <== in; }"])
    t = f.add(Tmpl("NamesAnon"))
    t.raw("signal input a;")
    t.assign("signal o1 <== Sign()(a);", "TComponent", None, [], "Sign", [], checks=[("bn254", "Sign")])
    t.assign("signal o2 <== BabyPbk()(a);", "TComponent", None, [], "BabyPbk", [], checks=[("bn254", "BabyPbk")])
    t.assign("signal o3 <== IsZero()(a);", "TComponent", None, [], "IsZero", [], checks=[("bn254", "IsZero")])
    t.assign("signal o4[254] <== Num2Bits(254)(a);", "TComponent", None, [], "Num2Bits", [254], checks=[("nonstrict", "Num2Bits", 254)])
    t.assign("signal o5[253] <== Num2Bits(253)(a);", "TComponent", None, [], "Num2Bits", [253], checks=[("nonstrict", "Num2Bits", 253)])
    files.append(f)
    # 4./5. Num2Bits(n), Bits2Num(n) for all n in 0..300
    for tn, fn in (("Num2Bits", "n2b"), ("Bits2Num", "b2n")):
        f = CFile(fn)
        top = 301 if ctx.tier == "quick" else 1025
        for part in range(0, top, 101):
            t = f.add(Tmpl("%s%d" % (fn.upper(), part)))
            for n in range(part, min(part + 101, top)):
                v = "c%d" % n
                t.assign("component %s = %s(%d);" % (v, tn, n), "TComponent", v, [], tn, [n], checks=[("nonstrict", tn, n)])
        files.append(f)
    # 6. sizes: non-constant sizes, computed constants, arities, prime-dependent constants
    f = CFile("sizes", pre=["function fsize(x) {", "  return x + 1;", "}"])
    t = f.add(Tmpl("Sizes", "n, m"))
    t.raw("signal input a;")
    i = 0
    for tn in ("Num2Bits", "Bits2Num"):
        for expr, val in (("n", None), ("n + 1", None), ("m * 0 + 3", None), ("a", None), ("fsize(3)", None), ("n == n", None),
                          ("1 == 1", True), ("254 > 3", True)):
            v = "s%d" % i
            i += 1
            # a Boolean value is known but is not a FieldElement: treated like a non-constant size
            t.assign("component %s = %s(%s);" % (v, tn, expr), "TComponent", v, [], tn, [val],
                     checks=[("nonstrict", tn, None)] if val is None else [])
        for k in (0, 1, 2, 63, 64, 252, 253, 254, 255, 256, 300):
            t.raw("var b%d = %d + 1;" % (i, k))
            v = "s%d" % i
            t.assign("component %s = %s(b%d - 1);" % (v, tn, i), "TComponent", v, [], tn, [k], checks=[("nonstrict", tn, k)])
            i += 1
        for k in (253, 254):
            v = "s%d" % i
            i += 1
            t.assign("component %s = %s(%d * 2 - %d);" % (v, tn, k, k), "TComponent", v, [], tn, [k], checks=[("nonstrict", tn, k)])
        # the size is a constant only modulo the prime: `0 - (p - k)` is k in the documented field
        for var in VARIANTS:
            for k in (252, 253, 254, 255):
                v = "s%d" % i
                i += 1
                t.assign("component %s = %s(0 - (%d - %d));" % (v, tn, DOC_PRIME[var], k), "TComponent", v, [], tn,
                         [sub0(DOC_PRIME[var], k)],
                         checks=[("nonstrict", tn, (lambda cv, var=var, k=k: (0 - (DOC_PRIME[var] - k)) % DOC_PRIME[cv]))])
        v = "s%d" % i
        i += 1
        t.assign("component %s = %s(0 - 1);" % (v, tn), "TComponent", v, [], tn, ["(VField (Field.sub 0 1 (prime c)))"],
                 checks=[("nonstrict", tn, (lambda cv: DOC_PRIME[cv] - 1))])
        for text, args in (("%s(5, 6)" % tn, [5, 6]), ("%s()" % tn, []), ("%s(n, 5)" % tn, [None, 5])):
            v = "s%d" % i
            i += 1
            t.assign("component %s = %s;" % (v, text), "TComponent", v, [], tn, args)
    # large sentinel sizes, as literals and through a local variable
    for tn in ("Num2Bits", "Bits2Num"):
        t = f.add(Tmpl("Sentinels" + tn))
        for n in sentinel_sizes():
            v = "s%d" % i
            i += 1
            arg, sz = big(n)
            t.assign("component %s = %s(%d);" % (v, tn, n), "TComponent", v, [], tn, [arg], checks=[("nonstrict", tn, sz)])
        for n in (5000, 2 ** 63, 2 ** 64 - 1, 2 ** 64, 2 ** 64 + 1, 2 ** 70):
            v = "s%d" % i
            i += 1
            arg, sz = big(n)
            t.raw("var b%d = %d + 1;" % (i, n - 1))
            t.assign("component %s = %s(b%d);" % (v, tn, i), "TComponent", v, [], tn, [arg], checks=[("nonstrict", tn, sz)])
    # constant-expression forms: every operator the constant folder knows, local-variable chains,
    # compound assignment, a variable assigned the same constant on both branches (the value the
    # documented Circom semantics gives is the oracle's size)
    for tn in ("Num2Bits", "Bits2Num"):
        t = f.add(Tmpl("ConstForms" + tn, "n"))
        forms = [("1 << 7", 128), ("1 << 8", 256), ("2 ** 7", 128), ("2 ** 8", 256), ("508 \\ 2", 254), ("506 \\ 2", 253),
                 ("1000 % 300", 100), ("1254 % 1000", 254), ("255 & 254", 254), ("255 & 253", 253), ("125 | 128", 253),
                 ("126 | 128", 254), ("255 ^ 2", 253), ("255 ^ 1", 254), ("512 >> 1", 256), ("506 >> 1", 253),
                 ("-(-253)", 253), ("-(-254)", 254), ("(1 == 1) ? 253 : 300", 253), ("(1 == 2) ? 253 : 300", 300),
                 ("506 / 2", 253), ("508 / 2", 254), ("253 * 1", 253), ("127 * 2", 254), ("300 - 47", 253), ("300 - 46", 254),
                 ("!0", None), ("3 < 4", True), ("253 == 253", True)]   # `!0`: not folded (0 is a field element, not a Boolean)
        for expr, val in forms:
            v = "s%d" % i
            i += 1
            t.assign("component %s = %s(%s);" % (v, tn, expr), "TComponent", v, [], tn, [val],
                     checks=[("nonstrict", tn, None if isinstance(val, bool) else val)])
        t.raw("var x%d = 250;" % i)
        t.raw("var y%d = x%d + 3;" % (i, i))
        t.raw("var z%d = y%d + 1;" % (i, i))
        t.assign("component ca%d = %s(y%d);" % (i, tn, i), "TComponent", "ca%d" % i, [], tn, [253], checks=[("nonstrict", tn, 253)])
        t.assign("component cb%d = %s(z%d);" % (i, tn, i), "TComponent", "cb%d" % i, [], tn, [254], checks=[("nonstrict", tn, 254)])
        t.raw("var u%d = 0;" % i)
        t.raw("if (n == 1) { u%d = 253; } else { u%d = 253; }" % (i, i))
        t.assign("component cc%d = %s(u%d);" % (i, tn, i), "TComponent", "cc%d" % i, [], tn, [253], checks=[("nonstrict", tn, 253)])
        t.raw("var w%d = 253;" % i)
        t.raw("w%d += 1;" % i)
        t.assign("component cd%d = %s(w%d);" % (i, tn, i), "TComponent", "cd%d" % i, [], tn, [254], checks=[("nonstrict", tn, 254)])
        t.raw("var q%d = 254;" % i)
        t.raw("q%d--;" % i)
        t.assign("component ce%d = %s(q%d);" % (i, tn, i), "TComponent", "ce%d" % i, [], tn, [253], checks=[("nonstrict", tn, 253)])
        t.raw("var r%d = 0;" % i)
        t.raw("if (n == 1) { r%d = 253; } else { r%d = 252; }" % (i, i))
        # two different constants: not ONE compile-time constant - flagged (conservative)
        t.assign("component cf%d = %s(r%d);" % (i, tn, i), "TComponent", "cf%d" % i, [], tn, [None], checks=[("nonstrict", tn, None)])
    files.append(f)
    # 6b. LessThan fed from Num2Bits(k) for the sentinel sizes k
    f = CFile("lt_big")
    sent = sentinel_sizes()
    for part in range(0, len(sent), 60):
        t = f.add(Tmpl("LTBig%d" % part))
        ks = list(enumerate(sent[part:part + 60], start=part))
        for j, k in ks:
            t.raw("signal input u%d;" % j)
        for j, k in ks:
            arg, sz = big(k)
            t.assign("component n%d = Num2Bits(%d);" % (j, k), "TComponent", "n%d" % j, [], "Num2Bits", [arg], checks=[("nonstrict", "Num2Bits", sz)])
            t.constrain("n%d.in <== u%d;" % (j, j), "n%d" % j, ["in"], "u%d" % j)
            t.assign("component l%d = LessThan(8);" % j, "TComponent", "l%d" % j, [], "LessThan", [8])
            t.constrain("l%d.in[%d] <== u%d;" % (j, j % 2, j), "l%d" % j, ["in", j % 2], "u%d" % j)
            t.lt_value("u%d" % j, [sz])
    files.append(f)
    # 7./8. LessThan fed from Num2Bits(k), k in 0..300
    for fi, (lo, hi) in enumerate(((0, 150), (151, 300))):
        f = CFile("lt_%d" % fi)
        for part in range(lo, hi + 1, 76):
            t = f.add(Tmpl("LT%d" % part))
            ks = list(range(part, min(part + 76, hi + 1)))
            for k in ks:
                t.raw("signal input v%d;" % k)
            for k in ks:
                t.assign("component n%d = Num2Bits(%d);" % (k, k), "TComponent", "n%d" % k, [], "Num2Bits", [k], checks=[("nonstrict", "Num2Bits", k)])
                t.constrain("n%d.in <== v%d;" % (k, k), "n%d" % k, ["in"], "v%d" % k)
                t.assign("component l%d = LessThan(%d);" % (k, max(k, 1)), "TComponent", "l%d" % k, [], "LessThan", [max(k, 1)])
                if k % 2:
                    t.constrain("l%d.in[0] <== v%d;" % (k, k), "l%d" % k, ["in", 0], "v%d" % k)
                    t.constrain("l%d.in[1] <== v%d;" % (k, k), "l%d" % k, ["in", 1], "v%d" % k)
                else:
                    t.constrain("l%d.in[1] <== v%d;" % (k, k), "l%d" % k, ["in", 1], "v%d" % k)
                t.lt_value("v%d" % k, [k])
        files.append(f)
    # 9. LessThan: how inputs are matched to range checks; non-constant and prime-dependent sizes
    f = CFile("lt_misc", pre=["function fsize(x) {", "  return x + 1;", "}"])
    t = f.add(Tmpl("LTMisc", "n"))
    for i in range(40):
        t.raw("signal input w%d;" % i)
    t.raw("signal output o;")
    # no range check at all
    t.assign("component la = LessThan(8);", "TComponent", "la", [], "LessThan", [8])
    t.constrain("la.in[0] <== w0;", "la", ["in", 0], "w0")
    t.constrain("la.in[1] <== w1;", "la", ["in", 1], "w1")
    t.lt_value("w0", [])
    # range check after the comparison, component arrays
    t.raw("component na[4];")
    t.assign("na[0] = Num2Bits(32);", "TComponent", "na", [0], "Num2Bits", [32])
    t.constrain("na[0].in <== w1;", "na", [0, "in"], "w1")
    t.lt_value("w1", [32])
    t.raw("component lb[2];")
    t.assign("lb[0] = LessThan(n);", "TComponent", "lb", [0], "LessThan", [None])
    t.assign("lb[1] = LessThan(n, 3);", "TComponent", "lb", [1], "LessThan", [None, 3])
    # non-constant sizes
    t.assign("na[1] = Num2Bits(n);", "TComponent", "na", [1], "Num2Bits", [None])
    t.assign("na[2] = Num2Bits(fsize(3));", "TComponent", "na", [2], "Num2Bits", [None])
    t.assign("na[3] = Num2Bits(1 == 1);", "TComponent", "na", [3], "Num2Bits", [True])
    t.constrain("na[1].in <== w2;", "na", [1, "in"], "w2")
    t.constrain("na[2].in <== w3;", "na", [2, "in"], "w3")
    t.constrain("na[3].in <== w4;", "na", [3, "in"], "w4")
    t.constrain("lb[0].in[0] <== w2;", "lb", [0, "in", 0], "w2")
    t.constrain("lb[0].in[1] <== w3;", "lb", [0, "in", 1], "w3")
    t.lt_value("w2", [None])
    t.lt_value("w3", [None])
    t.assign("component lc = LessThan(8);", "TComponent", "lc", [], "LessThan", [8])
    t.constrain("lc.in[0] <== w4;", "lc", ["in", 0], "w4")
    t.lt_value("w4", [None], note="Boolean-valued size")
    # the two-argument LessThan is not Circomlib's: its inputs are not tracked (model only)
    t.constrain("lb[1].in[0] <== w5;", "lb", [1, "in", 0], "w5")
    # several range checks on one value: one good one suffices
    t.assign("component nb = Num2Bits(300);", "TComponent", "nb", [], "Num2Bits", [300])
    t.assign("component nc = Num2Bits(20);", "TComponent", "nc", [], "Num2Bits", [20])
    t.assign("component nd = Num2Bits(n);", "TComponent", "nd", [], "Num2Bits", [None])
    t.constrain("nb.in <== w6;", "nb", ["in"], "w6")
    t.constrain("nc.in <== w6;", "nc", ["in"], "w6")
    t.constrain("nd.in <== w6;", "nd", ["in"], "w6")
    t.constrain("lc.in[1] <== w6;", "lc", ["in", 1], "w6")
    t.lt_value("w6", [300, 20, None])
    t.assign("component ne = Num2Bits(300);", "TComponent", "ne", [], "Num2Bits", [300])
    t.assign("component nf = Num2Bits(n);", "TComponent", "nf", [], "Num2Bits", [None])
    t.constrain("ne.in <== w7;", "ne", ["in"], "w7")
    t.constrain("nf.in <== w7;", "nf", ["in"], "w7")
    t.assign("component ld = LessThan(8);", "TComponent", "ld", [], "LessThan", [8])
    t.constrain("ld.in[0] <== w7;", "ld", ["in", 0], "w7")
    t.lt_value("w7", [300, None])
    # compound expressions are matched syntactically
    t.assign("component ng = Num2Bits(20);", "TComponent", "ng", [], "Num2Bits", [20])
    t.constrain("ng.in <== w8 + 1;", "ng", ["in"], "(w8 + 1)")
    t.constrain("ld.in[1] <== w8 + 1;", "ld", ["in", 1], "(w8 + 1)")
    t.lt_value("(w8 + 1)", [20])
    t.assign("component nh = Num2Bits(20);", "TComponent", "nh", [], "Num2Bits", [20])
    t.constrain("nh.in <== 1 + w9;", "nh", ["in"], "(1 + w9)")
    t.assign("component le = LessThan(8);", "TComponent", "le", [], "LessThan", [8])
    t.constrain("le.in[0] <== w9 + 1;", "le", ["in", 0], "(w9 + 1)")    # not matched: conservative (model only)
    # wrong signal names, other templates
    t.assign("component ni = Num2Bits(20);", "TComponent", "ni", [], "Num2Bits", [20])
    t.constrain("ni.foo <== w10;", "ni", ["foo"], "w10")
    t.constrain("le.in[1] <== w10;", "le", ["in", 1], "w10")
    t.lt_value("w10", [])
    t.assign("component nj = Bits2Num(20);", "TComponent", "nj", [], "Bits2Num", [20])
    t.constrain("nj.in <== w11;", "nj", ["in"], "w11")
    t.assign("component nk = Num2Bits_strict();", "TComponent", "nk", [], "Num2Bits_strict", [])
    t.constrain("nk.in <== w11;", "nk", ["in"], "w11")
    t.assign("component lf = LessThan(8);", "TComponent", "lf", [], "LessThan", [8])
    t.constrain("lf.in[0] <== w11;", "lf", ["in", 0], "w11")
    t.lt_value("w11", [])
    t.assign("component lg = LessThan(8);", "TComponent", "lg", [], "LessThan", [8])
    t.constrain("lg.inp[0] <== w12;", "lg", ["inp", 0], "w12")
    t.constrain("lg.in <== w13;", "lg", ["in"], "w13")
    # another comparator template: its inputs are not tracked (model against binary); a component variable that is
    # really assigned twice is generated by keys_files (fourth audit)
    t.assign("component lh = LessEqThan(8);", "TComponent", "lh", [], "LessEqThan", [8])
    t.constrain("lh.in[0] <== w14;", "lh", ["in", 0], "w14")
    # sizes that are constants only modulo the prime; boundary sizes per curve
    j = 15
    for var in VARIANTS:
        b = DOC_PRIME[var].bit_length()
        for k in (b - 3, b - 2, b - 1, b):
            for form in ("lit", "mod"):
                w = "w%d" % j
                cn, cl = "np%d" % j, "lp%d" % j
                j += 1
                if form == "lit":
                    t.raw("var bb%d = %d + 1;" % (j, k))
                    t.assign("component %s = Num2Bits(bb%d - 1);" % (cn, j), "TComponent", cn, [], "Num2Bits", [k])
                    sz = k
                else:
                    t.assign("component %s = Num2Bits(0 - (%d - %d));" % (cn, DOC_PRIME[var], k), "TComponent", cn, [], "Num2Bits",
                             [sub0(DOC_PRIME[var], k)])
                    sz = (lambda cv, var=var, k=k: (0 - (DOC_PRIME[var] - k)) % DOC_PRIME[cv])
                t.constrain("%s.in <== %s;" % (cn, w), cn, ["in"], w)
                t.assign("component %s = LessThan(8);" % cl, "TComponent", cl, [], "LessThan", [8])
                t.constrain("%s.in[0] <== %s;" % (cl, w), cl, ["in", 0], w)
                t.lt_value(w, [sz])
    assert j <= 40
    # components in two- and three-dimensional arrays (access paths longer than one index)
    for i in range(4):
        t.raw("signal input x%d;" % i)
    t.raw("component nm[2][2];")
    t.raw("component lm[2][2];")
    t.raw("component nq[2][2][2];")
    t.assign("nm[1][0] = Num2Bits(20);", "TComponent", "nm", [1, 0], "Num2Bits", [20])
    t.constrain("nm[1][0].in <== x0;", "nm", [1, 0, "in"], "x0")
    t.assign("lm[0][1] = LessThan(8);", "TComponent", "lm", [0, 1], "LessThan", [8])
    t.constrain("lm[0][1].in[0] <== x0;", "lm", [0, 1, "in", 0], "x0")
    t.lt_value("x0", [20])
    t.assign("nm[0][1] = Num2Bits(300);", "TComponent", "nm", [0, 1], "Num2Bits", [300])
    t.constrain("nm[0][1].in <== x1;", "nm", [0, 1, "in"], "x1")
    t.constrain("lm[0][1].in[1] <== x1;", "lm", [0, 1, "in", 1], "x1")
    t.lt_value("x1", [300])
    t.assign("nq[1][0][1] = Num2Bits(20);", "TComponent", "nq", [1, 0, 1], "Num2Bits", [20])
    t.constrain("nq[1][0][1].in <== x2;", "nq", [1, 0, 1, "in"], "x2")
    t.assign("lm[1][1] = LessThan(8);", "TComponent", "lm", [1, 1], "LessThan", [8])
    t.constrain("lm[1][1].in[0] <== x2;", "lm", [1, 1, "in", 0], "x2")
    t.lt_value("x2", [20])
    # the range check sits at another index of the same array: not the same component
    t.constrain("nm[1][1].in <== x3;", "nm", [1, 1, "in"], "x3")
    t.constrain("lm[1][1].in[1] <== x3;", "lm", [1, 1, "in", 1], "x3")
    t.lt_value("x3", [])
    t.raw("o <== w0;")
    files.append(f)
    # 9b. the forms of a LessThan / Num2Bits input (third audit): array elements, compound expressions that differ
    # in an operator or in an index only, prefix operators, `==>`, `<--`, array literals, anonymous components,
    # inputs inside loops, shadowed component names, hexadecimal sizes, a main component
    files += forms_files(ctx)
    files += keys_files(ctx)
    # 10.. seeded random mixtures (names, sizes, LessThan inputs with several range checks; the values are scalar
    # names, array elements and compound expressions over a small pool, so that structurally different values
    # with the same operands / the same array meet in one definition)
    nrand = 2 if ctx.tier == "quick" else 12
    top = 300 if ctx.tier == "quick" else 1200
    rng = ctx.rng
    for fi in range(nrand):
        f = CFile("random_%d" % fi)
        for ti in range(2):
            t = f.add(Tmpl("R%d_%d" % (fi, ti), "n"))
            nsig = 12
            for i in range(nsig):
                t.raw("signal input r%d_%d;" % (ti, i))
            t.raw("signal input ra%d[6];" % ti)
            t.raw("signal input rb%d[3][2];" % ti)

            def value():
                """(circom text, printed form) of a random value expression"""
                s = lambda: "r%d_%d" % (ti, rng.randrange(nsig))
                kind = rng.choice(["s", "s", "s", "a", "a", "m", "op", "op", "neg"])
                if kind == "s":
                    x = s()
                    return x, x
                if kind == "a":
                    x = "ra%d[%d]" % (ti, rng.randrange(6))
                    return x, x
                if kind == "m":
                    x = "rb%d[%d][%d]" % (ti, rng.randrange(3), rng.randrange(2))
                    return x, x
                if kind == "neg":
                    x = s()
                    return "-%s" % x, "-(%s)" % x
                a, b = rng.choice([(s(), s()), ("r%d_0" % ti, "r%d_1" % ti), ("ra%d[0]" % ti, "ra%d[1]" % ti)])
                op = rng.choice(["+", "-", "*"])
                return "%s %s %s" % (a, op, b), "(%s %s %s)" % (a, op, b)
            checks_of = {}
            for i in range(90):
                kind = rng.choice(["name", "name", "n2b", "b2n", "lt", "lt", "lt"])
                v = "q%d" % i
                if kind == "name":
                    n = rng.choice(uni)
                    t.assign("component %s = %s();" % (v, n), "TComponent", v, [], n, [], checks=[("bn254", n)])
                elif kind in ("n2b", "b2n"):
                    tn = "Num2Bits" if kind == "n2b" else "Bits2Num"
                    n = rng.choice([rng.randrange(0, top + 1), rng.choice([252, 253, 254, 255, 256]), None, rng.choice(sent)])
                    arg, sz = (n, n) if n is None or n <= top else big(n)
                    t.assign("component %s = %s(%s);" % (v, tn, "n" if n is None else n), "TComponent", v, [], tn, [arg],
                             checks=[("nonstrict", tn, sz)])
                else:
                    wt, w = value()
                    if rng.random() < 0.5:
                        b = DOC_PRIME[rng.choice(VARIANTS)].bit_length()
                        k = rng.choice([rng.randrange(0, top + 1), b - 3, b - 2, b - 1, b, None, rng.choice(sent)])
                        arg, sz = (k, k) if k is None or k <= top else big(k)
                        t.assign("component %s = Num2Bits(%s);" % (v, "n" if k is None else k), "TComponent", v, [], "Num2Bits", [arg],
                                 checks=[("nonstrict", "Num2Bits", sz)])
                        t.constrain("%s.in <== %s;" % (v, wt), v, ["in"], w)
                        checks_of.setdefault(w, {"lt": False, "sizes": []})["sizes"].append(sz)
                    else:
                        t.assign("component %s = LessThan(8);" % v, "TComponent", v, [], "LessThan", [8])
                        idx = rng.randrange(2)
                        t.constrain("%s.in[%d] <== %s;" % (v, idx, wt), v, ["in", idx], w)
                        checks_of.setdefault(w, {"lt": False, "sizes": []})["lt"] = True
            for w, inf in checks_of.items():
                if inf["lt"]:
                    t.lt_value(w, inf["sizes"])
        files.append(f)
    return files


# ---------------------------------------------------------------------------
# running the implementation (CLI) and the model (vm_compute)
# ---------------------------------------------------------------------------
def run_cli(cli, path, curve_arg, sarif):
    """Returns (rc, {rule: [(line, label)]}, stderr)."""
    try:
        os.remove(sarif)
    except OSError:
        pass
    # curve_arg None: the option is absent - the default of `--curve` is what is observed
    cmd = [cli] + (["--curve", curve_arg] if curve_arg is not None else []) + ["--sarif-file", sarif, path]
    rc, out, err = common.sh(cmd, timeout=300)
    res = {"CS0016": [], "CS0010": [], "CS0014": [], "errors": []}
    if os.path.exists(sarif):
        try:
            d = json.load(open(sarif))
            for r in d["runs"][0]["results"]:
                rid = r.get("ruleId")
                loc = (r.get("locations") or [{}])[0]
                line = loc.get("physicalLocation", {}).get("region", {}).get("startLine")
                label = loc.get("message", {}).get("text", "")
                if rid in RULES:
                    res[rid].append((line, label, r["message"]["text"]))
                elif r.get("level") == "error":
                    res["errors"].append((rid, line, r["message"]["text"]))
        except (ValueError, KeyError, IndexError) as e:
            res["errors"].append(("sarif", None, repr(e)))
    return rc, res, err


DEFTYPE = {"Function": "DFunction", "Template": "DTemplate", "CustomTemplate": "DCustomTemplate"}


def model_eval(ctx, names, dumps):
    """Evaluates the three pass models on every definition of every dumped file under every curve by
    vm_compute (one cases file per generated .circom file, in parallel).  The abstract programs are the
    ones derived from the tool's IR.  -> {file name: {(definition index, curve): (r16, r10, r14)}}"""
    rc, out = common.coq_make(["model/Curves.vo", "model/Field.vo"], timeout=900)
    if rc != 0:
        raise common.BuildError("coq build of Model.Curves failed", out[-3000:])

    def one(fname):
        v = ["From Coq Require Import ZArith List String.", "Require Import Model.Base Model.Field Model.Curves.",
             "Import ListNotations.", "Open Scope string_scope.", "Open Scope list_scope.", ""]
        order = []
        for cv in VARIANTS:
            d = dumps[(fname, cv)]
            for di, df in enumerate(d.get("defs", [])):
                if "stmts" not in df:
                    continue
                v.append("Definition p%d_%s : list stmt := [\n  %s\n]." % (di, cv, ";\n  ".join(coq_stmt(s) for s in df["stmts"])))
                v.append("Eval vm_compute in (List.map Z.of_nat (bn254_reports %s p%d_%s))." % (cv, di, cv))
                v.append("Eval vm_compute in (omap (List.map Z.of_nat) (nonstrict_reports %s %s p%d_%s))." % (cv, DEFTYPE[df["kind"]], di, cv))
                v.append("Eval vm_compute in (lessthan_reports %s p%d_%s)." % (cv, di, cv))
                order.append((di, cv))
        path = os.path.join(ctx.work, "cases_%s.v" % fname)
        open(path, "w").write("\n".join(v) + "\n")
        rc, out, err = common.sh(["coqc"] + common.coq_flags() + ["-o", path + "o", path], cwd=common.COQ, timeout=600)
        if rc != 0:
            raise common.BuildError("model evaluation %s failed" % path, (out + err)[-3000:])
        chunks = re.split(r"(?m)^\s*= ", out)[1:]
        chunks = [re.split(r"(?m)^\s*: ", c)[0] for c in chunks]
        if len(chunks) != 3 * len(order):
            raise common.BuildError("model evaluation %s: %d results for %d queries" % (path, len(chunks), 3 * len(order)), out[-2000:])
        res = {}
        for i, key in enumerate(order):
            a, b, c = chunks[3 * i:3 * i + 3]
            r16 = [int(x) for x in re.findall(r"-?\d+", a)]
            r10 = [int(x) for x in re.findall(r"-?\d+", b)] if b.strip().startswith("Ok") else b.strip().split()[0]
            r14 = [m.replace('""', '"') for m in re.findall(r'"((?:[^"]|"")*)"', c)] if c.strip().startswith("Ok") else c.strip().split()[0]
            res[key] = (r16, r10, r14)
        return res
    with concurrent.futures.ThreadPoolExecutor(max_workers=common.NPROC) as ex:
        outs = list(ex.map(one, names))
    return dict(zip(names, outs))


def model_spellings(ctx, spellings):
    """Model.Curves on every spelling of the sweep (vm_compute) ->
    ([parse_curve: variant | "reject" | "unmodelled"], [unicode_upper: bytes | None], [parse_curve_unicode: ...])."""
    items = ";\n  ".join(cbytes(s) for s in spellings)
    v = ["From Coq Require Import ZArith NArith List String Ascii.", "Require Import Model.Base Model.Curves Gen.CurveNames.",
         "Import ListNotations.", "Open Scope string_scope.", "Open Scope list_scope.", "Open Scope Z_scope.", "",
         "Definition show (r : parse_result) : string := match r with Accepted c => variant_name c | Rejected => \"reject\" | Unmodelled => \"unmodelled\" end.",
         "Definition spellings : list string := [\n  %s\n]." % items,
         "Eval vm_compute in (List.map (fun s => show (parse_curve s)) spellings).",
         "Eval vm_compute in (List.map (fun s => match unicode_upper s with Some u => List.map (fun a => Z.of_N (N_of_ascii a)) (list_ascii_of_string u) | None => [-1] end) spellings).",
         "Eval vm_compute in (List.map (fun s => show (parse_curve_unicode s)) spellings)."]
    path = os.path.join(ctx.work, "cases_spellings.v")
    open(path, "w").write("\n".join(v) + "\n")
    rc, out, err = common.sh(["coqc"] + common.coq_flags() + ["-o", path + "o", path], cwd=common.COQ, timeout=600)
    if rc != 0:
        raise common.BuildError("model evaluation %s failed" % path, (out + err)[-3000:])
    chunks = [re.split(r"(?m)^\s*: list", c)[0] for c in re.split(r"(?m)^\s*= ", out)[1:]]
    if len(chunks) != 3:
        raise common.BuildError("model evaluation of the spellings: %d results for 3 queries" % len(chunks), out[-2000:])
    r1 = re.findall(r'"([A-Za-z0-9_]*)"', chunks[0])
    r3 = re.findall(r'"([A-Za-z0-9_]*)"', chunks[2])
    r2 = []
    for inner in re.findall(r"\[([^\[\]]*)\]", chunks[1].strip()[1:-1] if chunks[1].strip().startswith("[") else chunks[1]):
        nums = [int(x) for x in re.findall(r"-?\d+", inner)]
        r2.append(None if nums == [-1] else bytes(nums))
    if not (len(r1) == len(r2) == len(r3) == len(spellings)):
        raise common.BuildError("model evaluation of the spellings: %d / %d / %d results for %d spellings" % (len(r1), len(r2), len(r3), len(spellings)), out[-2000:])
    return r1, r2, r3


def exec_to_uppercase(binary, spellings):
    """str::to_uppercase executed on every spelling -> [str]"""
    out = common.run_lines(binary, ["upper"], [hexs(s) for s in spellings])
    res = []
    for s, line in zip(spellings, out):
        h, r = line.split(" = ")
        if h != hexs(s):
            raise common.BuildError("curves upper: output out of step", line)
        res.append("" if r == "-" else bytes.fromhex(r).decode("utf-8"))
    return res


# ---------------------------------------------------------------------------
# oracle: the documented semantics
# ---------------------------------------------------------------------------
def doc_marks(doc, cv, name):
    if cv not in doc["columns"]:
        return False
    col = doc["columns"].index(cv)
    return any(circomlib_spelling(n) == name and col < len(marks) and marks[col] for n, marks in doc["rows"])


def size_value(sz, cv):
    return sz(cv) if callable(sz) else sz


def nonstrict_expected(n):
    """Under the default curve: flagged unless n is a constant smaller than 254."""
    return not (isinstance(n, int) and not isinstance(n, bool) and 0 <= n < 254)


def lessthan_expected(sizes, cv):
    """Reported unless some Num2Bits(k) with constant k and 2^k - 1 <= p/2 checks the value."""
    p = DOC_PRIME[cv]

    def good(sz):
        if isinstance(sz, tuple) and sz[0] == "every":
            return bool(sz[1]) and all(good(s) for s in sz[1])
        k = size_value(sz, cv)
        return isinstance(k, int) and not isinstance(k, bool) and k >= 0 and (k < 4096 and (1 << k) - 1 <= p // 2)
    return not any(good(sz) for sz in sizes)


def show_size(sz, cv):
    if isinstance(sz, tuple) and sz[0] == "every":
        return {"one component assigned on several paths": [show_size(s, cv) for s in sz[1]]}
    k = size_value(sz, cv)
    return "non-constant" if k is None else k


PROBE = """pragma circom 2.1.0;
template Probe() {
  component a = Sign();
  component b = BabyPbk();
  component c = Num2Bits(254);
}
"""


def cli_signature(cli, path, spelling, sarif):
    try:
        os.remove(sarif)
    except OSError:
        pass
    # spelling None: no `--curve` option at all (the default curve)
    rc, out, err = common.sh([cli] + (["--curve", spelling] if spelling is not None else []) + ["--sarif-file", sarif, path], timeout=120)
    if rc == 2 and "invalid value" in err:
        return "reject"
    if rc not in (0, 1):
        return "rc=%d %s" % (rc, err.strip()[:200])
    sig = []
    try:
        d = json.load(open(sarif))
        for r in d["runs"][0]["results"]:
            if r.get("ruleId") in RULES:
                sig.append("%s@%s" % (r["ruleId"], r["locations"][0]["physicalLocation"]["region"]["startLine"]))
    except (OSError, ValueError, KeyError, IndexError):
        return "rc=%d without sarif %s" % (rc, (out + err).strip()[:200])
    return "sig:" + ",".join(sorted(sig))


def sweep_curve_names(ctx, cli, binary):
    """--curve <spelling> over the whole universe, through the real CLI."""
    d = os.path.join(ctx.work, "names")
    os.makedirs(d, exist_ok=True)
    probe = os.path.join(d, "probe.circom")
    open(probe, "w").write(PROBE)
    canon_sig = {}
    for v in VARIANTS:
        canon_sig[v] = cli_signature(cli, probe, CANON[v], os.path.join(d, "canon.sarif"))
    problems = []
    if len(set(canon_sig.values())) != 3 or any(not s.startswith("sig:") for s in canon_sig.values()):
        problems.append("the three canonical curve names are not accepted with three distinguishable behaviours: %r" % canon_sig)
    by_sig = {}
    for v, sg in canon_sig.items():
        by_sig.setdefault(sg, []).append(v)
    # the probe WITHOUT `--curve`: the documented default is BN254
    default_sig = cli_signature(cli, probe, None, os.path.join(d, "default.sarif"))
    default_seen = by_sig.get(default_sig, [default_sig])
    default_failing = []
    if "Bn254" not in default_seen:
        default_failing.append({"input": {"kind": "curve-name", "spelling": None, "note": "no --curve option: the default curve"},
                                "impl": default_seen[0], "spec": "Bn254"})
    uni = spelling_universe()

    def one(args):
        i, s = args
        return cli_signature(cli, probe, s, os.path.join(d, "n%d.sarif" % (i % (4 * common.NPROC))))
    # sarif scratch files are shared modulo 4*NPROC: run in strides so that no two live runs share one
    obs = [None] * len(uni)
    stride = 4 * common.NPROC
    with concurrent.futures.ThreadPoolExecutor(max_workers=common.NPROC) as ex:
        for base in range(0, len(uni), stride):
            chunk = list(enumerate(uni[base:base + stride], start=base))
            for (i, _), r in zip(chunk, ex.map(one, chunk)):
                obs[i] = r
    harness = exec_from_str(binary, uni)
    failing, disagree = [], []
    accepted = non_ascii = 0
    for s, o, h in zip(uni, obs, harness):
        # variant | "reject" | raw text; if two curves behave alike on the probe (only
        # under a mutated table) the spelling is attributed to the one from_str names
        cands = by_sig.get(o, [o])
        seen = h if h in cands else cands[0]
        if seen != h:
            disagree.append({"spelling": s, "cli": seen, "from_str": h})
        # the documented semantics, for EVERY spelling: accepted iff it is a documented name up to the case of
        # ASCII letters.  A spelling with a character outside ASCII is never one (third audit: such spellings
        # used to be filed under `notes`; the ones Unicode upper-casing maps to a name were accepted)
        want = next((v for v in VARIANTS if ascii_upper(s) == CANON[v]), "reject")
        non_ascii += 0 if s.isascii() else 1
        for got, where in ((seen, "--curve"), (h, "Curve::from_str")):
            if got != want:
                failing.append({"input": {"kind": "curve-name", "spelling": s, "utf8_hex": hexs(s), "through": where}, "impl": got, "spec": want})
                break
        if want != "reject":
            accepted += 1
    return {"count": len(uni) + 1, "failing": default_failing + failing, "disagree": disagree, "problems": problems,
            "accepted": accepted, "non_ascii": non_ascii, "canon_sig": canon_sig, "default_seen": default_seen[0],
            "observed": dict(zip(uni, harness))}


def ascii_upper(s):
    """Upper-casing of the 26 ASCII letters only (the documented case-insensitivity)."""
    return "".join(chr(ord(c) - 32) if "a" <= c <= "z" else c for c in s)


# ---------------------------------------------------------------------------
# the check
# ---------------------------------------------------------------------------
def check_file(f, text, cv, impl, model, dump, doc, shown=None):
    """Compares one CLI run with the model and with the documented semantics.
    `cv` is the curve the model and the oracle are evaluated under; `shown` is what
    the records call the run (`default` = the run had no `--curve` option and is
    compared under the documented default, BN254).  `dump` is the tool's IR of the file under
    `cv` (the abstract programs of `model` were derived from it).
    Returns (disagreements, failing inputs, evaluations, nontrivial keys)."""
    dis, fail, nontriv = [], [], set()
    shown = shown or cv
    evals = 0
    rc, res, err = impl
    if res["errors"]:
        dis.append({"file": f.name, "curve": shown, "what": "the tool reported errors on a generated file", "errors": res["errors"][:3]})
    from collections import Counter
    i16 = Counter(l for l, _, _ in res["CS0016"])
    i10 = Counter(l for l, _, _ in res["CS0010"])
    i14 = Counter()
    for l, label, _ in res["CS0014"]:
        m = re.match(r"`(.*)` needs to be constrained", label)
        i14[m.group(1) if m else "?" + label] += 1
    m16, m10, m14 = Counter(), Counter(), Counter()
    if "defs" not in dump:
        dis.append({"file": f.name, "curve": shown, "what": "no IR dump of the file: %s" % dump.get("error")})
    for di, df in enumerate(dump.get("defs", [])):
        if "stmts" not in df:
            dis.append({"file": f.name, "curve": shown, "what": "no CFG for definition %s in the IR dump: %s" % (df.get("name"), df.get("error"))})
            continue
        stmts = df["stmts"]
        r16, r10, r14 = model[(di, cv)]

        def line_of(idx):
            s = stmts[idx]
            return (s.get("call") or {}).get("line") or s["line"]
        for idx in r16:
            m16[line_of(idx)] += 1
        if isinstance(r10, list):
            for idx, n in enumerate(r10):
                if n:
                    m10[line_of(idx)] += n
        else:
            dis.append({"file": f.name, "curve": shown, "what": "model of the non-strict pass: " + str(r10)})
        if isinstance(r14, list):
            first = {}
            for s in stmts:
                if s["k"] == "constrain":
                    first.setdefault(s["value"], s["shown"])
            for v in r14:
                m14[first.get(v, "?" + v)] += 1
        else:
            dis.append({"file": f.name, "curve": shown, "what": "model of the less-than pass: " + str(r14)})
    for rule, a, b in (("CS0016", i16, m16), ("CS0010", i10, m10), ("CS0014", i14, m14)):
        if a != b:
            keys = sorted(set(a) | set(b), key=str)
            diff = [(k, a.get(k, 0), b.get(k, 0)) for k in keys if a.get(k, 0) != b.get(k, 0)]
            lines = text.splitlines()
            dis.append({"file": f.name, "curve": shown, "rule": rule,
                        "differences(subject, impl, model)": [(k, x, y, lines[k - 1].strip() if isinstance(k, int) and 0 < k <= len(lines) else "") for k, x, y in diff[:6]],
                        "count": len(diff)})
    # the documented semantics
    for t in f.tmpls:
        for st in t.stmts:
            for chk in st["checks"]:
                evals += 1
                if chk[0] == "bn254":
                    want = doc_marks(doc, cv, chk[1])
                    got = i16.get(st["line"], 0)
                    named = all(("`%s`" % chk[1]) in msg for l, _, msg in res["CS0016"] if l == st["line"])
                    if (got == 1) != want or got > 1 or not named:
                        fail.append({"input": {"kind": "circom", "file": f.name, "curve": shown, "line": st["line"], "statement": st["text"], "rule": "CS0016", "subject": chk[1]},
                                     "impl": "%d report(s)" % got, "spec": "flagged" if want else "not flagged (documentation table, Circomlib spelling)"})
                    if want or chk[1].lower() in [circomlib_spelling(n).lower() for n, _ in doc["rows"]]:
                        nontriv.add(("CS0016", shown, chk[1]))
                elif chk[0] == "none":
                    got = i16.get(st["line"], 0) + i10.get(st["line"], 0)
                    if got:
                        fail.append({"input": {"kind": "circom", "file": f.name, "curve": shown, "line": st["line"], "statement": st["text"],
                                               "rule": "CS0016" if i16.get(st["line"], 0) else "CS0010", "subject": chk[1]},
                                     "impl": "%d report(s)" % got, "spec": "not flagged: a call assigned to a local variable is no instantiation"})
                    nontriv.add(("local-call", shown, chk[1]))
                elif chk[0] == "nonstrict":
                    if cv != "Bn254":
                        # the property speaks of the default curve only; under the other curves the statement is compared
                        # model against binary (C11_nonstrict_only_default_curve), not judged: not an evaluation
                        evals -= 1
                        continue
                    n = size_value(chk[2], cv)
                    want = nonstrict_expected(n)
                    got = i10.get(st["line"], 0)
                    # the report names the template that is instantiated (the builder of the block, second audit)
                    named = all(("`%s`" % chk[1]) in msg for l, _, msg in res["CS0010"] if l == st["line"])
                    if (got == 1) != want or got > 1 or not named:
                        fail.append({"input": {"kind": "circom", "file": f.name, "curve": shown, "line": st["line"], "statement": st["text"], "rule": "CS0010", "subject": "%s(%s)" % (chk[1], n)},
                                     "impl": "%d report(s)%s" % (got, "" if named else " naming another template"),
                                     "spec": ("flagged" if want else "not flagged") + ": size %s, documented rule n < 254" % ("non-constant" if n is None else n)})
                    if n is None or 250 <= n <= 258 or callable(chk[2]):
                        nontriv.add(("CS0010", shown, chk[1], st["text"]))
        # values that print alike are judged together: as many reports as values that need one
        by_shown = {}
        for v, info in t.values.items():
            by_shown.setdefault(info["shown"], []).append((v, info))
        for disp, group in by_shown.items():
            evals += len(group)
            wants = [lessthan_expected(info["sizes"], cv) for _, info in group]
            got = i14.get(disp, 0)
            if got != sum(wants):
                # the value to blame: one that wants the opposite of what was seen (all of them when the count is off)
                for (v, info), want in zip(group, wants):
                    if len(group) == 1 or want == (got < sum(wants)):
                        fail.append({"input": {"kind": "circom", "file": f.name, "curve": shown, "value": disp, "key": v, "rule": "CS0014",
                                               "sizes": [show_size(s, cv) for s in info["sizes"]], "two_paths": info["two_paths"]},
                                     "impl": "%d report(s) for the %d value(s) printed `%s`" % (got, len(group), disp),
                                     "spec": ("reported" if want else "range-checked") + ": 2^k - 1 <= p/2 for the documented prime of %s%s"
                                             % (cv, " (%d report(s) expected)" % sum(wants) if len(group) > 1 else "")})
                        break
            b = DOC_PRIME[cv].bit_length()
            for v, info in group:
                flat = [s for sz in info["sizes"] for s in (sz[1] if isinstance(sz, tuple) else [sz])]
                ks = [size_value(s, cv) for s in flat]
                if any(k is None or callable(s) or abs(k - b) <= 3 for k, s in zip(ks, flat)) or len(ks) != 1:
                    nontriv.add(("CS0014", shown, v))
    return dis, fail, evals, nontriv


def _acc_matches(expected, derived):
    """Generator's access path (int = literal index, negative int or one-letter name = an index that is a variable,
    other text = signal name) against the derived one ([["i", identity] | ["f", name]])."""
    if len(expected) != len(derived):
        return False
    for x, (k, v) in zip(expected, derived):
        if isinstance(x, int) and x >= 0:
            ok = k == "i" and v == "(n %d)" % x
        elif isinstance(x, int) or len(x) == 1:
            ok = k == "i" and not v.startswith("(n ")
        else:
            ok = k == "f" and v == x
        if not ok:
            return False
    return True


def compare_expectation(files, dumps):
    """The generator states, per generated statement, what it expects the passes to see (type knowledge, variable,
    access path, template name, argument value knowledge; variable, access path and printed value of a constraint).
    The model is fed with the abstraction DERIVED from the tool's IR (`curves ir`); the expectation is compared with
    it under EVERY curve.  Fourth audit: a mismatch is a broken correspondence (it used to be written into the
    evidence and read by nothing): either the harness abstraction or the generator is wrong about what the passes
    see, and the oracle entries are attached through the generator's reading.  -> (summary, [mismatch records])"""
    compared = 0
    mism = []
    for f in files:
        for cv in VARIANTS:
            dmp = dumps.get((f.name, cv), {})
            by_line = {}
            for df in dmp.get("defs", []):
                for s in df.get("stmts", []):
                    if s["k"] == "constrain" or (s["k"] == "assign" and s["call"] is not None):
                        by_line.setdefault(s["line"], []).append(s)
            for t in f.tmpls:
                for st in t.stmts:
                    e = st["expect"]
                    cands = [s for s in by_line.get(st.get("line"), []) if s["k"] == e["k"]]
                    compared += 1
                    ok = False
                    for s in cands:
                        var_ok = e["var"] is None or s["var"].split("|")[0] == e["var"]
                        if e["k"] == "assign":
                            args = s["call"]["args"]
                            ok = (var_ok and TK[s["tk"]] == e["tk"] and s["call"]["name"] == e["name"] and _acc_matches(e["acc"], s["acc"])
                                  and len(args) == len(e["args"]) and all(
                                x == "curve-dependent" or (x is None and a["v"] == "-") or (isinstance(x, bool) and a["v"] == "b" and a["b"] == x)
                                or (isinstance(x, int) and not isinstance(x, bool) and a["v"] == "f" and int(a["n"]) == x) for x, a in zip(e["args"], args)))
                        else:
                            ok = var_ok and s["shown"] == e["shown"] and (not s["update"] or _acc_matches(e["acc"], s["acc"]))
                        if ok:
                            break
                    if not ok:
                        mism.append({"file": f.name, "curve": cv, "line": st.get("line"), "statement": st["text"], "expected": e,
                                     "derived": [{k: v for k, v in s.items() if k != "value"} for s in cands][:2]})
    return {"statements_compared": compared, "mismatches": len(mism), "first": mism[:5]}, mism


# the forms the property text, the review and the pass sources speak of: each must occur in the sweep
FEATURES = ("array_element_value", "compound_value", "prefix_value", "non_literal_index", "assign_signal", "inline_array_value",
            "anonymous_component", "shadowed_component", "function_definition", "custom_template", "component_array_2d",
            "unknown_size", "boolean_size", "hex_size", "reversed_constraint_arrow", "main_component", "local_call", "same_operands_other_operator",
            # fourth audit: a key of every Expression constructor that can stand right of `<==`, every field eq inspects
            "call_value", "same_arguments_other_function", "switch_value", "switches_differing_in_one_part", "prefix_neg_value",
            "prefix_compl_value", "prefix_not_value", "number_value", "values_differing_in_an_ssa_version_only",
            "component_variable_assigned_twice")


def features_seen(dumps, texts):
    n = dict.fromkeys(FEATURES, 0)
    for (fname, cv), dmp in dumps.items():
        if cv != DOC_DEFAULT:
            continue
        for df in dmp.get("defs", []):
            n["function_definition"] += df.get("kind") == "Function"
            n["custom_template"] += df.get("kind") == "CustomTemplate"
            values = set()
            for s in df.get("stmts", []):
                if s["k"] == "constrain":
                    v = s["value"]
                    values.add(v)
                    n["array_element_value"] += v.startswith("(x ") and "[" in v
                    n["compound_value"] += v.startswith("(i ")
                    n["prefix_value"] += v.startswith("(p ")
                    n["inline_array_value"] += v.startswith("(a ")
                    n["call_value"] += v.startswith("(c ")
                    n["switch_value"] += v.startswith("(s ")
                    n["prefix_neg_value"] += v.startswith("(p neg ")
                    n["prefix_compl_value"] += v.startswith("(p compl ")
                    n["prefix_not_value"] += v.startswith("(p not ")
                    n["number_value"] += v.startswith("(n ")
                    n["non_literal_index"] += any(k == "i" and not x.startswith("(n ") for k, x in s["acc"])
                elif s["k"] == "assign":
                    n["anonymous_component"] += bool(s["call"]) and re.match(r"^%s_\d+_\d+\|" % re.escape(s["call"]["name"]), s["var"]) is not None
                    n["shadowed_component"] += bool(s["call"]) and s["tk"] == "component" and s["var"].split("|")[1] != ""
                    n["component_array_2d"] += bool(s["call"]) and len(s["acc"]) >= 2
                    n["local_call"] += bool(s["call"]) and s["tk"] == "local"
                    for a in (s["call"] or {}).get("args", []):
                        n["unknown_size"] += a["v"] == "-"
                        n["boolean_size"] += a["v"] == "b"
                elif s.get("what") == "assign-signal":
                    n["assign_signal"] += 1
            calls = [v.split(" ", 2) for v in values if v.startswith("(c ")]
            n["same_arguments_other_function"] += sum(1 for a in calls for b in calls if a[1] < b[1] and a[2] == b[2])
            sws = [v for v in values if v.startswith("(s ")]
            n["switches_differing_in_one_part"] += sum(1 for a in sws for b in sws if a < b)
            unversioned = {}
            for v in values:
                unversioned.setdefault(re.sub(r"\|\d+\)", "|)", v), set()).add(v)
            n["values_differing_in_an_ssa_version_only"] += sum(1 for vs in unversioned.values() if len(vs) > 1)
            assigned = [(s["var"], json.dumps(s["acc"])) for s in df.get("stmts", []) if s["k"] == "assign" and s["call"]]
            n["component_variable_assigned_twice"] += len(assigned) - len(set(assigned))
            # two constrained values that differ in an operator only (what `Expression::eq` must tell apart)
            infix = [v.split(" ", 2) for v in values if v.startswith("(i ")]
            n["same_operands_other_operator"] += sum(1 for a in infix for b in infix if a[1] < b[1] and a[2] == b[2])
    for text in texts.values():
        n["hex_size"] += len(re.findall(r"\(0x[0-9A-Fa-f]+\)", text))
        n["reversed_constraint_arrow"] += text.count("==>")
        n["main_component"] += len(re.findall(r"(?m)^component main\b", text))
    return {k: int(v) for k, v in n.items()}


KF_MAIN = "C11-main-component-not-analysed"
KF_TWO_PATHS = "C11-component-assigned-on-two-paths"
MAIN_PROBES = [
    # (name, curve argument, source, rule, line of the main component, subject)
    ("main_num2bits", None,
     "pragma circom 2.1.0;\ntemplate Num2Bits(n) { signal input in; signal output out[n]; out[0] <== in; }\ncomponent main = Num2Bits(254);\n",
     "CS0010", 3, "Num2Bits(254)"),
    ("main_bits2num", "BN254",
     "pragma circom 2.1.0;\ntemplate Bits2Num(n) { signal input in[n]; signal output out; out <== in[0]; }\ncomponent main = Bits2Num(300);\n",
     "CS0010", 3, "Bits2Num(300)"),
    ("main_sign", "BLS12_381",
     "pragma circom 2.1.0;\ntemplate Sign() { signal input in; signal output sign; sign <== in; }\ncomponent main = Sign();\n",
     "CS0016", 3, "Sign"),
]


def main_component_probe(ctx, cli):
    """`component main = T(...)` is an instantiation like any other (third audit: never generated before).
    -> [failing-input records] for the probes whose instantiation the property flags and the binary does not."""
    d = os.path.join(ctx.work, "main")
    os.makedirs(d, exist_ok=True)
    out = []
    for name, curve, source, rule, line, subject in MAIN_PROBES:
        path = os.path.join(d, name + ".circom")
        open(path, "w").write(source)
        rc, res, err = run_cli(cli, path, curve, path + ".sarif")
        got = sum(1 for l, _, _ in res[rule] if l == line)
        if got != 1:
            out.append({"input": {"kind": "circom", "file": name, "curve": curve or DEFAULT_RUN, "line": line, "rule": rule, "subject": subject,
                                  "statement": source.splitlines()[line - 1], "source": source, "main_component": True},
                        "impl": "%d report(s)" % got, "spec": "flagged: the main component instantiates %s" % subject})
    return out


def corpus_cases():
    d = os.path.join(common.VERIF, "corpus", P)
    out = []
    if os.path.isdir(d):
        for fn in sorted(os.listdir(d)):
            if fn.endswith(".json"):
                c = json.load(open(os.path.join(d, fn)))
                c["_file"] = fn
                out.append(c)
    return out


def run_corpus_case(ctx, cli, binary, c):
    """A corpus case carries its own expectation (documented semantics at the
    time it was recorded).  Returns None or a failing-input record."""
    if c["kind"] == "curve-name":
        d = os.path.join(ctx.work, "names")
        os.makedirs(d, exist_ok=True)
        probe = os.path.join(d, "probe.circom")
        open(probe, "w").write(PROBE)
        canon = {}
        for v in VARIANTS:
            canon.setdefault(cli_signature(cli, probe, CANON[v], os.path.join(d, "corpus.sarif")), []).append(v)
        o = cli_signature(cli, probe, c["spelling"], os.path.join(d, "corpus.sarif"))
        cands = canon.get(o, [o])
        seen = c["expect"] if c["expect"] in cands else cands[0]
        # spelling None = no `--curve` option (the default): there is no string to hand to from_str
        h = exec_from_str(binary, [c["spelling"]])[0] if c["spelling"] is not None else seen
        if seen != c["expect"] or h != c["expect"]:
            return {"input": {"kind": "curve-name", "spelling": c["spelling"]}, "impl": "cli: %s, from_str: %s" % (seen, h), "spec": c["expect"]}
        return None
    d = os.path.join(ctx.work, "corpus")
    os.makedirs(d, exist_ok=True)
    path = os.path.join(d, c["_file"].replace(".json", ".circom"))
    open(path, "w").write(c["source"])
    rc, res, err = run_cli(cli, path, c["curve"], path + ".sarif")
    got = {"CS0016": sorted(l for l, _, _ in res["CS0016"]), "CS0010": sorted(l for l, _, _ in res["CS0010"]),
           "CS0014": sorted(re.sub(r"^`(.*)` needs.*$", r"\1", lab) for _, lab, _ in res["CS0014"])}
    want = {k: sorted(c["expect"].get(k, [])) for k in got}
    if got != want:
        return {"input": {"kind": "circom", "curve": c["curve"], "source": c["source"], "corpus": c["_file"]}, "impl": got, "spec": want}
    return None


def run(ctx, proofs):
    info = getattr(ctx, "c11", None) or gen(ctx)
    doc = info["doc"]
    cli = common.build_cli()
    binary = common.build_harness("curves")
    disagreements, failing = [], []
    for pr in info["sources"]["problems"] + doc["problems"]:
        disagreements.append({"what": "source no longer has the shape the table extractor reads: " + pr})
    # executed constants vs the documented fields
    for v in VARIANTS:
        got = info["primes"].get(v, {})
        if got.get("prime") != DOC_PRIME[v] or got.get("size") != DOC_PRIME[v].bit_length() or got.get("stored") != v:
            disagreements.append({"what": "UsefulConstants::new(%s) = %r, documented prime %d (%d bits)" % (v, got, DOC_PRIME[v], DOC_PRIME[v].bit_length())})
    # 0. regression corpus first
    ncorpus = 0
    for c in corpus_cases():
        ncorpus += 1
        r = run_corpus_case(ctx, cli, binary, c)
        if r:
            failing.append(r)
    # 1. generated files through the real binary, under every curve
    files = build_files(ctx, doc["rows"])
    d = os.path.join(ctx.work, "circom")
    os.makedirs(d, exist_ok=True)
    texts = {}
    for f in files:
        texts[f.name] = f.render()
        open(os.path.join(d, f.name + ".circom"), "w").write(texts[f.name])
    # every file under every curve, and once more WITHOUT `--curve` ("default": compared with the model and the
    # documented semantics under the documented default, BN254 - the property's "under the default curve")
    jobs = [(f, cv) for f in files for cv in VARIANTS + [DEFAULT_RUN]]

    def one(job):
        f, cv = job
        # canonical spelling; mixed-case spellings are exercised by the curve-name sweep
        return run_cli(cli, os.path.join(d, f.name + ".circom"), CURVE_ARG.get(cv), os.path.join(d, "%s_%s.sarif" % (f.name, cv)))
    with concurrent.futures.ThreadPoolExecutor(max_workers=common.NPROC) as ex:
        impl = dict(zip([(f.name, cv) for f, cv in jobs], ex.map(one, jobs)))
    # the abstract programs of the model: derived from the tool's IR of each file under each curve
    dumps = ir_programs(binary, {f.name: os.path.join(d, f.name + ".circom") for f in files})
    model = model_eval(ctx, [f.name for f in files], dumps)
    evaluations, nontrivial = 0, set()
    instantiations = sum(len(t.stmts) for f in files for t in f.tmpls)
    default_evaluations = 0
    for f, cv in jobs:
        mcv = DOC_DEFAULT if cv == DEFAULT_RUN else cv
        dis, fail, ev, nt = check_file(f, texts[f.name], mcv, impl[(f.name, cv)], model[f.name], dumps[(f.name, mcv)], doc, shown=cv)
        if cv == DEFAULT_RUN:
            default_evaluations += ev
        for x in fail:
            x["input"]["source_path"] = os.path.join(d, f.name + ".circom")
        disagreements += dis
        failing += fail
        evaluations += ev
        nontrivial |= nt
    # 1b. Expression::eq / Hash against structural identity, on every pair of key expressions of every definition
    eq_pairs = eq_dropped = eq_distinct = 0
    for (fname, cv), dmp in dumps.items():
        eq_pairs += dmp.get("eq_pairs", 0)
        eq_dropped += dmp.get("eq_keys_dropped_by_cap", 0)
        eq_distinct += dmp.get("eq_distinct_keys", 0)
        for b in dmp.get("eq_bad", [])[:2]:
            failing.append({"input": {"kind": "expr-identity", "file": fname, "curve": cv, "subject": "%s / %s" % (b["a"], b["b"]),
                                      "definition": b["definition"], "lines": [b["line_a"], b["line_b"]], "source": texts[fname]},
                            "impl": "Expression::eq = %s (swapped: %s), hashes equal = %s" % (b["eq"], b["eq_swapped"], b["hash_equal"]),
                            "spec": "structurally %s expressions (syntactic equality: the keys of the LessThan pass)" % ("identical" if b["structurally_identical"] else "different")})
    # 1c. the generator's expectation of the abstraction vs the one derived from the IR (information: both are machinery)
    abstraction, abstraction_mismatches = compare_expectation(files, dumps)
    for m in abstraction_mismatches[:10]:
        disagreements.append({"what": "the abstraction derived from the tool's IR is not the one the generator expects for this statement "
                                      "(%d such statements)" % len(abstraction_mismatches), **m})
    # 1d. every form the property and the pass sources speak of was generated (a feature never produced = a gap of the sweep)
    feature_count = features_seen(dumps, texts)
    for feat, n in feature_count.items():
        if n == 0:
            disagreements.append({"what": "the sweep generated no input with feature `%s` (see FEATURES)" % feat})
    # 2. curve names through --curve
    names = sweep_curve_names(ctx, cli, binary)
    evaluations += names["count"]
    failing += names["failing"]
    for x in names["disagree"]:
        disagreements.append({"what": "--curve and Curve::from_str disagree", **x})
    for pr in names["problems"]:
        disagreements.append({"what": pr})
    nontrivial |= {("curve-name", i) for i in range(names["accepted"])}
    # 2b. the model on every spelling: parse_curve vs the executed Curve::from_str, and (fourth audit) the model of the
    # OTHER normaliser vs str::to_uppercase executed on the same spellings - so that `unicode_upper`, `utf8_decode` and
    # the upper table are compared with the real thing on every run, not only when the source names `to_uppercase`
    spellings = list(names["observed"])
    m_parse, m_upper, m_parse_u = model_spellings(ctx, spellings)
    arms = dict(info["sources"].get("from_str_arms", []))
    upper_compared = upper_ascii_results = hyp_true = hyp_false = 0
    for s, mres, mup, mpu, real in zip(spellings, m_parse, m_upper, m_parse_u, exec_to_uppercase(binary, spellings)):
        if mres != names["observed"][s]:
            disagreements.append({"what": "Model.Curves.parse_curve and Curve::from_str disagree", "spelling": s, "utf8_hex": hexs(s),
                                  "model": mres, "from_str": names["observed"][s]})
        upper_compared += 1
        want_up = real.encode("utf-8") if real.isascii() else None     # the model answers None when the result is not ASCII
        upper_ascii_results += want_up is not None
        if mup != want_up:
            disagreements.append({"what": "Model.Curves.unicode_upper and str::to_uppercase disagree", "spelling": s, "utf8_hex": hexs(s),
                                  "model": None if mup is None else mup.hex(), "to_uppercase": real, "to_uppercase_hex": hexs(real)})
        # C11_normalisers_agree_on_ascii: its hypothesis (ascii_only s) is evaluated on every spelling
        if s.isascii():
            hyp_true += 1
            if mpu != mres:
                disagreements.append({"what": "instance of C11_normalisers_agree_on_ascii fails: an ASCII spelling on which the two normalisers differ",
                                      "spelling": s, "to_ascii_uppercase": mres, "to_uppercase": mpu})
        else:
            hyp_false += 1
        want_pu = arms.get(real, "reject")
        if mpu != want_pu:
            disagreements.append({"what": "Model.Curves.parse_curve_unicode and a look-up of str::to_uppercase among the arms disagree",
                                  "spelling": s, "utf8_hex": hexs(s), "model": mpu, "expected": want_pu})
    if not any(a != b for a, b in zip(m_parse, m_parse_u)):
        disagreements.append({"what": "no spelling of the sweep is accepted under `to_uppercase` only: the model of that normaliser is not exercised"})
    # 3. the instantiation in a main component (known finding C11-main-component-not-analysed when listed)
    main_fail = main_component_probe(ctx, cli)
    evaluations += len(MAIN_PROBES)
    listed = [k for k in common.known_findings(P) if k.get("id") == KF_MAIN and k.get("status") == "known"]
    if main_fail and listed:
        ctx.known_finding(KF_MAIN, "%s (%d of %d probes still unflagged, e.g. `%s` under %s: %s, documented: %s)"
                          % (listed[0].get("what", ""), len(main_fail), len(MAIN_PROBES), main_fail[0]["input"]["statement"],
                             main_fail[0]["input"]["curve"], main_fail[0]["impl"], main_fail[0]["spec"]))
    else:
        failing += main_fail
    # 4. a component variable assigned on several paths (known finding C11-component-assigned-on-two-paths when listed):
    # the class is narrow - an oracle entry of that form for which the binary reports nothing although a report is due
    listed2 = [k for k in common.known_findings(P) if k.get("id") == KF_TWO_PATHS and k.get("status") == "known"]
    def different_assignments(fc):
        """the class of the record: ONE component key assigned on more than one path with different sizes / templates"""
        for sz in fc["input"].get("sizes", []):
            if isinstance(sz, dict):
                for members in sz.values():
                    if len(set(json.dumps(m) for m in members)) > 1:
                        return True
        return False
    two = [fc for fc in failing if fc["input"].get("two_paths") and different_assignments(fc)
           and fc["impl"].startswith("0 report") and fc["spec"].startswith("reported")]
    if two and listed2:
        failing = [fc for fc in failing if fc not in two]
        ctx.known_finding(KF_TWO_PATHS, "%s (%d instances in this run, e.g. value `%s` in %s.circom under %s, sizes %s: %s, documented: %s)"
                          % (listed2[0].get("what", ""), len(two), two[0]["input"]["value"], two[0]["input"]["file"], two[0]["input"]["curve"],
                             json.dumps(two[0]["input"]["sizes"]), two[0]["impl"], two[0]["spec"]))
    # verdict: at most four replays; one per kind of failing input first (corpus witness, generated statement,
    # expression identity, curve name), so that the cap does not hide a whole class
    def kind_of(fc):
        fi = fc["input"]
        return (fi.get("kind"), fi.get("rule"), "corpus" in fi, bool(fi.get("two_paths")), bool(fi.get("main_component")))
    firsts, rest, kinds = [], [], set()
    for fc in failing:
        (rest if kind_of(fc) in kinds else firsts).append(fc)
        kinds.add(kind_of(fc))
    seen = set()
    for fcase in firsts + rest:
        fi = fcase["input"]
        subject = fi.get("subject") or fi.get("value") or fi.get("spelling") or fi.get("corpus") or fi.get("statement")
        key = (fi.get("kind"), fi.get("rule"), str(fi.get("curve")), str(subject))
        if key in seen or len(seen) >= 4:
            continue
        seen.add(key)
        inp = dict(fcase["input"])
        if inp.get("kind") == "circom" and "source" not in inp and inp.get("file") in texts:
            inp["source"] = texts[inp["file"]]
        ctx.violation("curve-dependent check deviates from the documented semantics: %s -> %s, documented: %s"
                      % (json.dumps({k: v for k, v in fcase["input"].items() if k not in ("source", "source_path")}, default=str), fcase["impl"], fcase["spec"]),
                      {"input": inp, "impl": fcase["impl"], "spec": fcase["spec"]})
    if not failing:
        if disagreements:
            ctx.violation("correspondence Model.Curves / regenerated tables vs the implementation broken (%d, first: %s); the documented "
                          "semantics held on every explored input" % (len(disagreements), json.dumps(disagreements[0], default=str)[:600]),
                          {"broken": "correspondence curves (Model.Curves over coq/gen tables)", "first": disagreements[0], "count": len(disagreements)},
                          no_input=True)
        elif proofs["failures"]:
            ctx.violation("proof obligations of C11 no longer check against the regenerated tables: " + "; ".join(proofs["failures"])[:600],
                          {"broken": "props/C11.v", "failures": proofs["failures"]}, no_input=True)
    def sample(fname, cv, want_text):
        f = next((x for x in files if x.name == fname), None)
        if f is None:
            return None
        rc, res, err = impl[(fname, cv)]
        for t in f.tmpls:
            for st in t.stmts:
                if st["text"] == want_text:
                    got = [r for r in ("CS0016", "CS0010") if any(l == st["line"] for l, _, _ in res[r])]
                    return {"file": fname + ".circom", "line": st["line"], "curve": cv, "statement": st["text"], "impl_reports": got}
        return None

    def sample_lt(fname, cv, value):
        rc, res, err = impl[(fname, cv)]
        return {"file": fname + ".circom", "curve": cv, "lessthan_input": value,
                "impl_reports": ["CS0014"] if any(lab.startswith("`%s` needs" % value) for _, lab, _ in res["CS0014"]) else []}
    actual_samples = [x for x in (
        sample("names_a", "Bls12_381", "component c%d = Sign();" % name_universe(doc["rows"]).index("Sign")) if "Sign" in name_universe(doc["rows"]) else None,
        sample("n2b", "Bn254", "component c253 = Num2Bits(253);"), sample("n2b", "Bn254", "component c254 = Num2Bits(254);"),
        sample_lt("lt_0", "Goldilocks", "v62"), sample_lt("lt_0", "Goldilocks", "v63"),
        sample_lt("lt_1", "Bls12_381", "v253"), sample_lt("lt_1", "Bls12_381", "v254")) if x]
    ctx.coverage.update({
        "evaluations": evaluations,
        "distinct_nontrivial": len(nontrivial),
        "rule": "one evaluation = one (curve, checked instantiation / LessThan input / --curve spelling) compared with the documented "
                "semantics, where the curve is one of the three given by --curve or `default` (the run without --curve, compared under "
                "BN254); distinct-nontrivial counts (rule, curve, subject) where the subject is a documented table name or a "
                "case variant of one (CS0016), a size within 250..258, non-constant or prime-dependent (CS0010), a bit size within 3 "
                "of the prime's bit length, non-constant, prime-dependent or multiply checked (CS0014), plus the accepted curve spellings",
        "exhaustive": True,
        "input_distribution": "per quick run: 14-15 generated files x (3 curves + no --curve); statements with oracle entries: every documented name and "
                              "near miss once, sizes 0..300 twice (Num2Bits, Bits2Num) and once as LessThan range checks, 126 sentinel sizes three times, "
                              "6 Forms templates (2 per curve: sizes 20/300 and bits-2/bits-1) with 20 LessThan inputs each over array elements, compound, "
                              "prefix, reversed-arrow, loop and shadowed-component values, 2 random files x 2 templates x 90 draws over a value pool of "
                              "scalars / array elements / 2-d elements / negations / + - * with repeated operands; features counted in features_generated",
        "exhaustive_part": "all 26 documented names x 3 curves; Num2Bits(n), Bits2Num(n), LessThan fed from Num2Bits(k) for all n,k in 0..300 x 3 curves; "
                           "all %d case variants of the three curve names; %d sentinel sizes (every power of two up to 2^70, machine-integer "
                           "boundaries +-1, 5000 +-1, sizes at/around each documented prime) for Num2Bits, Bits2Num and LessThan-from-Num2Bits x 3 curves"
                           % (sum(len(case_variants(CANON[v])) for v in VARIANTS), len(sentinel_sizes())),
        "sentinel_sizes": len(sentinel_sizes()),
        "anchored_source_items": len(info["sources"].get("shape", [])),
        "anchored_source_items_matched": sum(1 for _, ok in info["sources"].get("shape", []) if ok),
        "files": len(files), "cli_runs": len(jobs) + names["count"], "instantiation_statements": instantiations,
        "template_name_universe": len(name_universe(doc["rows"])),
        "curve_spellings": names["count"], "curve_spellings_accepted": names["accepted"],
        "non_ascii_curve_spellings": names["non_ascii"],
        "to_uppercase_model_compared": {"spellings": upper_compared, "with_ascii_result": upper_ascii_results,
                                        "accepted_only_under_to_uppercase": sum(1 for a, b in zip(m_parse, m_parse_u) if a != b),
                                        "hypothesis_ascii_only_of_C11_normalisers_agree_on_ascii": {"true_and_conclusion_checked": hyp_true, "false": hyp_false}},
        "model_programs": "derived from the tool's IR (harness `curves ir`): %d (file, curve) dumps" % len(dumps),
        "expression_identity_pairs_checked": eq_pairs,
        "expression_identity_keys": {"distinct_per_file_summed": eq_distinct, "dropped_by_the_cap_of_1400_per_file": eq_dropped,
                                     "rule": "all key expressions of a FILE are paired (across its definitions), at most 3 occurrences of one identity"},
        "abstraction_expectation": abstraction,
        "features_generated": feature_count,
        "corpus_cases": ncorpus,
        "default_curve_runs": {"cli_runs_without_curve_option": len(files) + 1, "evaluations": default_evaluations + 1,
                               "probe_behaves_as": names["default_seen"], "documented_default": DOC_DEFAULT,
                               "default_value_read_from_source": info["sources"].get("cli_default_curve", "")},
        "disagreements_model_vs_impl": len(disagreements),
        "spec_failures": len(failing),
        "samples": (failing[:2] or disagreements[:2]) or actual_samples,
        "executed_primes": {v: str(info["primes"][v]["prime"]) for v in VARIANTS if v in info["primes"]},
        "open_statements": [
            "forall statements s of a CFG: the abstraction `curves ir` computes for s (type knowledge, call, argument values, access path, "
            "structural identity of the value) is what the three passes inspect of s - there is no Gallina model of the IR in this engine; "
            "tied by the end-to-end comparison on every generated definition and by the generator's expectation, not proved",
            "forall expressions e1 e2: Expression::eq e1 e2 <-> the structural identities agree, and equal expressions hash alike - "
            "executed on every pair of key expressions of the generated definitions, not proved (no model of PartialEq / Hash for Expression)",
            "forall size expressions: the tool's value knowledge is Some(FieldElement n) iff the expression is a compile-time constant of "
            "value n in the documented field - the subject of C06; exercised here with literals, operators, variable chains, branches, hexadecimal "
            "and prime-dependent constants against an independent oracle",
            "the instantiation in a main component is examined like one in a template: FALSE on the current tree "
            "(known finding C11-main-component-not-analysed)",
            "a component VARIABLE assigned Num2Bits(k) on several paths counts as a range check only if every assignment does: FALSE on the "
            "current tree - the last HashMap::insert in block order decides (reported per run: VIOLATION with the generated input, or known "
            "finding C11-component-assigned-on-two-paths when listed); the model mirrors the overwrite, C11_lessthan_reports_exact restates it "
            "(collected_inputs on both sides)",
        ],
    })
    ctx.assumptions += [
        "the abstraction of a statement of the tool's IR to the model's statement (type knowledge, call name, value knowledge of the arguments, access "
        "path, structural identity of the constrained value) is computed from the CFG the passes receive by harness/src/bin/curves.rs (`curves ir`, "
        "about 100 lines: AnalysisRunner::with_files, cfg.iter()/basic_block.iter(), type_knowledge(), value(), fn ident); it is trusted code, "
        "cross-checked by the end-to-end comparison and by the generator's own expectation of it (coverage.abstraction_expectation), not proved",
        "structural identity of expressions (every field but the metas) is the reading of `the same value` used by model and oracle; the real "
        "Expression::eq / Hash are compared with it on every pair of key expressions of every generated definition (coverage.expression_identity_pairs_checked)",
        "value knowledge of size arguments comes from the tool's constant propagation (property C06); here it is exercised with literals "
        "(dense range and large sentinels), every arithmetic/bitwise/comparison/ternary operator on literals, local-variable chains, compound "
        "assignment, a variable assigned on both branches, and constants that are only determined modulo the prime",
        "the strict source reader (lib/props/c11shape.py: tokenizer, template matcher, hand-written templates and inventories of the four "
        "Rust files) is trusted to cut items correctly; what it guarantees is that every token of the anchored items is accounted for by "
        "the template, and the behaviour of the items it does not anchor (report builders, Display/Debug of Curve) is not part of the model",
        "Circomlib's spelling of the documented names (Bits2Point_Strict, Point2Bits_Strict) is a fixed part of the specification (Spec.CurvesSpec.circomlib_spelling)",
        "the model of str::to_uppercase (used only when the source names that normaliser again) rests on the executed table of the characters whose "
        "upper-casing is ASCII text (`curves upper-table`, every code point) and on Rust's to_uppercase being character-wise",
        "which inputs of LessThan / Num2Bits the pass finds at all (`<--`, array literals, inputs of anonymous components, a check in another loop "
        "are not tracked) is mirrored by the model and compared with the binary, but is not part of the oracle: the property speaks of what counts "
        "as a range check",
        "the three documented primes are the constants of Spec.CurvesSpec (BN254 and BLS12-381 scalar fields in hexadecimal, Goldilocks as 2^64 - 2^32 + 1)",
    ]


def replay(ctx, rep):
    cli = common.build_cli()
    binary = common.build_harness("curves")
    inp = rep.get("input")
    if not inp:
        print("replay names a broken obligation or correspondence, not an input:", rep.get("broken"))
        return 1
    if inp.get("kind") == "curve-name":
        r = run_corpus_case(ctx, cli, binary, {"kind": "curve-name", "spelling": inp["spelling"], "expect": rep.get("spec")})
        print("spelling %r: documented %s; %s" % (inp["spelling"], rep.get("spec"), "still deviates: %s" % r["impl"] if r else "now as documented"))
        return 1 if r else 0
    d = os.path.join(ctx.work, "replay")
    os.makedirs(d, exist_ok=True)
    path = os.path.join(d, "replay.circom")
    open(path, "w").write(inp["source"])
    if inp.get("kind") == "expr-identity":
        dmp = ir_programs(binary, {"replay": path})[("replay", inp.get("curve", DOC_DEFAULT))]
        bad = dmp.get("eq_bad", [])
        print("Expression::eq / Hash against structural identity on the key expressions of the file: %d pairs, %d deviating" % (dmp.get("eq_pairs", 0), len(bad)))
        for b in bad[:3]:
            print("  `%s` (line %s) / `%s` (line %s): structurally identical %s, eq %s, hashes equal %s"
                  % (b["a"], b["line_a"], b["b"], b["line_b"], b["structurally_identical"], b["eq"], b["hash_equal"]))
        return 1 if bad else 0
    curve = None if inp["curve"] == DEFAULT_RUN else CURVE_ARG.get(inp["curve"], inp["curve"])
    rc, res, err = run_cli(cli, path, curve, path + ".sarif")
    rule = inp.get("rule")
    if rule in ("CS0016", "CS0010"):
        got = "%d report(s)" % sum(1 for l, _, _ in res[rule] if l == inp.get("line"))
        if rule == "CS0010" and not all(("`%s`" % str(inp.get("subject", "")).split("(")[0]) in msg
                                        for l, _, msg in res[rule] if l == inp.get("line")):
            got += " naming another template"
    elif rule == "CS0014":
        got = "%d report(s)" % sum(1 for _, lab, _ in res["CS0014"] if lab.startswith("`%s` needs" % inp.get("value")))
    else:
        got = {"CS0016": sorted(l for l, _, _ in res["CS0016"]), "CS0010": sorted(l for l, _, _ in res["CS0010"]),
               "CS0014": sorted(re.sub(r"^`(.*)` needs.*$", r"\1", lab) for _, lab, _ in res["CS0014"])}
    print("curve %s, %s %s" % (curve or "default (no --curve option)", rule or "", inp.get("statement") or inp.get("value") or ""))
    print("implementation:", got)
    print("documented    :", rep.get("spec"))
    print("recorded      :", rep.get("impl"))
    return 1 if got == rep.get("impl") else 0
